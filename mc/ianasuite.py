"""Independent reading of IANA cipher-suite names.

Nothing here looks at tlslite.constants' classification lists; only the name
string (taken from CipherSuite.ietfNames values, i.e. the registry names) is
parsed.  The result drives settings restriction and is the oracle for C20.
"""
import re


class SuiteInfo(object):
    __slots__ = ("name", "tls13", "kex", "auth", "cipher", "keylen", "mode",
                 "mac", "maclen", "taglen", "prf", "first_version",
                 "blocklen", "ivlen", "export", "implementable")

    def __repr__(self):
        return "SuiteInfo(%s)" % ", ".join(
            "%s=%r" % (k, getattr(self, k)) for k in self.__slots__)

    # names as used by tlslite settings -------------------------------
    def setting_cipher(self):
        c, m = self.cipher, self.mode
        if c == "AES":
            base = "aes%d" % self.keylen
            if m == "GCM":
                return base + "gcm"
            if m == "CCM":
                return base + "ccm"
            if m == "CCM_8":
                return base + "ccm_8"
            return base
        if c == "3DES":
            return "3des"
        if c == "RC4":
            return "rc4"
        if c == "NULL":
            return "null"
        if c == "CHACHA20":
            return "chacha20-poly1305_draft00" if self.name.endswith(
                "_draft_00") else "chacha20-poly1305"
        return None

    def setting_mac(self):
        if self.mode in ("GCM", "CCM", "CCM_8", "POLY1305"):
            return "aead"
        return {"SHA": "sha", "SHA256": "sha256", "SHA384": "sha384",
                "MD5": "md5"}.get(self.mac)

    def setting_kex(self):
        if self.tls13:
            return None
        k, a = self.kex, self.auth
        return {("RSA", "RSA"): "rsa", ("DHE", "RSA"): "dhe_rsa",
                ("DHE", "DSS"): "dhe_dsa",
                ("ECDHE", "RSA"): "ecdhe_rsa",
                ("ECDHE", "ECDSA"): "ecdhe_ecdsa",
                ("SRP", "SRP"): "srp_sha", ("SRP", "RSA"): "srp_sha_rsa",
                ("DH", "anon"): "dh_anon",
                ("ECDH", "anon"): "ecdh_anon"}.get((k, a))

    def session_cipher_name(self):
        """What Session.getCipherName()/connection.getCipherName() should
        say (tlslite's documented vocabulary)."""
        return self.setting_cipher()

    def session_mac_name(self):
        return self.setting_mac()


_KEX = [
    ("TLS_ECDHE_ECDSA_", ("ECDHE", "ECDSA")),
    ("TLS_ECDHE_RSA_", ("ECDHE", "RSA")),
    ("TLS_ECDH_ECDSA_", ("ECDH", "ECDSA_static")),
    ("TLS_ECDH_RSA_", ("ECDH", "RSA_static")),
    ("TLS_ECDH_anon_", ("ECDH", "anon")),
    ("TLS_ECDH_ANON_", ("ECDH", "anon")),
    ("TLS_DHE_RSA_", ("DHE", "RSA")),
    ("TLS_DHE_DSS_", ("DHE", "DSS")),
    ("TLS_DH_RSA_", ("DH", "RSA_static")),
    ("TLS_DH_DSS_", ("DH", "DSS_static")),
    ("TLS_DH_anon_", ("DH", "anon")),
    ("TLS_DH_ANON_", ("DH", "anon")),
    ("TLS_SRP_SHA_RSA_", ("SRP", "RSA")),
    ("TLS_SRP_SHA_DSS_", ("SRP", "DSS")),
    ("TLS_SRP_SHA_", ("SRP", "SRP")),
    ("TLS_RSA_", ("RSA", "RSA")),
]


def parse(name):
    """Parse an IANA (or draft) suite name.  Returns SuiteInfo or None for
    signalling values (SCSVs) and SSLv2 kinds."""
    if name.startswith("SSL_CK_") or name.endswith("_SCSV"):
        return None
    s = SuiteInfo()
    s.name = name
    s.export = "EXPORT" in name
    s.maclen = None
    s.taglen = None
    s.blocklen = None
    s.ivlen = None
    rest = None
    if "_WITH_" in name:
        s.tls13 = False
        for pre, (k, a) in _KEX:
            if name.startswith(pre):
                s.kex, s.auth = k, a
                rest = name[len(pre):]
                break
        else:
            return None
        assert rest.startswith("WITH_"), name
        rest = rest[5:]
    else:
        s.tls13 = True
        s.kex, s.auth = "TLS13", "TLS13"
        assert name.startswith("TLS_"), name
        rest = name[4:]
    draft = False
    if rest.endswith("_draft_00"):
        rest = rest[:-len("_draft_00")]
        draft = True
    # cipher
    m = re.match(r"AES_(128|256)_(CBC|GCM|CCM_8|CCM)_?(.*)$", rest)
    if m:
        s.cipher = "AES"
        s.keylen = int(m.group(1))
        s.mode = m.group(2)
        tail = m.group(3)
        s.blocklen = 16
    elif rest.startswith("3DES_EDE_CBC_"):
        s.cipher, s.keylen, s.mode = "3DES", 192, "CBC"
        s.blocklen = 8
        tail = rest[len("3DES_EDE_CBC_"):]
    elif rest.startswith("RC4_128_"):
        s.cipher, s.keylen, s.mode = "RC4", 128, "STREAM"
        tail = rest[len("RC4_128_"):]
    elif rest.startswith("NULL_"):
        s.cipher, s.keylen, s.mode = "NULL", 0, "STREAM"
        tail = rest[len("NULL_"):]
    elif rest.startswith("CHACHA20_POLY1305"):
        s.cipher, s.keylen, s.mode = "CHACHA20", 256, "POLY1305"
        tail = rest[len("CHACHA20_POLY1305"):].lstrip("_")
    else:
        return None
    # In a CCM name without hash suffix the tail is empty (RFC 6655)
    aead = s.mode in ("GCM", "CCM", "CCM_8", "POLY1305")
    if aead:
        s.mac = None
        s.taglen = 8 if s.mode == "CCM_8" else 16
        if tail == "SHA384":
            s.prf = "sha384"
        else:
            # SHA256 suffix, or none (CCM, draft-00 chacha): TLS 1.2 default
            s.prf = "sha256"
        s.first_version = (3, 4) if s.tls13 else (3, 3)
        s.ivlen = 12 if (s.tls13 or s.mode == "POLY1305") else 4
    else:
        s.mac = tail
        s.maclen = {"MD5": 16, "SHA": 20, "SHA256": 32, "SHA384": 48}[tail]
        if tail in ("SHA256", "SHA384"):
            s.first_version = (3, 3)
            s.prf = "sha384" if tail == "SHA384" else "sha256"
        else:
            s.first_version = (3, 0)
            s.prf = "sha256"      # when used in TLS 1.2
    if draft:
        s.first_version = (3, 3)
    s.implementable = True
    return s


def defined_in(info, version):
    """Does the registry define this suite for that protocol version?"""
    if info.tls13:
        return version == (3, 4)
    if version == (3, 4):
        return False
    return version >= info.first_version


def cred_for(info):
    """Fixture credential kind the name calls for."""
    if info.tls13:
        return "rsa"
    return {"RSA": "rsa", "ECDSA": "ecdsa", "DSS": "dsa", "anon": "anon",
            "SRP": "srp"}.get(info.auth)
