"""Whole-connection programs (handshake, data exchange, close) used by the
transport (C14) and fault (C17) explorers."""
from . import world as W
from . import scen as S
from .world import SEAMS, World, Script, Pair, Task, run_tasks, exc_sig

MSG1 = b"C->S: forty bytes of application data..!"
MSG2 = b"S->C: ok"
MSG3 = b"C->S: second message, a little longer than the first one, 70 bytes.."


def _is_sig(r):
    return isinstance(r, int) and r in (0, 1)


def _read_n(conn, n, log, tag, exact=False):
    got = b""
    while len(got) < n:
        data = None
        want = n - len(got)
        for r in (conn.readAsync(want, want) if exact else
                  conn.readAsync(None, 1)):
            if _is_sig(r):
                yield r
            else:
                data = r
        if not data:
            break
        got += bytes(data)
    log.append((tag, got))
    if len(got) < n and tag != "read-eof":
        raise PeerClosed()


def _write_parts(conn, msg, multi):
    """One write, or (multi) three writes so that the message spans three
    records and the reader's read(min=len) has to go back to the socket
    with part of the message already buffered."""
    parts = [msg] if not multi else [msg[:len(msg) // 3],
                                     msg[len(msg) // 3:2 * len(msg) // 3],
                                     msg[2 * len(msg) // 3:]]
    for part in parts:
        for r in conn.writeAsync(part):
            yield r


class PeerClosed(Exception):
    """The peer ended the stream early (read returned b""): the program
    skips its remaining operations and closes."""


def client_prog(conn, scen, log, opts, session=None):
    try:
        for r in _client_prog(conn, scen, log, opts, session):
            yield r
    except PeerClosed:
        log.append(("peer-closed",))
        for r in conn.closeAsync():
            yield r


def server_prog(conn, scen, log, opts, cache=None):
    try:
        for r in _server_prog(conn, scen, log, opts, cache):
            yield r
    except PeerClosed:
        log.append(("peer-closed",))
        for r in conn.closeAsync():
            yield r


def _client_prog(conn, scen, log, opts, session=None):
    for r in scen.client_gen(conn, session=session):
        yield r
    conn._verif_dead_at_hs = _transport_dead(conn)
    log.append(("hs", "ok", W.view(conn)))
    if opts.get("closeSocket") is not None:
        conn.closeSocket = opts["closeSocket"]
    if opts.get("ignoreAbruptClose") is not None:
        conn.ignoreAbruptClose = opts["ignoreAbruptClose"]
    if opts.get("abort") == "client-after-hs":
        # the application gives up right away: fatal alert, socket closed
        from tlslite.messages import Alert
        from tlslite.constants import AlertDescription, AlertLevel
        for r in conn._sendMsg(Alert().create(AlertDescription.internal_error,
                                              AlertLevel.fatal)):
            yield r
        conn._shutdown(False)
        log.append(("aborted",))
        return
    multi = bool(opts.get("multi_record"))
    for r in _write_parts(conn, MSG1, multi):
        yield r
    log.append(("write", len(MSG1)))
    for r in _read_n(conn, len(MSG2), log, "read", multi):
        yield r
    if opts.get("keyupdate") and tuple(conn.version) >= (3, 4):
        from tlslite.constants import KeyUpdateMessageType as KU
        for r in conn.send_keyupdate_request(KU.update_requested):
            yield r
    if opts.get("heartbeat") and conn.heartbeat_supported and \
            conn.heartbeat_can_send:
        for r in conn.write_heartbeat(bytearray(b"hb"), 16):
            yield r
    for r in _write_parts(conn, MSG3, multi):
        yield r
    log.append(("write", len(MSG3)))
    for r in conn.closeAsync():
        yield r
    log.append(("close", "ok"))


def _server_prog(conn, scen, log, opts, cache=None):
    if opts.get("abort") == "server-at-start":
        # a server that refuses at once: plaintext fatal alert, then close
        sock = conn.sock
        try:
            sock.send(b"\x15\x03\x01\x00\x02\x02\x28")
        except Exception:
            pass
        sock.close()
        log.append(("aborted",))
        return
        yield 0     # (generator)
    for r in scen.server_gen(conn, cache=cache):
        yield r
    conn._verif_dead_at_hs = _transport_dead(conn)
    log.append(("hs", "ok", W.view(conn)))
    if opts.get("closeSocket") is not None:
        conn.closeSocket = opts["closeSocket"]
    if opts.get("ignoreAbruptClose") is not None:
        conn.ignoreAbruptClose = opts["ignoreAbruptClose"]
    multi = bool(opts.get("multi_record"))
    for r in _read_n(conn, len(MSG1), log, "read", multi):
        yield r
    if opts.get("pha") and tuple(conn.version) >= (3, 4) and \
            conn._pha_supported:
        for r in conn.request_post_handshake_auth():
            yield r
    for r in _write_parts(conn, MSG2, multi):
        yield r
    log.append(("write", len(MSG2)))
    for r in _read_n(conn, len(MSG3), log, "read", multi):
        yield r
    # wait for the peer's close_notify: read returns b"" then
    for r in _read_n(conn, 1, log, "read-eof"):
        yield r
    for r in conn.closeAsync():
        yield r
    log.append(("close", "ok"))


def _transport_dead(conn):
    sock = conn.sock
    sock = getattr(sock, "socket", sock)
    return bool(getattr(sock, "dead", False))


def observe(conn, log, outcome):
    s = conn.session
    return {"log": [tuple(x) for x in log],
            "dead_at_hs": bool(getattr(conn, "_verif_dead_at_hs", False)),
            "sock_closed": bool(getattr(getattr(conn.sock, "socket",
                                                conn.sock), "closed", False)),
            "outcome": outcome.sig() if outcome is not None else None,
            "closed": bool(conn.closed),
            "resumable": bool(s.resumable) if s is not None else None}


def run_session(scen, seed, choices=None, regime=None, recv_alts=1,
                send_alts=1, opts=None, order=None, mitm=None,
                world_hook=None):
    """One complete execution.  Returns (script points, observation)."""
    SEAMS.reset(seed, scen.name)
    script = Script(choices, regime)
    w = World(script, recv_alts=recv_alts, send_alts=send_alts)
    if mitm is not None:
        mitm(w)
    pair = Pair(w)
    opts = opts or {}
    clog, slog = [], []
    SEAMS.current = "C"
    cg = client_prog(pair.c, scen, clog, opts)
    SEAMS.current = "S"
    sg = server_prog(pair.s, scen, slog, opts)
    SEAMS.current = "main"
    if world_hook:
        world_hook(w, pair)
    out = run_tasks(w, [Task("C", cg), Task("S", sg)], order=order,
                    max_steps=opts.get("max_steps", 400000))
    obs = {"C": observe(pair.c, clog, out["C"]),
           "S": observe(pair.s, slog, out["S"])}
    obs["_pair"] = pair
    obs["_out"] = out
    return script.points, obs


def public(obs):
    """Observation without the private handles (comparable, picklable)."""
    return {"C": obs["C"], "S": obs["S"]}
