"""Bounded exhaustive exploration of tlslite-ng (see /verif/DESIGN.md)."""
