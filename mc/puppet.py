"""The lying peer: an ordinary TLSConnection whose *instance* attributes
_sendMsg and _queue_message are wrapped so that the harness can skip,
duplicate, reorder, insert or replace messages before they are hashed and
sent.  The puppet keeps its own transcript consistent with what it sent, so
only the victim's state machine can object.
"""
from tlslite.messages import (Message, ChangeCipherSpec, Finished, Alert,
                              ApplicationData, HelloRequest, ClientHello,
                              NewSessionTicket, NewSessionTicket1_0,
                              KeyUpdate, Certificate, ServerHelloDone)
from tlslite.constants import (ContentType, HandshakeType, AlertLevel,
                               AlertDescription, CertificateType)

HS_TOKENS = {0: "HREQ", 1: "CH", 2: "SH", 4: "NST", 8: "EE", 11: "CERT",
             12: "SKE", 13: "CR", 14: "SHD", 15: "CV", 16: "CKE", 20: "FIN",
             24: "KU", 67: "NP", 25: "CCERT", 254: "MSGHASH"}


def token_of(msg):
    ct = msg.contentType
    if ct == ContentType.change_cipher_spec:
        return "CCS"
    if ct == ContentType.alert:
        return "ALERT"
    if ct == ContentType.application_data:
        return "APP"
    if ct == ContentType.heartbeat:
        return "HB"
    if ct == ContentType.handshake:
        try:
            data = msg.write()
            t = data[0]
        except Exception:
            return "HS?"
        tok = HS_TOKENS.get(t, "HS%d" % t)
        if tok == "SH" and bytes(data[6:38]) == bytes.fromhex(
                "cf21ad74e59a6111be1d8c021e65b891"
                "c2a211167abb8c5e079e09e2c8a8339c"):
            tok = "HRR"
        return tok
    return "CT%d" % ct


class RawMsg(object):
    """A message given by content type and serialised bytes."""

    def __init__(self, content_type, data):
        self.contentType = content_type
        self.data = bytearray(data)

    def write(self):
        return self.data


def build_insert(conn, what):
    """Construct a message of kind `what` from the puppet's current state."""
    v = conn.version
    if what == "CCS":
        return ChangeCipherSpec().create()
    if what == "HREQ":
        return HelloRequest().create()
    if what == "APP":
        return ApplicationData().create(bytearray(b"early application "
                                                  b"data"))
    if what == "ALERT_WARN":
        return Alert().create(AlertDescription.user_canceled,
                              AlertLevel.warning)
    if what == "NST":
        if v >= (3, 4):
            return NewSessionTicket().create(3600, 0, bytearray(b"n"),
                                             bytearray(b"ticket" * 4), [])
        return NewSessionTicket1_0().create(3600, bytearray(b"ticket" * 4))
    if what == "KU":
        return KeyUpdate().create(0)
    if what == "FIN":
        vd = bytearray(36 if v == (3, 0) else (12 if v < (3, 4) else 32))
        return RawMsg(ContentType.handshake,
                      bytearray([20]) + len(vd).to_bytes(3, "big") + vd)
    if what == "CH":
        ch = ClientHello().create((3, 3), bytearray(32), bytearray(0),
                                  [0x002f], extensions=[])
        return ch
    if what == "CERT_EMPTY":
        c = Certificate(CertificateType.x509, v)
        from tlslite.x509certchain import X509CertChain
        c.create(X509CertChain([]))
        return c
    if what == "SHD":
        return ServerHelloDone().create()
    if what == "CR":
        from tlslite.messages import CertificateRequest
        from tlslite.extensions import SignatureAlgorithmsExtension
        algs = [(4, 1), (8, 4), (4, 3), (8, 7), (2, 1)]
        cr = CertificateRequest(v if v >= (3, 0) else (3, 3))
        if v >= (3, 4):
            return cr.create(context=b"", extensions=[
                SignatureAlgorithmsExtension().create(algs)])
        return cr.create([1, 64, 2], [], algs)
    if what == "CV":
        body = bytearray(b"\x08\x04\x00\x40") + bytearray(64)
        return RawMsg(ContentType.handshake, bytearray([15]) +
                      len(body).to_bytes(3, "big") + body)
    if what == "CKE":
        body = bytearray(b"\x20") + bytearray(b"\x09" + b"\x00" * 31)
        return RawMsg(ContentType.handshake, bytearray([16]) +
                      len(body).to_bytes(3, "big") + body)
    if what == "SKE":
        body = bytearray(b"\x03\x00\x1d\x20" + b"\x09" + b"\x00" * 31)
        return RawMsg(ContentType.handshake, bytearray([12]) +
                      len(body).to_bytes(3, "big") + body)
    if what == "EE":
        return RawMsg(ContentType.handshake,
                      bytearray(b"\x08\x00\x00\x02\x00\x00"))
    if what == "CSTATUS":
        return RawMsg(ContentType.handshake,
                      bytearray(b"\x16\x00\x00\x04\x01\x00\x00\x00"))
    if what == "HS99":
        return RawMsg(ContentType.handshake,
                      bytearray(b"\x63\x00\x00\x01\x00"))
    raise ValueError(what)


class Tap(object):
    """Passive observer of one (untouched) endpoint: one ordered log of the
    messages it consumed (as _getNextRecord handed them over) and the messages it sent.  Nothing is altered."""

    def __init__(self, conn):
        self.log = []
        self.conn = conn
        orig_next = conn._getNextRecord

        def get_next_record():
            for r in orig_next():
                if r not in (0, 1):
                    header, parser = r
                    if getattr(header, "ssl2", False):
                        self.log.append(("recv", "CH"))
                    else:
                        self.log.append(("recv", token_of(
                            RawMsg(header.type, parser.bytes))))
                yield r
        conn._getNextRecord = get_next_record
        orig_send = conn._sendMsg
        orig_queue = conn._queue_message

        def send(msg, randomizeFirstBlock=True, update_hashes=True):
            if update_hashes or type(msg) is not Message:
                self.log.append(("send", token_of(msg)))
            return orig_send(msg, randomizeFirstBlock, update_hashes)

        def queue(msg):
            self.log.append(("send", token_of(msg)))
            return orig_queue(msg)
        conn._sendMsg = send
        conn._queue_message = queue


class Puppet(object):
    """Deviation script applied to one connection's outgoing messages.

    script: dict index -> action, where action is one of
      ("skip",) ("dup",) ("swap",) ("insert", what) ("replace", bytes)
      ("mutate", callable(bytes)->bytes)
    Indices count every message handed to _sendMsg/_queue_message in order.
    """

    def __init__(self, conn, script=None):
        self.conn = conn
        self.script = dict(script or {})
        self.i = 0
        self.sent = []          # tokens actually sent, in order
        self.honest = []        # (index, token) as the library produced them
        self.held = None
        self.orig_send = conn._sendMsg
        self.orig_queue = conn._queue_message
        conn._sendMsg = self._send
        conn._queue_message = self._queue

    # -- generator path
    def _emit(self, msg, randomizeFirstBlock=True, update_hashes=True):
        self.sent.append(token_of(msg))
        for r in self.orig_send(msg, randomizeFirstBlock, update_hashes):
            yield r

    def _send(self, msg, randomizeFirstBlock=True, update_hashes=True):
        if not update_hashes and type(msg) is Message:
            # _queue_flush pushing an already processed buffer
            for r in self.orig_send(msg, randomizeFirstBlock, update_hashes):
                yield r
            return
        i = self.i
        self.i += 1
        tok = token_of(msg)
        self.honest.append((i, tok))
        act = self.script.get(i)
        if getattr(self, "split", None) is not None:
            # the message after a held-back ChangeCipherSpec: its first k
            # bytes go out under the old write state, then the CCS, then the
            # rest under the new state
            ccs, k, old_state = self.split
            self.split = None
            rl = self.conn._recordLayer
            data = bytearray(msg.write())
            if update_hashes:
                self.conn._handshake_hash.update(data)
            new_state = rl._writeState
            rl._writeState = old_state
            self.sent.append("FRAG")
            for r in self.orig_send(RawMsg(msg.contentType, data[:k]),
                                    randomizeFirstBlock, False):
                yield r
            self.sent.append(token_of(ccs))
            for r in self.orig_send(ccs, True, False):
                yield r
            rl._writeState = new_state
            self.sent.append(tok)
            for r in self.orig_send(RawMsg(msg.contentType, data[k:]),
                                    randomizeFirstBlock, False):
                yield r
            return
        if act is not None and act[0] == "split-ccs":
            if tok != "CCS":
                raise NotQueueable("split-ccs")
            self.split = (msg, act[1], self.conn._recordLayer._writeState)
            return
        if self.held is not None and (act is None or act[0] != "swap"):
            held, self.held = self.held, None
            for r in self._apply(act, msg, randomizeFirstBlock,
                                 update_hashes):
                yield r
            for r in self._emit(held):
                yield r
            return
        for r in self._apply(act, msg, randomizeFirstBlock, update_hashes):
            yield r

    def _apply(self, act, msg, rfb, uh):
        if act is None:
            for r in self._emit(msg, rfb, uh):
                yield r
            return
        kind = act[0]
        if kind == "skip":
            return
        if kind == "dup":
            for r in self._emit(msg, rfb, uh):
                yield r
            for r in self._emit(msg, rfb, uh):
                yield r
            return
        if kind == "swap":
            self.held = msg
            return
        if kind == "insert":
            ins = build_insert(self.conn, act[1])
            for r in self._emit(ins):
                yield r
            for r in self._emit(msg, rfb, uh):
                yield r
            return
        if kind == "replace-alert":
            # a warning alert in place of the message (e.g. no_certificate
            # where a Certificate is due); nothing enters the transcript
            al = Alert().create(act[1], AlertLevel.warning)
            for r in self._emit(al, True, False):
                yield r
            return
        if kind == "insert-nohash":
            # an on-path attacker's insertion: the puppet's own transcript
            # does not contain it (a victim that silently drops the message
            # then still agrees on the Finished value)
            ins = build_insert(self.conn, act[1])
            for r in self._emit(ins, True, False):
                yield r
            for r in self._emit(msg, rfb, uh):
                yield r
            return
        if kind == "replace":
            for r in self._emit(RawMsg(msg.contentType, act[1]), rfb, uh):
                yield r
            return
        if kind == "mutate":
            data = act[1](bytes(msg.write()))
            if data is None:
                for r in self._emit(msg, rfb, uh):
                    yield r
            else:
                for r in self._emit(RawMsg(msg.contentType, data), rfb, uh):
                    yield r
            return
        if kind == "straddle":
            # the message followed, in the same record, by the first bytes
            # of another handshake message; the puppet's own transcript
            # covers the message only
            if msg.contentType != ContentType.handshake:
                raise NotQueueable("straddle")
            data = bytearray(msg.write())
            if uh:
                self.conn._handshake_hash.update(data)
            self.sent.append(token_of(msg))
            self.sent.append("FRAG")
            for r in self.orig_send(RawMsg(msg.contentType,
                                           data + bytearray(act[1])),
                                    rfb, False):
                yield r
            return
        raise ValueError(act)

    # -- queue path (TLS 1.3 server flight)
    def _q(self, msg):
        self.sent.append(token_of(msg))
        self.orig_queue(msg)

    def _queue(self, msg):
        i = self.i
        self.i += 1
        tok = token_of(msg)
        self.honest.append((i, tok))
        act = self.script.get(i)
        held = None
        if self.held is not None and (act is None or act[0] != "swap"):
            held, self.held = self.held, None
        if act is None:
            self._q(msg)
        elif act[0] == "skip":
            pass
        elif act[0] == "dup":
            self._q(msg)
            self._q(msg)
        elif act[0] == "swap":
            self.held = msg
        elif act[0] == "insert":
            ins = build_insert(self.conn, act[1])
            if ins.contentType != msg.contentType:
                raise NotQueueable(act[1])
            self._q(ins)
            self._q(msg)
        elif act[0] == "replace-alert":
            raise NotQueueable("alert in a coalesced flight")
        elif act[0] == "insert-nohash":
            ins = build_insert(self.conn, act[1])
            if ins.contentType != msg.contentType:
                raise NotQueueable(act[1])
            self.sent.append(token_of(ins))
            self.conn._buffer += ins.write()
            if self.conn._buffer_content_type is None:
                self.conn._buffer_content_type = ins.contentType
            self._q(msg)
        elif act[0] == "replace":
            self._q(RawMsg(msg.contentType, act[1]))
        elif act[0] == "mutate":
            data = act[1](bytes(msg.write()))
            self._q(msg if data is None else RawMsg(msg.contentType, data))
        elif act[0] == "split-ccs":
            raise NotQueueable("split-ccs")
        elif act[0] == "straddle":
            if msg.contentType != ContentType.handshake:
                raise NotQueueable("straddle")
            self._q(msg)
            self.sent.append("FRAG")
            self.conn._buffer += bytearray(act[1])
        else:
            raise ValueError(act)
        if held is not None:
            self._q(held)


class NotQueueable(Exception):
    """Insertion of another content type into a coalesced flight."""
