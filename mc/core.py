"""Result bookkeeping: evidence files, violations, replays, known findings,
parallel map."""
import os
import sys
import json
import time
import hashlib
import multiprocessing

VERIF = os.path.dirname(os.path.dirname(os.path.abspath(__file__)))
EVIDENCE_DIR = os.environ.get("VERIF_EVIDENCE_DIR") or os.path.join(
    VERIF, "evidence")
REPLAY_DIR = os.path.join(VERIF, "replays")
KNOWN_FILE = os.path.join(VERIF, "known_findings.json")

_perf = time.perf_counter


def jsonable(x):
    if isinstance(x, (bytes, bytearray)):
        return "hex:" + bytes(x).hex()
    if isinstance(x, dict):
        return dict((str(k), jsonable(v)) for k, v in x.items())
    if isinstance(x, (list, tuple, set, frozenset)):
        return [jsonable(v) for v in x]
    if isinstance(x, (int, float, str, bool)) or x is None:
        return x
    return repr(x)


def load_known():
    try:
        with open(KNOWN_FILE) as f:
            data = json.load(f)
    except IOError:
        return []
    return data.get("known", [])


class Result(object):
    def __init__(self, pid, level, tier, seed):
        self.pid = pid
        self.level = level
        self.tier = tier
        self.seed = seed
        self.t0 = _perf()
        self.coverage = {"evaluations": 0, "distinct_nontrivial": 0,
                         "rule": "", "samples": [], "exhaustive": True,
                         "caps_hit": []}
        self.assumptions = []
        self.violations = []        # (key, detail, replay)
        self.known_hits = {}        # finding id -> count
        self.known = [k for k in load_known() if k.get("property") == pid]
        self._outcomes = set()
        self.sections = {}

    # -- bookkeeping
    def count(self, n=1):
        self.coverage["evaluations"] += n

    def outcome(self, sig):
        """Record an observed outcome signature (vacuity control)."""
        try:
            self._outcomes.add(sig)
        except TypeError:
            self._outcomes.add(repr(sig))

    def sample(self, s, limit=12):
        if len(self.coverage["samples"]) < limit:
            self.coverage["samples"].append(jsonable(s))

    def section(self, name, **kw):
        self.sections.setdefault(name, {}).update(jsonable(kw))

    def cap(self, what):
        self.coverage["exhaustive"] = False
        self.coverage["caps_hit"].append(what)

    # -- violations
    def _match_known(self, key):
        for k in self.known:
            want = k.get("key", {})
            if all(jsonable(key.get(a)) == b for a, b in want.items()):
                return k
        return None

    def violation(self, key, detail, replay=None):
        """key: dict identifying the failure narrowly; detail: free-form;
        replay: dict re-runnable by the property module's replay()."""
        k = self._match_known(key)
        if k is not None:
            kid = k.get("id", "?")
            self.known_hits.setdefault(kid, [0, k, None])
            self.known_hits[kid][0] += 1
            if self.known_hits[kid][2] is None:
                self.known_hits[kid][2] = jsonable(detail)
            return False
        self.violations.append((jsonable(key), jsonable(detail),
                                jsonable(replay)))
        return True

    # -- finish
    def finish(self):
        for h in HANGS:
            self.violation({"kind": "hang", "fn": h.fn},
                           {"item": h.item, "interrupted_after_s": h.seconds,
                            "where": h.where,
                            "fail": "library call did not return (no yield "
                                    "to the scheduler) and was interrupted"},
                           {"hang": h.item})
        del HANGS[:]
        cov = self.coverage
        cov["distinct_outcomes"] = len(self._outcomes)
        if not cov.get("distinct_nontrivial"):
            cov["distinct_nontrivial"] = len(self._outcomes)
        if self.sections:
            cov["sections"] = self.sections
        wall = _perf() - self.t0
        ev = {"property_id": self.pid, "tier": self.tier, "seed": self.seed,
              "level": self.level, "coverage": cov,
              "assumptions": self.assumptions, "wall_s": round(wall, 2),
              "violations": len(self.violations),
              "known_findings_hit": dict(
                  (kid, {"count": v[0], "what": v[1].get("what"),
                         "first": v[2]})
                  for kid, v in self.known_hits.items())}
        os.makedirs(EVIDENCE_DIR, exist_ok=True)
        with open(os.path.join(EVIDENCE_DIR, self.pid + ".json"), "w") as f:
            json.dump(ev, f, indent=1, sort_keys=True)
        for kid, v in sorted(self.known_hits.items()):
            print("KNOWN-FINDING: property=%s %s [%s, %d cases]" % (
                self.pid, v[1].get("what"), kid, v[0]))
        rc = 0
        if self.violations:
            os.makedirs(REPLAY_DIR, exist_ok=True)
            with open(os.path.join(REPLAY_DIR, self.pid + "-all.json"),
                      "w") as f:
                json.dump([[k, d] for k, d, _ in self.violations[:5000]], f,
                          indent=0, sort_keys=True)
            seen = set()
            keys_seen = set()
            for key, detail, replay in self.violations:
                kblob = json.dumps(key, sort_keys=True)
                if kblob in keys_seen or len(keys_seen) >= 25:
                    continue
                keys_seen.add(kblob)
                blob = json.dumps([key, replay], sort_keys=True)
                h = hashlib.sha256(blob.encode()).hexdigest()[:12]
                if h in seen:
                    continue
                seen.add(h)
                path = os.path.join(REPLAY_DIR, "%s-%s.json" % (self.pid, h))
                with open(path, "w") as f:
                    json.dump({"property": self.pid, "seed": self.seed,
                               "key": key, "detail": detail,
                               "case": replay}, f, indent=1, sort_keys=True)
                print("VIOLATION property=%s replay=%s" % (self.pid, path))
                print("  key=%s" % json.dumps(key, sort_keys=True))
                print("  detail=%s" % json.dumps(detail, sort_keys=True)[:1500])
            rc = 1
        elif len(self._outcomes) < 2 and cov["evaluations"] > 0 and \
                not cov.get("allow_single_outcome"):
            print("CHECK-VACUOUS property=%s: one distinct outcome from %d "
                  "evaluations" % (self.pid, cov["evaluations"]))
            rc = 2
        print("%s %s tier=%s seed=%d evaluations=%d distinct_outcomes=%d "
              "violations=%d known=%d wall=%.1fs exhaustive=%s" % (
                  "FAIL" if rc == 1 else "OK", self.pid, self.tier, self.seed,
                  cov["evaluations"], len(self._outcomes),
                  len(self.violations),
                  sum(v[0] for v in self.known_hits.values()), wall,
                  cov["exhaustive"]))
        return rc


# ---------------------------------------------------------------- parallel
_POOL = None


def workers():
    try:
        return int(os.environ.get("VERIF_WORKERS", "0")) or \
            min(16, multiprocessing.cpu_count())
    except Exception:
        return 4


def room(counter, cls, per_class=8):
    """Per-class cap for recorded failures: True while fewer than per_class
    failures of class `cls` were recorded in `counter` (a dict).  A single
    global cap lets frequent known-finding cases crowd out a new failure."""
    k = repr(cls)
    counter[k] = counter.get(k, 0) + 1
    return counter[k] <= per_class


class Hang(BaseException):
    """Raised inside a work item by the per-item watchdog timer."""


class Hung(object):
    """Marker result of a work item that had to be interrupted."""

    def __init__(self, fn, item, seconds, where):
        self.fn, self.item, self.seconds, self.where = fn, item, seconds, \
            where


HANGS = []          # Hung markers collected by pmap in the parent process


def item_timeout():
    return float(os.environ.get("VERIF_ITEM_TIMEOUT", "900"))


def _call(args):
    """Run one work item under a watchdog: library code that loops without
    ever yielding to the harness cannot be caught by a step budget, so a real
    timer interrupts it and the item is reported as hung."""
    import signal
    import traceback
    fn, item, limit = args
    state = {"fired": None}

    def on_alarm(sig, frame):
        if state["fired"] is None:
            state["fired"] = ["%s:%d %s" % (os.path.basename(f.filename),
                                            f.lineno, f.name)
                              for f in traceback.extract_stack(frame)[-6:]]
        # the harness may turn the exception into an outcome and go on; the
        # timer keeps firing until the item returns
        raise Hang()
    try:
        old = signal.signal(signal.SIGALRM, on_alarm)
    except ValueError:          # not the main thread
        return fn(item)
    signal.setitimer(signal.ITIMER_REAL, limit, 5.0)
    try:
        r = fn(item)
    except Hang:
        r = None
    finally:
        signal.setitimer(signal.ITIMER_REAL, 0)
        signal.signal(signal.SIGALRM, old)
    if state["fired"] is not None:
        return Hung(getattr(fn, "__name__", repr(fn)), repr(item)[:300],
                    limit, state["fired"])
    return r


def pmap(fn, items, chunksize=None, timeout=None):
    """Ordered parallel map over a fork pool (results in input order, so
    output never depends on timing).  Items interrupted by the watchdog are
    left out of the result and recorded in HANGS; Result.finish() turns each
    into a violation."""
    items = list(items)
    n = workers()
    limit = timeout or item_timeout()
    if n <= 1 or len(items) <= 1:
        raw = [_call((fn, i, limit)) for i in items]
    else:
        ctx = multiprocessing.get_context("fork")
        if chunksize is None:
            chunksize = max(1, len(items) // (n * 8))
        with ctx.Pool(n) as pool:
            raw = pool.map(_call, [(fn, i, limit) for i in items], chunksize)
    out = []
    for r in raw:
        if isinstance(r, Hung):
            HANGS.append(r)
        else:
            out.append(r)
    return out
