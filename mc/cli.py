"""check <ID> [--tier quick|thorough] [--replay <path>]"""
import os
import sys
import json
import argparse
import importlib


def main(argv=None):
    ap = argparse.ArgumentParser()
    ap.add_argument("pid")
    ap.add_argument("--tier", default=os.environ.get("VERIF_TIER") or "quick",
                    choices=["quick", "thorough"])
    ap.add_argument("--replay", default=None)
    ap.add_argument("--seed", type=int,
                    default=int(os.environ.get("VERIF_SEED") or 0))
    a = ap.parse_args(argv)
    os.environ.setdefault("PYTHONHASHSEED", "0")
    mod = importlib.import_module("mc.props." + a.pid.lower())
    if a.replay:
        with open(a.replay) as f:
            rep = json.load(f)
        obs = mod.replay(rep["case"], rep.get("seed", a.seed))
        print(json.dumps(obs, indent=1, sort_keys=True, default=repr))
        return 0
    from mc.core import Result
    res = Result(a.pid.upper(), mod.LEVEL, a.tier, a.seed)
    mod.run(res, a.tier, a.seed)
    return res.finish()


if __name__ == "__main__":
    sys.exit(main())
