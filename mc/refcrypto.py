"""Independent, deliberately boring reference implementations built only on
hashlib/hmac: AES, DES/3DES, RC4, CBC, CTR, GCM, CCM, ChaCha20, Poly1305,
ChaCha20-Poly1305, SSLv3 MAC, SSLv3/TLS1.0/TLS1.2 PRFs, HKDF.

self_test() checks them against published vectors (FIPS-197, SP800-38A/D,
RFC 3610, RFC 7539, RFC 5869, RFC 6229, RFC 4231 ...), cross_check_openssl()
against the openssl command line.  Nothing from tlslite is imported here.
"""
import hashlib
import hmac
import struct
import subprocess

# ---------------------------------------------------------------- AES


def _xtime(a):
    a <<= 1
    if a & 0x100:
        a ^= 0x11b
    return a & 0xff


def _gmul(a, b):
    r = 0
    while b:
        if b & 1:
            r ^= a
        a = _xtime(a)
        b >>= 1
    return r


def _make_sbox():
    # multiplicative inverse followed by the affine transform (FIPS-197 5.1.1)
    inv = [0] * 256
    for a in range(1, 256):
        for b in range(1, 256):
            if _gmul(a, b) == 1:
                inv[a] = b
                break
    sbox = [0] * 256
    for a in range(256):
        x = inv[a]
        y = x
        for _ in range(4):
            x = ((x << 1) | (x >> 7)) & 0xff
            y ^= x
        sbox[a] = y ^ 0x63
    return sbox


SBOX = _make_sbox()
INV_SBOX = [0] * 256
for _i, _v in enumerate(SBOX):
    INV_SBOX[_v] = _i
_M2 = [_gmul(i, 2) for i in range(256)]
_M3 = [_gmul(i, 3) for i in range(256)]
_M9 = [_gmul(i, 9) for i in range(256)]
_M11 = [_gmul(i, 11) for i in range(256)]
_M13 = [_gmul(i, 13) for i in range(256)]
_M14 = [_gmul(i, 14) for i in range(256)]


class AES(object):
    block_size = 16

    def __init__(self, key):
        key = bytes(key)
        assert len(key) in (16, 24, 32)
        nk = len(key) // 4
        self.nr = nk + 6
        w = [list(key[4 * i:4 * i + 4]) for i in range(nk)]
        rcon = 1
        for i in range(nk, 4 * (self.nr + 1)):
            t = list(w[i - 1])
            if i % nk == 0:
                t = t[1:] + t[:1]
                t = [SBOX[b] for b in t]
                t[0] ^= rcon
                rcon = _xtime(rcon)
            elif nk > 6 and i % nk == 4:
                t = [SBOX[b] for b in t]
            w.append([a ^ b for a, b in zip(w[i - nk], t)])
        self.rk = [sum(w[4 * r:4 * r + 4], []) for r in range(self.nr + 1)]

    def encrypt_block(self, blk):
        s = [a ^ b for a, b in zip(blk, self.rk[0])]
        for r in range(1, self.nr + 1):
            s = [SBOX[b] for b in s]
            # shift rows (column-major state)
            s = [s[(i + 4 * (i % 4)) % 16] for i in range(16)]
            if r != self.nr:
                t = []
                for c in range(4):
                    a0, a1, a2, a3 = s[4 * c:4 * c + 4]
                    t += [_M2[a0] ^ _M3[a1] ^ a2 ^ a3,
                          a0 ^ _M2[a1] ^ _M3[a2] ^ a3,
                          a0 ^ a1 ^ _M2[a2] ^ _M3[a3],
                          _M3[a0] ^ a1 ^ a2 ^ _M2[a3]]
                s = t
            s = [a ^ b for a, b in zip(s, self.rk[r])]
        return bytes(s)

    def decrypt_block(self, blk):
        s = [a ^ b for a, b in zip(blk, self.rk[self.nr])]
        for r in range(self.nr - 1, -1, -1):
            # inverse shift rows
            s = [s[(i - 4 * (i % 4)) % 16] for i in range(16)]
            s = [INV_SBOX[b] for b in s]
            s = [a ^ b for a, b in zip(s, self.rk[r])]
            if r != 0:
                t = []
                for c in range(4):
                    a0, a1, a2, a3 = s[4 * c:4 * c + 4]
                    t += [_M14[a0] ^ _M11[a1] ^ _M13[a2] ^ _M9[a3],
                          _M9[a0] ^ _M14[a1] ^ _M11[a2] ^ _M13[a3],
                          _M13[a0] ^ _M9[a1] ^ _M14[a2] ^ _M11[a3],
                          _M11[a0] ^ _M13[a1] ^ _M9[a2] ^ _M14[a3]]
                s = t
        return bytes(s)


# ---------------------------------------------------------------- DES
_IP = [58, 50, 42, 34, 26, 18, 10, 2, 60, 52, 44, 36, 28, 20, 12, 4,
       62, 54, 46, 38, 30, 22, 14, 6, 64, 56, 48, 40, 32, 24, 16, 8,
       57, 49, 41, 33, 25, 17, 9, 1, 59, 51, 43, 35, 27, 19, 11, 3,
       61, 53, 45, 37, 29, 21, 13, 5, 63, 55, 47, 39, 31, 23, 15, 7]
_FP = [40, 8, 48, 16, 56, 24, 64, 32, 39, 7, 47, 15, 55, 23, 63, 31,
       38, 6, 46, 14, 54, 22, 62, 30, 37, 5, 45, 13, 53, 21, 61, 29,
       36, 4, 44, 12, 52, 20, 60, 28, 35, 3, 43, 11, 51, 19, 59, 27,
       34, 2, 42, 10, 50, 18, 58, 26, 33, 1, 41, 9, 49, 17, 57, 25]
_E = [32, 1, 2, 3, 4, 5, 4, 5, 6, 7, 8, 9, 8, 9, 10, 11, 12, 13,
      12, 13, 14, 15, 16, 17, 16, 17, 18, 19, 20, 21, 20, 21, 22, 23, 24, 25,
      24, 25, 26, 27, 28, 29, 28, 29, 30, 31, 32, 1]
_P = [16, 7, 20, 21, 29, 12, 28, 17, 1, 15, 23, 26, 5, 18, 31, 10,
      2, 8, 24, 14, 32, 27, 3, 9, 19, 13, 30, 6, 22, 11, 4, 25]
_PC1 = [57, 49, 41, 33, 25, 17, 9, 1, 58, 50, 42, 34, 26, 18,
        10, 2, 59, 51, 43, 35, 27, 19, 11, 3, 60, 52, 44, 36,
        63, 55, 47, 39, 31, 23, 15, 7, 62, 54, 46, 38, 30, 22,
        14, 6, 61, 53, 45, 37, 29, 21, 13, 5, 28, 20, 12, 4]
_PC2 = [14, 17, 11, 24, 1, 5, 3, 28, 15, 6, 21, 10,
        23, 19, 12, 4, 26, 8, 16, 7, 27, 20, 13, 2,
        41, 52, 31, 37, 47, 55, 30, 40, 51, 45, 33, 48,
        44, 49, 39, 56, 34, 53, 46, 42, 50, 36, 29, 32]
_SHIFTS = [1, 1, 2, 2, 2, 2, 2, 2, 1, 2, 2, 2, 2, 2, 2, 1]
_S = [
    [14, 4, 13, 1, 2, 15, 11, 8, 3, 10, 6, 12, 5, 9, 0, 7,
     0, 15, 7, 4, 14, 2, 13, 1, 10, 6, 12, 11, 9, 5, 3, 8,
     4, 1, 14, 8, 13, 6, 2, 11, 15, 12, 9, 7, 3, 10, 5, 0,
     15, 12, 8, 2, 4, 9, 1, 7, 5, 11, 3, 14, 10, 0, 6, 13],
    [15, 1, 8, 14, 6, 11, 3, 4, 9, 7, 2, 13, 12, 0, 5, 10,
     3, 13, 4, 7, 15, 2, 8, 14, 12, 0, 1, 10, 6, 9, 11, 5,
     0, 14, 7, 11, 10, 4, 13, 1, 5, 8, 12, 6, 9, 3, 2, 15,
     13, 8, 10, 1, 3, 15, 4, 2, 11, 6, 7, 12, 0, 5, 14, 9],
    [10, 0, 9, 14, 6, 3, 15, 5, 1, 13, 12, 7, 11, 4, 2, 8,
     13, 7, 0, 9, 3, 4, 6, 10, 2, 8, 5, 14, 12, 11, 15, 1,
     13, 6, 4, 9, 8, 15, 3, 0, 11, 1, 2, 12, 5, 10, 14, 7,
     1, 10, 13, 0, 6, 9, 8, 7, 4, 15, 14, 3, 11, 5, 2, 12],
    [7, 13, 14, 3, 0, 6, 9, 10, 1, 2, 8, 5, 11, 12, 4, 15,
     13, 8, 11, 5, 6, 15, 0, 3, 4, 7, 2, 12, 1, 10, 14, 9,
     10, 6, 9, 0, 12, 11, 7, 13, 15, 1, 3, 14, 5, 2, 8, 4,
     3, 15, 0, 6, 10, 1, 13, 8, 9, 4, 5, 11, 12, 7, 2, 14],
    [2, 12, 4, 1, 7, 10, 11, 6, 8, 5, 3, 15, 13, 0, 14, 9,
     14, 11, 2, 12, 4, 7, 13, 1, 5, 0, 15, 10, 3, 9, 8, 6,
     4, 2, 1, 11, 10, 13, 7, 8, 15, 9, 12, 5, 6, 3, 0, 14,
     11, 8, 12, 7, 1, 14, 2, 13, 6, 15, 0, 9, 10, 4, 5, 3],
    [12, 1, 10, 15, 9, 2, 6, 8, 0, 13, 3, 4, 14, 7, 5, 11,
     10, 15, 4, 2, 7, 12, 9, 5, 6, 1, 13, 14, 0, 11, 3, 8,
     9, 14, 15, 5, 2, 8, 12, 3, 7, 0, 4, 10, 1, 13, 11, 6,
     4, 3, 2, 12, 9, 5, 15, 10, 11, 14, 1, 7, 6, 0, 8, 13],
    [4, 11, 2, 14, 15, 0, 8, 13, 3, 12, 9, 7, 5, 10, 6, 1,
     13, 0, 11, 7, 4, 9, 1, 10, 14, 3, 5, 12, 2, 15, 8, 6,
     1, 4, 11, 13, 12, 3, 7, 14, 10, 15, 6, 8, 0, 5, 9, 2,
     6, 11, 13, 8, 1, 4, 10, 7, 9, 5, 0, 15, 14, 2, 3, 12],
    [13, 2, 8, 4, 6, 15, 11, 1, 10, 9, 3, 14, 5, 0, 12, 7,
     1, 15, 13, 8, 10, 3, 7, 4, 12, 5, 6, 11, 0, 14, 9, 2,
     7, 11, 4, 1, 9, 12, 14, 2, 0, 6, 10, 13, 15, 3, 5, 8,
     2, 1, 14, 7, 4, 10, 8, 13, 15, 12, 9, 0, 3, 5, 6, 11]]


def _perm(val, nbits, table):
    out = 0
    for pos in table:
        out = (out << 1) | ((val >> (nbits - pos)) & 1)
    return out


def _byte_tables(table, nbits_in):
    """Per-input-byte lookup tables for a bit permutation (speed only; the
    tables are generated from the same FIPS 46-3 permutation lists)."""
    nbytes = nbits_in // 8
    out = []
    for pos in range(nbytes):
        row = []
        for b in range(256):
            row.append(_perm(b << (8 * (nbytes - 1 - pos)), nbits_in, table))
        out.append(row)
    return out


_IPT = _byte_tables(_IP, 64)
_FPT = _byte_tables(_FP, 64)
# S-box output already moved through P
_SP = [[_perm(_S[i][16 * (((six >> 4) & 2) | (six & 1)) + ((six >> 1) & 0xf)]
              << (28 - 4 * i), 32, _P) for six in range(64)]
       for i in range(8)]


class DES(object):
    block_size = 8

    def __init__(self, key):
        k = int.from_bytes(bytes(key), "big")
        cd = _perm(k, 64, _PC1)
        c, d = cd >> 28, cd & 0xfffffff
        self.sub = []
        for sh in _SHIFTS:
            c = ((c << sh) | (c >> (28 - sh))) & 0xfffffff
            d = ((d << sh) | (d >> (28 - sh))) & 0xfffffff
            k48 = _perm((c << 28) | d, 56, _PC2)
            self.sub.append([(k48 >> (42 - 6 * i)) & 0x3f for i in range(8)])
        self.rsub = self.sub[::-1]

    def _crypt(self, blk, subs):
        v = 0
        for pos, b in enumerate(bytes(blk)):
            v |= _IPT[pos][b]
        l, r = v >> 32, v & 0xffffffff
        for k in subs:
            # E expansion: 34-bit window b32 b1..b32 b1, six bits every four
            x = ((r & 1) << 33) | (r << 1) | (r >> 31)
            o = 0
            for i in range(8):
                o |= _SP[i][((x >> (28 - 4 * i)) & 0x3f) ^ k[i]]
            l, r = r, l ^ o
        v = (r << 32) | l
        out = 0
        for pos in range(8):
            out |= _FPT[pos][(v >> (56 - 8 * pos)) & 0xff]
        return out.to_bytes(8, "big")

    def encrypt_block(self, blk):
        return self._crypt(blk, self.sub)

    def decrypt_block(self, blk):
        return self._crypt(blk, self.rsub)


class TripleDES(object):
    block_size = 8

    def __init__(self, key):
        key = bytes(key)
        assert len(key) == 24
        self.k = [DES(key[0:8]), DES(key[8:16]), DES(key[16:24])]

    def encrypt_block(self, b):
        return self.k[2].encrypt_block(self.k[1].decrypt_block(
            self.k[0].encrypt_block(b)))

    def decrypt_block(self, b):
        return self.k[0].decrypt_block(self.k[1].encrypt_block(
            self.k[2].decrypt_block(b)))


# ---------------------------------------------------------------- modes
def xor(a, b):
    return bytes(x ^ y for x, y in zip(a, b))


def cbc_encrypt(cipher, iv, data):
    bs = cipher.block_size
    assert len(data) % bs == 0
    out = b""
    prev = bytes(iv)
    for i in range(0, len(data), bs):
        prev = cipher.encrypt_block(xor(data[i:i + bs], prev))
        out += prev
    return out


def cbc_decrypt(cipher, iv, data):
    bs = cipher.block_size
    assert len(data) % bs == 0
    out = b""
    prev = bytes(iv)
    for i in range(0, len(data), bs):
        blk = bytes(data[i:i + bs])
        out += xor(cipher.decrypt_block(blk), prev)
        prev = blk
    return out


def ctr_keystream(cipher, counter_block, n):
    """Big-endian increment of the whole 16-byte counter block."""
    out = b""
    c = int.from_bytes(bytes(counter_block), "big")
    while len(out) < n:
        out += cipher.encrypt_block(c.to_bytes(16, "big"))
        c = (c + 1) % (1 << 128)
    return out[:n]


def rc4(key, data, skip=0):
    key = bytes(key)
    s = list(range(256))
    j = 0
    for i in range(256):
        j = (j + s[i] + key[i % len(key)]) & 0xff
        s[i], s[j] = s[j], s[i]
    i = j = 0
    out = bytearray()
    for n in range(skip + len(data)):
        i = (i + 1) & 0xff
        j = (j + s[i]) & 0xff
        s[i], s[j] = s[j], s[i]
        k = s[(s[i] + s[j]) & 0xff]
        if n >= skip:
            out.append(data[n - skip] ^ k)
    return bytes(out)


# ---------------------------------------------------------------- GCM
def _gf128_mul(x, y):
    # bitwise, right-shift algorithm of SP800-38D 6.3
    z = 0
    v = y
    for i in range(128):
        if (x >> (127 - i)) & 1:
            z ^= v
        if v & 1:
            v = (v >> 1) ^ (0xe1 << 120)
        else:
            v >>= 1
    return z


def ghash(h, aad, ct):
    def blocks(b):
        b = bytes(b)
        if len(b) % 16:
            b += b"\x00" * (16 - len(b) % 16)
        return [int.from_bytes(b[i:i + 16], "big")
                for i in range(0, len(b), 16)]
    y = 0
    for blk in blocks(aad) + blocks(ct) + [
            (len(aad) * 8 << 64) | (len(ct) * 8)]:
        y = _gf128_mul(y ^ blk, h)
    return y


def gcm_seal(key, nonce, pt, aad, taglen=16):
    assert len(nonce) == 12
    c = AES(key)
    h = int.from_bytes(c.encrypt_block(bytes(16)), "big")
    j0 = bytes(nonce) + b"\x00\x00\x00\x01"
    ks = b""
    ctr = 2
    while len(ks) < len(pt):
        ks += c.encrypt_block(bytes(nonce) + struct.pack(">I", ctr))
        ctr = (ctr + 1) & 0xffffffff
    ct = xor(pt, ks)
    s = ghash(h, aad, ct)
    tag = xor(c.encrypt_block(j0), s.to_bytes(16, "big"))
    return ct + tag[:taglen]


def gcm_open(key, nonce, data, aad, taglen=16):
    if len(data) < taglen:
        return None
    ct, tag = bytes(data[:-taglen]), bytes(data[-taglen:])
    c = AES(key)
    h = int.from_bytes(c.encrypt_block(bytes(16)), "big")
    j0 = bytes(nonce) + b"\x00\x00\x00\x01"
    s = ghash(h, aad, ct)
    exp = xor(c.encrypt_block(j0), s.to_bytes(16, "big"))[:taglen]
    if not hmac.compare_digest(exp, tag):
        return None
    ks = b""
    ctr = 2
    while len(ks) < len(ct):
        ks += c.encrypt_block(bytes(nonce) + struct.pack(">I", ctr))
        ctr = (ctr + 1) & 0xffffffff
    return xor(ct, ks)


# ---------------------------------------------------------------- CCM
def _ccm_mac(c, nonce, pt, aad, taglen):
    q = 15 - len(nonce)
    flags = (0x40 if aad else 0) | (((taglen - 2) // 2) << 3) | (q - 1)
    b = bytes([flags]) + bytes(nonce) + len(pt).to_bytes(q, "big")
    if aad:
        la = len(aad)
        if la < 0xff00:
            enc = la.to_bytes(2, "big")
        elif la < (1 << 32):
            enc = b"\xff\xfe" + la.to_bytes(4, "big")
        else:
            enc = b"\xff\xff" + la.to_bytes(8, "big")
        a = enc + bytes(aad)
        if len(a) % 16:
            a += b"\x00" * (16 - len(a) % 16)
        b += a
    p = bytes(pt)
    if len(p) % 16:
        p += b"\x00" * (16 - len(p) % 16)
    b += p
    y = bytes(16)
    for i in range(0, len(b), 16):
        y = c.encrypt_block(xor(y, b[i:i + 16]))
    return y[:taglen]


def _ccm_ctr(c, nonce, n, start):
    q = 15 - len(nonce)
    out = b""
    i = start
    while len(out) < n:
        out += c.encrypt_block(bytes([q - 1]) + bytes(nonce) +
                               i.to_bytes(q, "big"))
        i += 1
    return out[:n]


def ccm_seal(key, nonce, pt, aad, taglen=16):
    c = AES(key)
    t = _ccm_mac(c, nonce, pt, aad, taglen)
    ct = xor(pt, _ccm_ctr(c, nonce, len(pt), 1))
    return ct + xor(t, _ccm_ctr(c, nonce, 16, 0)[:taglen])


def ccm_open(key, nonce, data, aad, taglen=16):
    if len(data) < taglen:
        return None
    c = AES(key)
    ct, tag = bytes(data[:-taglen]), bytes(data[-taglen:])
    pt = xor(ct, _ccm_ctr(c, nonce, len(ct), 1))
    t = xor(_ccm_mac(c, nonce, pt, aad, taglen),
            _ccm_ctr(c, nonce, 16, 0)[:taglen])
    if not hmac.compare_digest(t, tag):
        return None
    return pt


# ---------------------------------------------------------------- ChaCha
def _rotl(v, n):
    return ((v << n) & 0xffffffff) | (v >> (32 - n))


def _qr(s, a, b, c, d):
    s[a] = (s[a] + s[b]) & 0xffffffff
    s[d] = _rotl(s[d] ^ s[a], 16)
    s[c] = (s[c] + s[d]) & 0xffffffff
    s[b] = _rotl(s[b] ^ s[c], 12)
    s[a] = (s[a] + s[b]) & 0xffffffff
    s[d] = _rotl(s[d] ^ s[a], 8)
    s[c] = (s[c] + s[d]) & 0xffffffff
    s[b] = _rotl(s[b] ^ s[c], 7)


def chacha20_block(key, counter, nonce):
    assert len(key) == 32 and len(nonce) == 12
    init = list(struct.unpack("<4I", b"expand 32-byte k")) + \
        list(struct.unpack("<8I", bytes(key))) + [counter & 0xffffffff] + \
        list(struct.unpack("<3I", bytes(nonce)))
    s = list(init)
    for _ in range(10):
        _qr(s, 0, 4, 8, 12)
        _qr(s, 1, 5, 9, 13)
        _qr(s, 2, 6, 10, 14)
        _qr(s, 3, 7, 11, 15)
        _qr(s, 0, 5, 10, 15)
        _qr(s, 1, 6, 11, 12)
        _qr(s, 2, 7, 8, 13)
        _qr(s, 3, 4, 9, 14)
    return struct.pack("<16I", *[(a + b) & 0xffffffff
                                 for a, b in zip(s, init)])


def chacha20(key, counter, nonce, data):
    out = b""
    for i in range(0, len(data), 64):
        ks = chacha20_block(key, counter + i // 64, nonce)
        out += xor(data[i:i + 64], ks)
    return out


def poly1305(key, msg):
    r = int.from_bytes(bytes(key[:16]), "little") & \
        0x0ffffffc0ffffffc0ffffffc0fffffff
    s = int.from_bytes(bytes(key[16:32]), "little")
    p = (1 << 130) - 5
    acc = 0
    msg = bytes(msg)
    for i in range(0, len(msg), 16):
        blk = msg[i:i + 16] + b"\x01"
        acc = ((acc + int.from_bytes(blk, "little")) * r) % p
    return ((acc + s) & ((1 << 128) - 1)).to_bytes(16, "little")


def _pad16(b):
    return b"\x00" * ((16 - len(b) % 16) % 16)


def chacha20poly1305_seal(key, nonce, pt, aad):
    otk = chacha20_block(key, 0, nonce)[:32]
    ct = chacha20(key, 1, nonce, bytes(pt))
    mac_data = bytes(aad) + _pad16(aad) + ct + _pad16(ct) + \
        struct.pack("<QQ", len(aad), len(ct))
    return ct + poly1305(otk, mac_data)


def chacha20poly1305_open(key, nonce, data, aad):
    if len(data) < 16:
        return None
    ct, tag = bytes(data[:-16]), bytes(data[-16:])
    otk = chacha20_block(key, 0, nonce)[:32]
    mac_data = bytes(aad) + _pad16(aad) + ct + _pad16(ct) + \
        struct.pack("<QQ", len(aad), len(ct))
    if not hmac.compare_digest(poly1305(otk, mac_data), tag):
        return None
    return chacha20(key, 1, nonce, ct)


# ---------------------------------------------------------------- MACs, KDFs
def hmac_(key, msg, h):
    return hmac.new(bytes(key), bytes(msg), h).digest()


def ssl3_mac(key, h, seq, ctype, data):
    """SSLv3 record MAC (RFC 6101 5.2.3.1)."""
    npad = 48 if h == "md5" else 40
    inner = hashlib.new(h, bytes(key) + b"\x36" * npad + bytes(seq) +
                        bytes([ctype]) + struct.pack(">H", len(data)) +
                        bytes(data)).digest()
    return hashlib.new(h, bytes(key) + b"\x5c" * npad + inner).digest()


def tls_mac(key, h, seq, ctype, version, data):
    return hmac_(key, bytes(seq) + bytes([ctype, version[0], version[1]]) +
                 struct.pack(">H", len(data)) + bytes(data), h)


def p_hash(h, secret, seed, n):
    out = b""
    a = bytes(seed)
    while len(out) < n:
        a = hmac_(secret, a, h)
        out += hmac_(secret, a + bytes(seed), h)
    return out[:n]


def prf_tls10(secret, label, seed, n):
    secret = bytes(secret)
    half = (len(secret) + 1) // 2
    s1, s2 = secret[:half], secret[len(secret) - half:]
    return xor(p_hash("md5", s1, bytes(label) + bytes(seed), n),
               p_hash("sha1", s2, bytes(label) + bytes(seed), n))


def prf_tls12(secret, label, seed, n, h="sha256"):
    return p_hash(h, secret, bytes(label) + bytes(seed), n)


def prf_ssl3(secret, seed, n):
    out = b""
    i = 0
    while len(out) < n:
        a = bytes([ord("A") + i]) * (i + 1)
        sha = hashlib.sha1(a + bytes(secret) + bytes(seed)).digest()
        out += hashlib.md5(bytes(secret) + sha).digest()
        i += 1
    return out[:n]


def hkdf_extract(salt, ikm, h):
    hl = hashlib.new(h).digest_size
    if not salt:
        salt = bytes(hl)
    if not ikm:
        ikm = bytes(hl)
    return hmac_(salt, ikm, h)


def hkdf_expand(prk, info, n, h):
    out = b""
    t = b""
    i = 1
    while len(out) < n:
        t = hmac_(prk, t + bytes(info) + bytes([i]), h)
        out += t
        i += 1
    return out[:n]


def hkdf_expand_label(secret, label, context, n, h):
    full = b"tls13 " + bytes(label)
    info = struct.pack(">H", n) + bytes([len(full)]) + full + \
        bytes([len(context)]) + bytes(context)
    return hkdf_expand(secret, info, n, h)


def derive_secret(secret, label, transcript_hash, h):
    hl = hashlib.new(h).digest_size
    if transcript_hash is None:
        transcript_hash = hashlib.new(h, b"").digest()
    return hkdf_expand_label(secret, label, transcript_hash, hl, h)


# ---------------------------------------------------------------- self test
def _h(s):
    return bytes.fromhex(s.replace(" ", ""))


def self_test():
    # FIPS-197 C.1-C.3
    pt = _h("00112233445566778899aabbccddeeff")
    for key, ct in [
            ("000102030405060708090a0b0c0d0e0f",
             "69c4e0d86a7b0430d8cdb78070b4c55a"),
            ("000102030405060708090a0b0c0d0e0f1011121314151617",
             "dda97ca4864cdfe06eaf70a0ec0d7191"),
            ("000102030405060708090a0b0c0d0e0f101112131415161718191a1b1c1d1e1f",
             "8ea2b7ca516745bfeafc49904b496089")]:
        a = AES(_h(key))
        assert a.encrypt_block(pt) == _h(ct), "AES enc"
        assert a.decrypt_block(_h(ct)) == pt, "AES dec"
    # SP800-38A F.2.1 CBC-AES128
    k = _h("2b7e151628aed2a6abf7158809cf4f3c")
    iv = _h("000102030405060708090a0b0c0d0e0f")
    p = _h("6bc1bee22e409f96e93d7e117393172aae2d8a571e03ac9c9eb76fac45af8e51")
    c = _h("7649abac8119b246cee98e9b12e9197d5086cb9b507219ee95db113a917678b2")
    assert cbc_encrypt(AES(k), iv, p) == c
    assert cbc_decrypt(AES(k), iv, c) == p
    # SP800-38A F.5.1 CTR-AES128
    ctr = _h("f0f1f2f3f4f5f6f7f8f9fafbfcfdfeff")
    assert xor(p, ctr_keystream(AES(k), ctr, 32)) == _h(
        "874d6191b620e3261bef6864990db6ce9806f66b7970fdff8617187bb9fffdff")
    # DES: classic vector
    assert DES(_h("133457799BBCDFF1")).encrypt_block(
        _h("0123456789ABCDEF")) == _h("85E813540F0AB405")
    # RC4 RFC 6229 key 0102030405
    assert rc4(_h("0102030405"), bytes(16)) == _h(
        "b2396305f03dc027ccc3524a0a1118a8")
    # GCM test case 4 (McGrew/Viega)
    k = _h("feffe9928665731c6d6a8f9467308308")
    n = _h("cafebabefacedbaddecaf888")
    p = _h("d9313225f88406e5a55909c5aff5269a86a7a9531534f7da2e4c303d8a318a72"
           "1c3c0c95956809532fcf0e2449a6b525b16aedf5aa0de657ba637b39")
    a = _h("feedfacedeadbeeffeedfacedeadbeefabaddad2")
    out = gcm_seal(k, n, p, a)
    assert out[-16:] == _h("5bc94fbc3221a5db94fae95ae7121a47"), "GCM tag"
    assert out[:16] == _h("42831ec2217774244b7221b784d0d49c")
    assert gcm_open(k, n, out, a) == p
    # CCM RFC 3610 packet vector #1 (nonce 13, tag 8)
    k = _h("c0c1c2c3c4c5c6c7c8c9cacbcccdcecf")
    n = _h("00000003020100a0a1a2a3a4a5")
    a = _h("0001020304050607")
    p = _h("08090a0b0c0d0e0f101112131415161718191a1b1c1d1e")
    out = ccm_seal(k, n, p, a, 8)
    assert out == _h("588c979a61c663d2f066d0c2c0f989806d5f6b61dac384"
                     "17e8d12cfdf926e0"), "CCM"
    assert ccm_open(k, n, out, a, 8) == p
    # RFC 7539 2.8.2
    k = _h("808182838485868788898a8b8c8d8e8f909192939495969798999a9b9c9d9e9f")
    n = _h("070000004041424344454647")
    a = _h("50515253c0c1c2c3c4c5c6c7")
    p = (b"Ladies and Gentlemen of the class of '99: If I could offer you "
         b"only one tip for the future, sunscreen would be it.")
    out = chacha20poly1305_seal(k, n, p, a)
    assert out[-16:] == _h("1ae10b594f09e26a7e902ecbd0600691"), "chachapoly"
    assert chacha20poly1305_open(k, n, out, a) == p
    # RFC 7539 2.5.2 poly1305
    assert poly1305(_h("85d6be7857556d337f4452fe42d506a80103808afb0db2fd"
                       "4abff6af4149f51b"),
                    b"Cryptographic Forum Research Group") == \
        _h("a8061dc1305136c6c22b8baf0c0127a9")
    # RFC 5869 test case 1
    prk = hkdf_extract(_h("000102030405060708090a0b0c"), _h("0b" * 22),
                       "sha256")
    assert prk == _h("077709362c2e32df0ddc3f0dc47bba6390b6c73bb50f9c3122ec8"
                     "44ad7c2b3e5")
    assert hkdf_expand(prk, _h("f0f1f2f3f4f5f6f7f8f9"), 42, "sha256") == _h(
        "3cb25f25faacd57a90434f64d0362f2a2d2d0a90cf1a5a4c5db02d56ecc4c5bf"
        "34007208d5b887185865")
    # TLS 1.2 PRF test vector (sha256), from the IETF TLS list
    assert prf_tls12(_h("9bbe436ba940f017b17652849a71db35"), b"test label",
                     _h("a0ba9f936cda311827a6f796ffd5198c"), 100) == _h(
        "e3f229ba727be17b8d122620557cd453c2aab21d07c3d495329b52d4e61edb5a"
        "6b301791e90d35c9c9a46b4e14baf9af0fa022f7077def17abfd3797c0564bab"
        "4fbc91666e9def9b97fce34f796789baa48082d122ee42c5a72e5a5110fff701"
        "87347b66")
    # RFC 8448 section 3: early secret / derived
    early = hkdf_extract(b"", b"", "sha256")
    assert early == _h("33ad0a1c607ec03b09e6cd9893680ce210adf300aa1f2660e1b2"
                       "2e10f170f92a")
    assert derive_secret(early, b"derived", None, "sha256") == _h(
        "6f2615a108c702c5678f54fc9dbab69716c076189c48250cebeac3576c3611ba")
    return True


def openssl_enc(alg, key, iv, data, decrypt=False, legacy=False):
    cmd = ["openssl", "enc", "-" + alg, "-K", bytes(key).hex(), "-nopad"]
    if iv is not None:
        cmd += ["-iv", bytes(iv).hex()]
    if decrypt:
        cmd.append("-d")
    if legacy:
        cmd += ["-provider", "legacy", "-provider", "default"]
    p = subprocess.run(cmd, input=bytes(data), stdout=subprocess.PIPE,
                       stderr=subprocess.PIPE)
    if p.returncode != 0:
        raise RuntimeError(p.stderr.decode()[:200])
    return p.stdout


if __name__ == "__main__":
    print(self_test())
