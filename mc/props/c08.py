"""C08 - malformed peer input fails cleanly, promptly and within bounded
memory.

Deciding method: fault enumeration: every handshake message of every flight
of every handshake flavour, in both victim roles, is located structurally by
harness-side descriptors (mc.msgstruct) and subjected to a finite mutation
alphabet at every field (one mutation per execution), sent by a puppet peer
that keeps its own transcript consistent (so encrypted flights are covered
too); plus a hand-written list of parsable-but-unexpected values, record-level
malformations injected on the wire, and post-handshake messages.  Every
execution is run to completion under a step budget with Python call counting.
"""
import copy
import struct
import zlib

from .. import world as W
from .. import scen as S
from .. import msgstruct
from ..core import pmap, room
from ..puppet import Puppet, NotQueueable
from ..world import SEAMS, Pair, World, Meter
from tlslite import errors as E

LEVEL = "fault_enumeration"


def scenarios(tier):
    fl = S.flavours("quick" if tier == "quick" else "thorough")
    if tier == "quick":
        keep = ("SSLv3-RSA", "TLS1.0-DHE_RSA", "TLS1.0-SRP",
                "TLS1.1-ECDHE_RSA", "TLS1.2-RSA-clientauth",
                "TLS1.2-ECDHE_RSA-GCM", "TLS1.2-ECDHE_RSA-tickets",
                "TLS1.2-DH_anon", "TLS1.2-ECDHE_ECDSA-clientauth-ecdsa",
                "TLS1.3-RSA", "TLS1.3-RSA-clientauth", "TLS1.3-HRR",
                "TLS1.3-tickets", "TLS1.3-PSK", "TLS1.3-FFDHE",
                "TLS1.3-Ed25519-chacha")
        fl = [s for s in fl if s.name in keep]
    return fl


def kex_of(sc):
    from ..scen import ALL_INFOS
    info = ALL_INFOS.get(sc.suite)
    if info is None or info.tls13:
        return None
    return {"RSA": "rsa", "DHE": "dh", "DH": "dh", "ECDHE": "ecdh",
            "ECDH": "ecdh", "SRP": "srp"}[info.kex]


def mark_alerts(pair, victim):
    """Record how many bytes the victim had put on the wire when it decided
    to send a fatal alert: the alert must be on the wire (not in a write
    buffer) by the time the failing call returns."""
    ep = pair.ep(victim)
    pipe = pair.world.c2s if victim == "C" else pair.world.s2c
    marks = []
    orig = ep._sendError

    def _sendError(*a, **k):
        marks.append(len(pipe.log))
        return orig(*a, **k)
    ep._sendError = _sendError
    pair.alert_marks = (marks, pipe)


def run_one(sc, seed, victim, script, meter=False, memory=False,
            keep_socket=False):
    SEAMS.reset(seed, sc.name)
    w = World()
    pair = Pair(w)
    mark_alerts(pair, victim)
    if keep_socket:
        # the application keeps the socket after the TLS connection ends
        pair.ep(victim).closeSocket = False
    pup_conn = pair.s if victim == "C" else pair.c
    pup = Puppet(pup_conn, script)
    m = None
    if meter:
        m = Meter(victim, memory=memory)
        w.meter = m
    SEAMS.current = "C"
    cg = sc.client_gen(pair.c)
    SEAMS.current = "S"
    sg = sc.server_gen(pair.s, cache=W.SessionCache() if sc.cache else None)
    SEAMS.current = "main"
    try:
        out = pair.handshake(cg, sg, max_steps=60000)
    except NotQueueable:
        return None
    return pair, pup, out, m


def judge(pair, out, victim, m, base_calls, rx_bytes):
    """The C08 oracle for one execution; returns (sig, list of (key, text))
    """
    v = out[victim]
    ep = pair.ep(victim)
    fails = []
    sig = v.sig()[:3]
    if v.status == "budget":
        fails.append(({"kind": "spin"}, "victim exhausted the step budget"))
    elif v.status == "exc":
        e = v.exc
        site = W.raising_site(e)
        if isinstance(e, E.TLSLocalAlert):
            if e.level != 2:
                fails.append(({"kind": "non-fatal-local-alert"}, repr(e)))
            marks, pipe = getattr(pair, "alert_marks", ([], None))
            if marks and len(pipe.log) <= marks[0]:
                fails.append(({"kind": "alert-not-on-wire"},
                              "%r raised but nothing was written to the "
                              "socket after the decision to send it" % (e,)))
        elif isinstance(e, (E.TLSRemoteAlert, E.TLSAbruptCloseError,
                            OSError)):
            pass
        elif isinstance(e, E.BaseTLSException):
            fails.append(({"kind": "unalerted-tls-exception",
                           "exc": type(e).__name__,
                           "site": list(site) if site else None},
                          "%s raised by %s without sending an alert: %s" % (
                              type(e).__name__, site, str(e)[:80])))
        else:
            fails.append(({"kind": "foreign-exception",
                           "exc": type(e).__name__,
                           "site": list(site) if site else None},
                          "%s from %s: %s" % (type(e).__name__, site,
                                              str(e)[:80])))
        if not ep.closed:
            fails.append(({"kind": "not-closed"},
                          "connection not closed after %r" % (sig,)))
        if ep.session is not None and ep.session.resumable:
            fails.append(({"kind": "resumable-after-failure"},
                          "session resumable after %r" % (sig,)))
    if m is not None and base_calls:
        limit = 50 * base_calls + 2000 * max(rx_bytes, 1)
        if m.calls > limit:
            fails.append(({"kind": "work"}, "victim made %d calls (honest "
                          "%d, received %d bytes)" % (m.calls, base_calls,
                                                      rx_bytes)))
    return sig, fails


def case(item):
    """All structural mutations of all messages sent to one victim role in
    one scenario."""
    idx, tier, seed, victim = item
    sc = scenarios(tier)[idx]
    rec = {"scenario": sc.name, "victim": victim, "n": 0, "fails": [],
           "sigs": set(), "msgs": []}
    r = run_one(sc, seed, victim, {}, meter=True)
    pair, pup, out, m = r
    if out["C"].status != "ok" or out["S"].status != "ok":
        rec["fails"].append(({"kind": "honest-failed"}, repr(out), None))
        return rec
    base_calls = m.calls
    kex = kex_of(sc)
    # capture honest serialisations
    captured = {}

    def cap(i):
        def f(data):
            captured[i] = data
            return None
        return f
    honest = list(pup.honest)
    script = dict((i, ("mutate", cap(i))) for i, t in honest
                  if t not in ("CCS", "ALERT", "APP"))
    run_one(sc, seed, victim, script)
    version = sc.version
    for (i, tok) in honest:
        if i not in captured:
            continue
        data = captured[i]
        fields = msgstruct.describe(data, version, kex)
        rec["msgs"].append((tok, len(data), len(fields)))
        for (label, newb) in msgstruct.mutations(data, fields, tier):
            r = run_one(sc, seed, victim,
                        {i: ("replace", newb)}, meter=True)
            if r is None:
                continue
            pair2, pup2, out2, m2 = r
            rec["n"] += 1
            rx = len(pair2.world.s2c.log if victim == "C"
                     else pair2.world.c2s.log)
            sig, fails = judge(pair2, out2, victim, m2, base_calls, rx)
            rec["sigs"].add((tok, sig))
            for (k, text) in fails:
                if room(rec.setdefault("pc", {}), (tok, sorted(k.items())),
                        4):
                    k = dict(k)
                    k["msg"] = tok
                    rec["fails"].append((k, text, label))
        # consistent resizing rewrites of the hello messages (extension
        # dropped / emptied, lists shortened, selections substituted)
        if tok in ("CH", "SH", "HRR"):
            from .c04 import hello_rewrites
            for (label, newb) in hello_rewrites(data):
                r = run_one(sc, seed, victim, {i: ("replace", newb)},
                            meter=True)
                if r is None:
                    continue
                pair2, pup2, out2, m2 = r
                rec["n"] += 1
                rx = len(pair2.world.s2c.log if victim == "C"
                         else pair2.world.c2s.log)
                sig, fails = judge(pair2, out2, victim, m2, base_calls, rx)
                rec["sigs"].add((tok, "rewrite", sig))
                for (k, text) in fails:
                    if room(rec.setdefault("pc", {}),
                            (tok, sorted(k.items())), 4):
                        k = dict(k)
                        k["msg"] = tok
                        rec["fails"].append((k, text, "rewrite:" + label))
    rec["sigs"] = sorted(rec["sigs"], key=repr)
    rec.pop("pc", None)
    return rec


# ---------------------------------------------------------------- semantic
def keep_socket_case(item):
    """closeSocket=False (the application keeps the socket): every message
    to the victim replaced by an unknown handshake type / cut short; the
    alert must still reach the wire before the call returns."""
    idx, tier, seed, victim = item
    sc = scenarios(tier)[idx]
    rec = {"scenario": sc.name, "victim": victim, "n": 0, "fails": [],
           "sigs": set()}
    r = run_one(sc, seed, victim, {}, keep_socket=True)
    pair, pup, out, m = r
    if out["C"].status != "ok" or out["S"].status != "ok":
        rec["fails"].append(({"kind": "honest-failed", "keep_socket": True},
                             repr(out), None))
        return rec
    for (i, tok) in list(pup.honest):
        if tok in ("CCS", "ALERT", "APP"):
            continue
        for label, act in (("unknown-type", ("replace", _hs(99, b""))),
                           ("cut", ("mutate", lambda d: bytes(
                               d[:1] + (len(d) - 5).to_bytes(3, "big") +
                               d[4:-1]) if len(d) > 5 else None))):
            r = run_one(sc, seed, victim, {i: act}, keep_socket=True)
            if r is None:
                continue
            pair2, pup2, out2, m2 = r
            rec["n"] += 1
            sig, fails = judge(pair2, out2, victim, None, 0, 0)
            rec["sigs"].add((tok, label, sig))
            for (k, text) in fails:
                k = dict(k)
                k["msg"] = tok
                k["keep_socket"] = True
                rec["fails"].append((k, text, label))
    rec["sigs"] = sorted(rec["sigs"], key=repr)
    return rec


RESUMED_SCENS = ["TLS1.2-RSA", "TLS1.0-ECDHE_RSA", "TLS1.2-ECDHE_RSA-GCM",
                 "TLS1.2-RSA-clientauth", "SSLv3-RSA"]


def resumed_case(item):
    """Malformed input on a connection that *resumed* a cached session
    (server victim): besides the usual verdict, the cache must not hand the
    session out again."""
    sn, seed = item
    sc = [x for x in S.flavours("thorough") if x.name == sn][0]
    rec = {"scenario": sn, "n": 0, "fails": [], "sigs": set()}

    def attempt(script, junk_after=False):
        SEAMS.reset(seed, sn + "/first")
        cache = W.SessionCache()
        p0, o0 = S.connect(sc, seed=seed, cache=cache, reset=False)
        if o0["C"].status != "ok" or o0["S"].status != "ok":
            return None
        sess = p0.c.session
        sid = bytes(sess.sessionID)
        p0.close("C")
        p0.read("S", None, 1)
        p0.close("S")
        pair = Pair(World())
        mark_alerts(pair, "S")
        pup = Puppet(pair.c, script)
        SEAMS.current = "C"
        cg = sc.client_gen(pair.c, session=sess)
        SEAMS.current = "S"
        sg = sc.server_gen(pair.s, cache=cache)
        SEAMS.current = "main"
        try:
            out = pair.handshake(cg, sg, max_steps=60000)
        except NotQueueable:
            return None
        if junk_after and out["S"].status == "ok":
            pair.world.c2s.inject({
                True: b"\x17\x03\x03\x00\x20" + b"\xa5" * 32,
                "alert": b"\x15\x03\x03\x00\x20" + b"\x5a" * 32,
                "short": b"\x17\x03\x03\x00\x01\x00"}[junk_after])
            out = dict(out)
            out["S"] = pair.read("S", None, 1)
        return pair, pup, out, cache, sid
    r = attempt({})
    if r is None or r[2]["S"].status != "ok" or not r[0].s.resumed:
        rec["fails"].append(({"kind": "honest-failed", "resumed": True},
                             "honest resumption failed", "honest"))
        return rec
    honest = list(r[1].honest)
    todo = [("junk-record-after-handshake", {}, True),
            ("junk-alert-after-handshake", {}, "alert"),
            ("short-record-after-handshake", {}, "short")]
    for (i, tok) in honest:
        if tok in ("ALERT", "APP"):
            continue
        if tok == "CCS":
            todo.append(("skip-CCS", {i: ("skip",)}, False))
            continue
        todo.append(("unknown-type@%s" % tok, {i: ("replace", _hs(99, b""))},
                     False))
        if tok != "CH":
            todo.append(("cut@%s" % tok, {i: ("mutate", lambda d: bytes(
                d[:1] + (len(d) - 5).to_bytes(3, "big") + d[4:-1])
                if len(d) > 5 else None)}, False))
            todo.append(("flip-last@%s" % tok, {i: ("mutate", lambda d: bytes(
                d[:-1]) + bytes([d[-1] ^ 1]))}, False))
    for (label, script, junk) in todo:
        r = attempt(script, junk)
        if r is None:
            continue
        pair, pup, out, cache, sid = r
        rec["n"] += 1
        sig, fails = judge(pair, out, "S", None, 0, 0)
        rec["sigs"].add((label.split("@")[0], sig))
        if junk and out["S"].status == "exc":
            # (only once the resumed handshake has completed is the session
            # this connection's; a failed resumption *attempt* leaves the
            # cache alone, or anybody who saw a session ID could delete it)
            try:
                ent = cache[bytearray(sid)]
            except KeyError:
                ent = None
            if ent is not None and ent.resumable:
                fails.append(({"kind": "cache-entry-resumable-after-"
                               "failure"},
                              "the session cache still hands out the "
                              "session after %r on the resumed "
                              "connection" % (sig,)))
        for (k, text) in fails:
            k = dict(k)
            k["resumed"] = True
            rec["fails"].append((k, text, label))
    rec["sigs"] = sorted(rec["sigs"], key=repr)
    return rec


def dc_case(item):
    """Delegated-credential shapes (from C05) under the C08 oracle: every
    rejection is a fatal alert on the wire, the client closed, the session
    not resumable."""
    from . import c05
    r = c05.dc_run(item, prepare=lambda pair: mark_alerts(pair, "C"))
    if r is None:
        return None
    name, shape, accept, pair, out, chain = r
    sig, fails = judge(pair, out, "C", None, 0, 0)
    if accept and out["C"].status != "ok":
        fails.append(({"kind": "honest-failed"}, repr(out["C"].sig())))
    return name, shape, sig, fails


# ----------------------------------------------- signed key-exchange lies
# A mutation of ServerKeyExchange parameters on the wire breaks the
# signature, so the client stops at the signature check.  Here the *server*
# lies before signing (its create*() is patched), so the signature is good
# and the client reaches the code that uses the parameters.
SIGNED_ECDH = [("empty", b""), ("infinity", b"\x00"),
               ("short", b"\x04" + b"\x01" * 10),
               ("offcurve", b"\x04" + b"\x01" * 64),
               ("x-too-big", b"\x04" + b"\xff" * 64),
               ("compressed", b"\x02" + b"\x01" * 32),
               ("hybrid", b"\x06" + b"\x01" * 64),
               ("one-byte-04", b"\x04"), ("zeros-32", bytes(32)),
               ("long", b"\x04" + b"\x01" * 200)]
SIGNED_DH = [("Ys=0", lambda p, g, y: (p, g, 0)),
             ("Ys=1", lambda p, g, y: (p, g, 1)),
             ("Ys=p-1", lambda p, g, y: (p, g, p - 1)),
             ("Ys=p", lambda p, g, y: (p, g, p)),
             ("Ys=p+1", lambda p, g, y: (p, g, p + 1)),
             ("g=0", lambda p, g, y: (p, 0, y)),
             ("g=1", lambda p, g, y: (p, 1, y)),
             ("p=0", lambda p, g, y: (0, g, y)),
             ("p=1", lambda p, g, y: (1, g, y)),
             ("p=tiny", lambda p, g, y: (23, 5, 8)),
             ("p=even", lambda p, g, y: (p + 1, g, y))]
SIGNED_CURVE = [("unknown-curve", 3, 0xfefe), ("sect163k1", 3, 1),
                ("ffdhe-as-curve", 3, 256), ("another-curve", 3, None),
                ("x448", 3, 30)]
SIGNED_SCENS = ["TLS1.2-ECDHE_RSA", "TLS1.0-ECDHE_RSA", "TLS1.2-ECDHE_ECDSA",
                "TLS1.2-DHE_RSA", "TLS1.0-DHE_RSA", "TLS1.2-DHE_DSA",
                "SSLv3-DHE_RSA"]


def signed_ske_cases():
    out = []
    for sn in SIGNED_SCENS:
        if "ECDHE" in sn:
            for i in range(len(SIGNED_ECDH)):
                out.append((sn, "point", i))
            for i in range(len(SIGNED_CURVE)):
                out.append((sn, "curve", i))
        else:
            for i in range(len(SIGNED_DH)):
                out.append((sn, "dh", i))
    return out


def signed_ske_case(item):
    (sn, kind, i), seed = item
    from tlslite.messages import ServerKeyExchange as SKE
    sc = [x for x in S.flavours("thorough") if x.name == sn][0]
    o_ecdh, o_dh = SKE.createECDH, SKE.createDH
    if kind == "point":
        label, pt = SIGNED_ECDH[i]

        def ecdh(self, curve_type, named_curve=None, point=None):
            return o_ecdh(self, curve_type, named_curve, bytearray(pt))
        SKE.createECDH = ecdh
    elif kind == "curve":
        label, ct, cv = SIGNED_CURVE[i]

        def ecdh(self, curve_type, named_curve=None, point=None):
            other = cv
            if other is None:       # a supported curve, not the real one
                other = 23 if named_curve != 23 else 29
            return o_ecdh(self, ct, other, point)
        SKE.createECDH = ecdh
    else:
        label, fn = SIGNED_DH[i]

        def dh(self, dh_p, dh_g, dh_Ys):
            return o_dh(self, *fn(dh_p, dh_g, dh_Ys))
        SKE.createDH = dh
    name = "signed-ske/%s/%s-%s" % (sn, kind, label)
    try:
        r = run_one(sc, seed, "C", {})
    finally:
        SKE.createECDH, SKE.createDH = o_ecdh, o_dh
    pair, pup, out, m = r
    sig, fails = judge(pair, out, "C", None, 0, 0)
    if out["C"].status == "ok":
        fails.append(({"kind": "accepted-degenerate-params"},
                      "client completed the handshake with %s" % label))
    return name, kind + "-" + label, sig, fails


def _hs(t, body):
    return bytes([t]) + len(body).to_bytes(3, "big") + bytes(body)


_ODD_CERTS = {}


def odd_curve_cert(curve):
    """DER of a self-signed certificate with a key on `curve` (openssl CLI,
    once per process); None when openssl cannot make one."""
    if curve in _ODD_CERTS:
        return _ODD_CERTS[curve]
    import subprocess
    import tempfile
    import shutil
    d = tempfile.mkdtemp(prefix="c08-cert-")
    der = None
    try:
        r = subprocess.run(
            ["openssl", "req", "-x509", "-newkey", "ec", "-pkeyopt",
             "ec_paramgen_curve:" + curve, "-nodes", "-keyout", d + "/k.pem",
             "-out", d + "/c.der", "-outform", "DER", "-subj", "/CN=odd",
             "-days", "3650"], capture_output=True, timeout=60)
        if r.returncode == 0:
            with open(d + "/c.der", "rb") as f:
                der = f.read()
    except Exception:   # noqa
        der = None
    finally:
        shutil.rmtree(d, ignore_errors=True)
    _ODD_CERTS[curve] = der
    return der


def semantic_cases():
    """(name, scenario selector, victim, message token, mutate(bytes)->bytes)
    Built with the library's own message classes where that is the easiest
    way to re-serialise a valid-but-unexpected value."""
    from tlslite.messages import (ClientHello, ServerHello,
                                  ServerKeyExchange, Certificate)
    from tlslite.utils.codec import Parser
    from tlslite.constants import ExtensionType
    C = []

    def ske_dh(fn):
        def m(data):
            # p<2> g<2> Ys<2> rest
            b = data[4:]
            o = 0
            parts = []
            for _ in range(3):
                ln = int.from_bytes(b[o:o + 2], "big")
                parts.append(b[o + 2:o + 2 + ln])
                o += 2 + ln
            rest = b[o:]
            p, g, ys = fn(*[int.from_bytes(x, "big") for x in parts])

            def enc(x):
                bb = x.to_bytes(max(1, (x.bit_length() + 7) // 8), "big")
                return len(bb).to_bytes(2, "big") + bb
            return _hs(12, enc(p) + enc(g) + enc(ys) + rest)
        return m
    for nm, fn in (("Ys=0", lambda p, g, y: (p, g, 0)),
                   ("Ys=1", lambda p, g, y: (p, g, 1)),
                   ("Ys=p-1", lambda p, g, y: (p, g, p - 1)),
                   ("Ys=p", lambda p, g, y: (p, g, p)),
                   ("g=0", lambda p, g, y: (p, 0, y)),
                   ("g=1", lambda p, g, y: (p, 1, y)),
                   ("p=tiny", lambda p, g, y: (23, 5, 8)),
                   ("p=0", lambda p, g, y: (0, g, y)),
                   ("p=even", lambda p, g, y: (p + 1, g, y)),
                   # primes far beyond any key size policy: the work done
                   # with them must stay bounded
                   ("p=8200-bits", lambda p, g, y: ((1 << 8199) + 1, 2, 3)),
                   ("p=65535-bytes", lambda p, g, y: ((1 << 524279) + 1, 2,
                                                      3)),
                   ("p=65535-bytes-Ys-large",
                    lambda p, g, y: ((1 << 524279) + 1, 2,
                                     (1 << 524278) + 5))):
        C.append(("ske-dh-" + nm, "DH_anon", "C", "SKE", ske_dh(fn)))
        C.append(("ske-dhe-" + nm, "DHE_RSA", "C", "SKE", ske_dh(fn)))

    def cke_dh(val):
        def m(data):
            bb = val.to_bytes(max(1, (val.bit_length() + 7) // 8), "big") \
                if val >= 0 else b""
            return _hs(16, len(bb).to_bytes(2, "big") + bb)
        return m
    for nm, v in (("Yc=0", 0), ("Yc=1", 1), ("Yc=empty", -1),
                  ("Yc=huge", (1 << 4096) - 1)):
        C.append(("cke-dh-" + nm, "DHE_RSA", "S", "CKE", cke_dh(v)))
        C.append(("cke-dh-anon-" + nm, "DH_anon", "S", "CKE", cke_dh(v)))

    def ecdh_point(pt):
        def m(data):
            if data[0] == 16:
                return _hs(16, bytes([len(pt)]) + pt)
            b = data[4:]
            plen = b[3]
            rest = b[4 + plen:]
            return _hs(12, b[:3] + bytes([len(pt)]) + pt + rest)
        return m
    for nm, pt in (("empty", b""), ("infinity", b"\x00"),
                   ("short", b"\x04" + b"\x01" * 10),
                   ("offcurve", b"\x04" + b"\x01" * 64),
                   ("x-too-big", b"\x04" + b"\xff" * 64),
                   ("compressed", b"\x02" + b"\x01" * 32),
                   ("hybrid", b"\x06" + b"\x01" * 64),
                   ("x25519-zero", bytes(32)),
                   ("x25519-one", b"\x01" + bytes(31))):
        C.append(("ske-ecdh-point-" + nm, "ECDHE_RSA", "C", "SKE",
                  ecdh_point(pt)))
        C.append(("cke-ecdh-point-" + nm, "ECDHE_RSA", "S", "CKE",
                  ecdh_point(pt)))

    def ske_curve(ct, curve):
        def m(data):
            b = bytearray(data)
            b[4] = ct
            b[5:7] = curve.to_bytes(2, "big")
            return bytes(b)
        return m
    for nm, ct, cv in (("explicit-prime", 1, 23), ("explicit-char2", 2, 23),
                       ("unknown-curve", 3, 0xfefe), ("sect163k1", 3, 1),
                       ("ffdhe-as-curve", 3, 256), ("type0", 0, 23)):
        C.append(("ske-curve-" + nm, "ECDHE_RSA", "C", "SKE",
                  ske_curve(ct, cv)))

    # ---- hello extensions through the library's own classes
    def edit_hello(cls, fn):
        def m(data):
            msg = cls().parse(Parser(bytearray(data[1:])))
            r = fn(msg)
            if r is False:
                return None
            return bytes(msg.write())
        return m

    def ch_ext_raw(ext_type, body, where="append"):
        """Add/replace a raw extension in a ClientHello by bytes."""
        def m(data):
            d = bytes(data)
            o = 4 + 2 + 32
            o += 1 + d[o]
            o += 2 + int.from_bytes(d[o:o + 2], "big")
            o += 1 + d[o]
            if o >= len(d):
                exts = b""
                head = d[:o]
            else:
                head = d[:o]
                exts = d[o + 2:]
            # drop an existing extension of that type
            out = b""
            i = 0
            psk = b""
            while i + 4 <= len(exts):
                t = int.from_bytes(exts[i:i + 2], "big")
                ln = int.from_bytes(exts[i + 2:i + 4], "big")
                blob = exts[i:i + 4 + ln]
                if t == 41:
                    if ext_type != 41:
                        psk = blob
                elif t != ext_type:
                    out += blob
                i += 4 + ln
            new = struct.pack(">HH", ext_type, len(body)) + body
            out = out + new + psk
            msg = head[4:] + struct.pack(">H", len(out)) + out
            return _hs(1, msg)
        return m
    for nm, t, body in (
            ("rsl-0", 28, b"\x00\x00"), ("rsl-63", 28, b"\x00\x3f"),
            ("rsl-16386", 28, b"\x40\x02"), ("rsl-65535", 28, b"\xff\xff"),
            ("rsl-short", 28, b"\x40"), ("rsl-long", 28, b"\x40\x00\x00"),
            ("hb-mode0", 15, b"\x00"), ("hb-mode3", 15, b"\x03"),
            ("hb-empty", 15, b""),
            ("alpn-empty-name", 16, b"\x00\x01\x00"),
            ("alpn-empty-list", 16, b"\x00\x00"),
            ("alpn-bad-len", 16, b"\x00\x05\x02h2"),
            ("sni-two-names", 0, b"\x00\x0c\x00\x00\x03a.b\x00\x00\x03c.d"),
            ("sni-empty-name", 0, b"\x00\x03\x00\x00\x00"),
            ("sni-nonascii", 0, b"\x00\x06\x00\x00\x03\xff\xfe\xfd"),
            ("sni-unknown-type", 0, b"\x00\x06\x07\x00\x03a.b"),
            ("sni-empty", 0, b""),
            ("status-request-garbage", 5, b"\x01\xff\xff"),
            ("sigalgs-empty", 13, b"\x00\x00"),
            ("sigalgs-odd", 13, b"\x00\x03\x04\x01\x05"),
            ("sigalgs-unknown", 13, b"\x00\x02\xee\xee"),
            ("groups-empty", 10, b"\x00\x00"),
            ("groups-odd", 10, b"\x00\x03\x00\x17\x00"),
            ("groups-unknown", 10, b"\x00\x02\xfa\xfa"),
            ("ecpf-empty", 11, b"\x00"),
            ("ecpf-no-uncompressed", 11, b"\x01\x01"),
            ("versions-empty", 43, b"\x00"),
            ("versions-odd", 43, b"\x03\x03\x04\x03"),
            ("versions-unknown", 43, b"\x02\x7f\x1c"),
            ("versions-ssl2", 43, b"\x02\x00\x02"),
            ("keyshare-empty-list", 51, b"\x00\x00"),
            ("keyshare-unoffered-group", 51,
             b"\x00\x24\x00\x1e\x00\x20" + b"\x09" * 32),
            ("keyshare-x25519-short", 51,
             b"\x00\x0a\x00\x1d\x00\x06" + b"\x09" * 6),
            ("keyshare-x25519-zero", 51,
             b"\x00\x24\x00\x1d\x00\x20" + bytes(32)),
            ("keyshare-p256-offcurve", 51,
             b"\x00\x45\x00\x17\x00\x41\x04" + b"\x01" * 64),
            ("keyshare-p256-infinity", 51,
             b"\x00\x05\x00\x17\x00\x01\x00"),
            ("keyshare-repeated-group", 51,
             b"\x00\x48\x00\x1d\x00\x20" + b"\x09" * 32 +
             b"\x00\x1d\x00\x20" + b"\x08" * 32),
            ("keyshare-ffdhe-zero", 51,
             b"\x01\x04\x01\x00\x01\x00" + bytes(256)),
            ("keyshare-ffdhe-one", 51,
             b"\x01\x04\x01\x00\x01\x00" + bytes(255) + b"\x01"),
            ("pskmodes-empty", 45, b"\x00"),
            ("pskmodes-unknown", 45, b"\x01\x07"),
            ("psk-empty-identity", 41,
             b"\x00\x06\x00\x00\x00\x00\x00\x00\x00\x21\x20" + bytes(32)),
            ("psk-empty-binder", 41,
             b"\x00\x07\x00\x01a\x00\x00\x00\x00\x00\x01\x00"),
            ("psk-no-binders", 41,
             b"\x00\x07\x00\x01a\x00\x00\x00\x00\x00\x00"),
            ("psk-count-mismatch", 41,
             b"\x00\x07\x00\x01a\x00\x00\x00\x00\x00\x42\x20" + bytes(32) +
             b"\x20" + bytes(32)),
            ("psk-unknown-identity", 41,
             b"\x00\x0b\x00\x05nobdy\x00\x00\x00\x00\x00\x21\x20" +
             bytes(32)),
            ("early-data-nonempty", 42, b"\x00"),
            ("cookie-unsolicited", 44, b"\x00\x02ab"),
            ("compress-cert-empty", 27, b"\x00"),
            ("compress-cert-odd", 27, b"\x03\x00\x01\x00"),
            ("compress-cert-unknown", 27, b"\x02\x7f\x7f"),
            ("pha-nonempty", 49, b"\x00"),
            ("ems-nonempty", 23, b"\x00"),
            ("etm-nonempty", 22, b"\x00"),
            ("reneg-nonempty", 65281, b"\x01\x00"),
            ("reneg-bad-len", 65281, b"\x05\x00"),
            ("session-ticket-garbage", 35, b"\x55" * 40),
            ("session-ticket-short", 35, b"\x55" * 3),
            ("padding-nonzero", 21, b"\x01\x02"),
            ("unknown-ext", 0xfafa, b"\x00\x01\x02"),
            ("srp-empty", 12, b"\x00"),
            ("srp-long", 12, b"\xff" + b"u" * 255),
            ("cert-type-unknown", 9, b"\x01\x07"),
            ("npn-nonempty", 13172, b"\x01"),
            ("tack-nonempty", 62208, b"\x01")):
        for sel in ("TLS1.2-ECDHE_RSA-GCM", "TLS1.3-RSA", "TLS1.3-PSK",
                    "TLS1.0-SRP", "TLS1.2-ECDHE_RSA-tickets"):
            C.append(("ch-ext-" + nm, sel, "S", "CH", ch_ext_raw(t, body)))

    # several extensions changed together (each edit alone is covered above)
    def ch_ext_drop(ext_type):
        def m(data):
            d = bytes(data)
            o = 4 + 2 + 32
            o += 1 + d[o]
            o += 2 + int.from_bytes(d[o:o + 2], "big")
            o += 1 + d[o]
            if o >= len(d):
                return d
            head = d[:o]
            exts = d[o + 2:]
            out = b""
            i = 0
            while i + 4 <= len(exts):
                t = int.from_bytes(exts[i:i + 2], "big")
                ln = int.from_bytes(exts[i + 2:i + 4], "big")
                if t != ext_type:
                    out += exts[i:i + 4 + ln]
                i += 4 + ln
            return _hs(1, head[4:] + struct.pack(">H", len(out)) + out)
        return m

    def chain(*fns):
        def m(data):
            for f in fns:
                data = f(data)
                if data is None:
                    return None
            return data
        return m

    def psk_body(idents, binders):
        ib = b"".join(struct.pack(">H", len(i)) + i + b"\x00\x00\x00\x00"
                      for i in idents)
        bb = b"".join(bytes([len(b)]) + b for b in binders)
        return struct.pack(">H", len(ib)) + ib + struct.pack(">H", len(bb)) \
            + bb
    KNOWN = b"verif-psk"
    for nm, fn in (
            ("psk-ke-only-no-keyshare-no-groups-unknown-id", chain(
                ch_ext_drop(51), ch_ext_drop(10),
                ch_ext_raw(45, b"\x01\x00"),
                ch_ext_raw(41, psk_body([b"nobdy"], [bytes(32)])))),
            ("psk-ke-only-no-keyshare-no-groups-known-id", chain(
                ch_ext_drop(51), ch_ext_drop(10),
                ch_ext_raw(45, b"\x01\x00"),
                ch_ext_raw(41, psk_body([KNOWN], [bytes(32)])))),
            ("psk-ke-only-no-keyshare", chain(
                ch_ext_drop(51), ch_ext_raw(45, b"\x01\x00"),
                ch_ext_raw(41, psk_body([b"nobdy"], [bytes(32)])))),
            ("psk-dhe-no-keyshare-no-groups", chain(
                ch_ext_drop(51), ch_ext_drop(10),
                ch_ext_raw(41, psk_body([b"nobdy"], [bytes(32)])))),
            ("no-keyshare-no-groups", chain(ch_ext_drop(51),
                                            ch_ext_drop(10))),
            ("no-keyshare-no-groups-no-psk", chain(
                ch_ext_drop(51), ch_ext_drop(10), ch_ext_drop(41),
                ch_ext_drop(45))),
            ("psk-two-identities-one-binder", ch_ext_raw(
                41, psk_body([b"nobdy", KNOWN], [bytes(32)]))),
            ("psk-two-identities-one-binder-48", ch_ext_raw(
                41, psk_body([b"nobdy", KNOWN], [bytes(48)]))),
            ("psk-one-identity-two-binders", ch_ext_raw(
                41, psk_body([KNOWN], [bytes(32), bytes(32)]))),
            ("psk-known-identity-no-modes", chain(
                ch_ext_drop(45),
                ch_ext_raw(41, psk_body([KNOWN], [bytes(32)])))),
            ("psk-known-identity-no-sigalgs", chain(
                ch_ext_drop(13),
                ch_ext_raw(41, psk_body([KNOWN], [bytes(32)])))),
            ("no-sigalgs-no-psk", chain(ch_ext_drop(13), ch_ext_drop(41),
                                        ch_ext_drop(45)))):
        for sel in ("TLS1.3-PSK", "TLS1.3-RSA", "TLS1.3-tickets",
                    "TLS1.3-HRR"):
            C.append(("ch-multi-" + nm, sel, "S", "CH", fn))

    # the same kind of extension damage in a ClientHello whose legacy
    # version field is lower than TLS 1.2 (two fields changed together)
    def with_legacy(vb, m):
        def f(data):
            d = m(data)
            if d is None:
                return None
            d = bytearray(d)
            d[4:6] = vb
            return bytes(d)
        return f
    for nm, t, body in (
            ("versions-nobody", 43, b""), ("versions-empty", 43, b"\x00"),
            ("versions-odd", 43, b"\x03\x03\x04\x03"),
            ("versions-only-13", 43, b"\x02\x03\x04"),
            ("keyshare-nobody", 51, b""),
            ("keyshare-empty-list", 51, b"\x00\x00"),
            ("pskmodes-nobody", 45, b""), ("pskmodes-empty", 45, b"\x00"),
            ("groups-nobody", 10, b""), ("sigalgs-nobody", 13, b""),
            ("ecpf-nobody", 11, b""), ("cookie-nobody", 44, b""),
            ("alpn-nobody", 16, b""), ("sni-nobody", 0, b""),
            ("hb-nobody", 15, b""), ("rsl-nobody", 28, b""),
            ("compress-cert-nobody", 27, b""),
            ("sigalgs-cert-nobody", 50, b"")):
        for vb in (b"\x03\x03", b"\x03\x02", b"\x03\x01", b"\x03\x00"):
            for sel in ("TLS1.3-RSA", "TLS1.2-ECDHE_RSA-GCM",
                        "TLS1.0-DHE_RSA"):
                C.append(("ch-legacy%s-ext-%s" % (vb.hex(), nm), sel, "S",
                          "CH", with_legacy(vb, ch_ext_raw(t, body))))

    # duplicate extension in ClientHello
    def ch_dup_ext(data):
        d = bytes(data)
        o = 4 + 2 + 32
        o += 1 + d[o]
        o += 2 + int.from_bytes(d[o:o + 2], "big")
        o += 1 + d[o]
        exts = d[o + 2:]
        ln = int.from_bytes(exts[2:4], "big")
        first = exts[:4 + ln]
        out = first + exts
        return _hs(1, d[4:o] + struct.pack(">H", len(out)) + out)
    for sel in ("TLS1.2-ECDHE_RSA-GCM", "TLS1.3-RSA"):
        C.append(("ch-ext-duplicated", sel, "S", "CH", ch_dup_ext))

    # ServerHello level
    def sh_edit(off_fn):
        def m(data):
            b = bytearray(data)
            off_fn(b)
            return bytes(b)
        return m

    def set_version(v):
        def f(b):
            b[4:6] = bytes(v)
        return f

    def set_comp(b):
        o = 4 + 2 + 32
        o += 1 + b[o]
        b[o + 2] = 1
    for nm, fn in (("version-0200", set_version((2, 0))),
                   ("version-0305", set_version((3, 5))),
                   ("version-0000", set_version((0, 0))),
                   ("version-ffff", set_version((255, 255))),
                   ("compression-1", set_comp)):
        for sel in ("TLS1.2-ECDHE_RSA-GCM", "TLS1.0-DHE_RSA", "TLS1.3-RSA",
                    "SSLv3-RSA"):
            C.append(("sh-" + nm, sel, "C", "SH", sh_edit(fn)))

    def sh_ext_raw(ext_type, body):
        def m(data):
            d = bytes(data)
            o = 4 + 2 + 32
            o += 1 + d[o]
            o += 3
            exts = d[o + 2:] if o < len(d) else b""
            out = b""
            i = 0
            while i + 4 <= len(exts):
                t = int.from_bytes(exts[i:i + 2], "big")
                ln = int.from_bytes(exts[i + 2:i + 4], "big")
                if t != ext_type:
                    out += exts[i:i + 4 + ln]
                i += 4 + ln
            out += struct.pack(">HH", ext_type, len(body)) + body
            return _hs(2, d[4:o] + struct.pack(">H", len(out)) + out)
        return m
    for nm, t, body in (
            ("sh-ext-unsolicited-unknown", 0xfafa, b""),
            ("sh-ext-rsl-0", 28, b"\x00\x00"),
            ("sh-ext-rsl-63", 28, b"\x00\x3f"),
            ("sh-ext-rsl-huge", 28, b"\xff\xff"),
            ("sh-ext-alpn-two", 16, b"\x00\x06\x02h2\x02h3"),
            ("sh-ext-alpn-empty", 16, b"\x00\x00"),
            ("sh-ext-alpn-unoffered", 16, b"\x00\x05\x04zzzz"),
            ("sh-ext-hb-0", 15, b"\x00"), ("sh-ext-hb-3", 15, b"\x03"),
            ("sh-ext-ecpf-empty", 11, b"\x00"),
            ("sh-ext-ecpf-compressed-only", 11, b"\x01\x01"),
            ("sh-ext-reneg-nonempty", 65281, b"\x01\x00"),
            ("sh-ext-sni-nonempty", 0, b"\x00"),
            ("sh-ext-versions-12", 43, b"\x03\x03"),
            ("sh-ext-versions-ssl3", 43, b"\x03\x00"),
            ("sh-ext-versions-unknown", 43, b"\x7f\x1c"),
            ("sh-ext-versions-short", 43, b"\x03"),
            ("sh-ext-keyshare-unoffered", 51,
             b"\x00\x1e\x00\x20" + b"\x07" * 32),
            ("sh-ext-keyshare-zero", 51, b"\x00\x1d\x00\x20" + bytes(32)),
            ("sh-ext-keyshare-short", 51, b"\x00\x1d\x00\x04abcd"),
            ("sh-ext-keyshare-p256-offcurve", 51,
             b"\x00\x17\x00\x41\x04" + b"\x01" * 64),
            ("sh-ext-psk-unsolicited", 41, b"\x00\x00"),
            ("sh-ext-psk-out-of-range", 41, b"\x00\x09"),
            ("sh-ext-cookie", 44, b"\x00\x02ab"),
            ("sh-ext-ems-nonempty", 23, b"\x00"),
            ("sh-ext-etm-on-aead", 22, b""),
            ("sh-ext-session-ticket-nonempty", 35, b"\x01"),
            ("sh-ext-npn-garbage", 13172, b"\xff\x01")):
        for sel in ("TLS1.2-ECDHE_RSA-GCM", "TLS1.3-RSA", "TLS1.3-PSK",
                    "TLS1.3-HRR", "TLS1.2-ECDHE_RSA-tickets"):
            C.append((nm, sel, "C", "SH", sh_ext_raw(t, body)))
            if sel == "TLS1.3-HRR":
                C.append((nm + "@hrr", sel, "C", "HRR", sh_ext_raw(t, body)))

    # certificates
    def cert_list(certs, tls13):
        def m(data):
            body = b""
            if tls13:
                body += b"\x00"
            lst = b""
            for c in certs:
                lst += len(c).to_bytes(3, "big") + c
                if tls13:
                    lst += b"\x00\x00"
            body += len(lst).to_bytes(3, "big") + lst
            return _hs(11, body)
        return m
    junk = [("empty-list", []), ("empty-entry", [b""]),
            ("not-der", [b"\xde\xad\xbe\xef" * 20]),
            ("truncated-der", None), ("seq-only", [b"\x30\x03\x02\x01\x00"]),
            ("huge-len-der", [b"\x30\x84\x7f\xff\xff\xff\x00"]),
            ("indefinite-len", [b"\x30\x80\x00\x00"])]
    for nm, certs in junk:
        for sel, tls13 in (("TLS1.2-ECDHE_RSA-GCM", False),
                           ("TLS1.3-RSA", True), ("TLS1.0-DHE_RSA", False)):
            if certs is None:
                def trunc(data, tls13=tls13):
                    # keep first 100 bytes of the real certificate
                    d = bytes(data)
                    o = 4 + (1 if tls13 else 0) + 3
                    ln = int.from_bytes(d[o:o + 3], "big")
                    c = d[o + 3:o + 3 + min(ln, 100)]
                    return cert_list([c], tls13)(data)
                C.append(("cert-" + nm, sel, "C", "CERT", trunc))
            else:
                C.append(("cert-" + nm, sel, "C", "CERT",
                          cert_list(certs, tls13)))
    # CertificateVerify labelled with the scheme of another key type (one
    # the verifier advertised, so the label alone is not refused)
    def cv_alg(alg):
        def m(data):
            d = bytearray(data)
            if d[0] != 15 or len(d) < 8:
                return None
            if bytes(d[4:6]) == alg.to_bytes(2, "big"):
                return None
            d[4:6] = alg.to_bytes(2, "big")
            return bytes(d)
        return m
    for alg in (0x0403, 0x0203, 0x0503, 0x0603, 0x0807, 0x0808, 0x0401,
                0x0201, 0x0804, 0x0809, 0x0402, 0x0202):
        for sel, victim in (("TLS1.2-RSA-clientauth", "S"),
                            ("TLS1.2-ECDHE_ECDSA-clientauth-ecdsa", "S"),
                            ("TLS1.3-RSA-clientauth", "S"),
                            ("TLS1.3-RSA", "C"), ("TLS1.3-ECDSA", "C")):
            C.append(("cv-alg-%04x" % alg, sel, victim, "CV", cv_alg(alg)))
    # well-formed certificates with keys on curves the library can parse
    # but has no TLS signature scheme for (made with the openssl CLI)
    for curve in ("brainpoolP320r1", "brainpoolP224r1", "secp224r1"):
        der = odd_curve_cert(curve)
        if der is None:
            continue
        for sel, tls13 in (("TLS1.2-ECDHE_RSA-GCM", False),
                           ("TLS1.3-RSA", True)):
            C.append(("cert-curve-" + curve, sel, "C", "CERT",
                      cert_list([der], tls13)))
        C.append(("client-cert-curve-" + curve, "TLS1.2-RSA-clientauth", "S",
                  "CERT", cert_list([der], False)))
        C.append(("client-cert-curve-" + curve, "TLS1.3-RSA-clientauth", "S",
                  "CERT", cert_list([der], True)))
    for nm, certs in junk:
        if certs is None:
            continue
        C.append(("client-cert-" + nm, "TLS1.2-RSA-clientauth", "S", "CERT",
                  cert_list(certs, False)))
        C.append(("client-cert-" + nm, "TLS1.3-RSA-clientauth", "S", "CERT",
                  cert_list(certs, True)))

    # certificates: one DER node of the honest certificate emptied, deleted,
    # retagged, shortened by a byte or duplicated (all outer lengths fixed)
    for (cred, sel, victim, tls13) in (
            ("rsa", "TLS1.2-ECDHE_RSA-GCM", "C", False),
            ("rsa", "TLS1.3-RSA", "C", True),
            ("c_rsa", "TLS1.2-RSA-clientauth", "S", False),
            ("c_rsa", "TLS1.3-RSA-clientauth", "S", True),
            ("ecdsa", "TLS1.2-ECDHE_ECDSA", "C", False),
            ("ecdsa", "TLS1.3-ECDSA", "C", True),
            ("dsa", "TLS1.2-DHE_DSA", "C", False),
            ("ed25519", "TLS1.2-Ed25519", "C", False),
            ("ed25519", "TLS1.3-Ed25519-chacha", "C", True)):
        cert0 = bytes(W.load_cred(cred)[0].x509List[0].bytes)
        for (path, mk) in [(p, m) for p in der_paths(cert0, DER_DEPTH[0])
                           for m in DER_MUTS] + \
                [(p, m) for p in der_oid_paths(cert0)
                 for m in sorted(OTHER_OIDS)]:
            if True:
                def m(data, path=path, mk=mk, tls13=tls13, cert0=cert0):
                    d = bytes(data)
                    if d[0] != 11:
                        return None
                    o = 4 + ((1 + d[4]) if tls13 else 0) + 3
                    ln = int.from_bytes(d[o:o + 3], "big")
                    c = d[o + 3:o + 3 + ln]
                    if c != cert0:
                        return None
                    nc = der_mutate(c, path, mk)
                    if nc is None:
                        return None
                    rest = d[o + 3 + ln:]
                    lst = len(nc).to_bytes(3, "big") + nc + rest
                    body = (d[4:5 + d[4]] if tls13 else b"") + \
                        len(lst).to_bytes(3, "big") + lst
                    return _hs(11, body)
                C.append(("%scert-der-%s-%s@%s" % (
                    "client-" if victim == "S" else "", cred, mk,
                    ".".join(str(x) for x in path)), sel, victim, "CERT", m))

    # compressed certificate: lengths and bombs (server sends to client)
    def comp_cert(alg, ulen_fn, payload_fn):
        def m(data):
            # data is a CompressedCertificate (25) or Certificate (11)
            d = bytes(data)
            if d[0] == 25:
                raw = zlib.decompress(d[4 + 2 + 3 + 3:])
            else:
                raw = d[4:]
            payload = payload_fn(raw)
            ulen = ulen_fn(raw)
            body = struct.pack(">H", alg) + ulen.to_bytes(3, "big") + \
                len(payload).to_bytes(3, "big") + payload
            return _hs(25, body)
        return m
    bomb = zlib.compress(bytes(16 * 1024 * 1024), 9)
    for nm, alg, ul, pf in (
            ("alg0", 0, len, zlib.compress),
            ("alg-unknown", 0x7f7f, len, zlib.compress),
            ("alg-brotli-not-offered", 2, len, zlib.compress),
            ("ulen-0", 1, lambda r: 0, zlib.compress),
            ("ulen-minus1", 1, lambda r: len(r) - 1, zlib.compress),
            ("ulen-plus1", 1, lambda r: len(r) + 1, zlib.compress),
            ("ulen-max", 1, lambda r: 2 ** 24 - 1, zlib.compress),
            ("payload-garbage", 1, len, lambda r: b"\x00\x01\x02\x03" * 10),
            ("payload-empty", 1, len, lambda r: b""),
            ("payload-truncated", 1, len,
             lambda r: zlib.compress(r)[:len(zlib.compress(r)) // 2]),
            ("bomb-16MiB-claims-real", 1, len, lambda r: bomb),
            ("bomb-16MiB-claims-max", 1, lambda r: 2 ** 24 - 1,
             lambda r: bomb),
            ("bomb-16MiB-claims-0", 1, lambda r: 0, lambda r: bomb),
            ("bomb-16MiB-claims-1", 1, lambda r: 1, lambda r: bomb),
            ("bomb-16MiB-claims-half", 1, lambda r: len(r) // 2,
             lambda r: bomb)):
        C.append(("compcert-" + nm, "TLS1.3-RSA", "C", "CCERT",
                  comp_cert(alg, ul, pf)))
        C.append(("compcert-" + nm, "TLS1.3-RSA", "C", "CERT",
                  comp_cert(alg, ul, pf)))
        C.append(("client-compcert-" + nm, "TLS1.3-RSA-clientauth", "S",
                  "CCERT", comp_cert(alg, ul, pf)))
    return C


DER_MUTS = ("empty", "delete", "retag", "trunc1", "dup")
DER_DEPTH = [4]


def _der_children(buf, start, end):
    """(tag, header length, content start, content end) of the TLVs in
    buf[start:end]; None if they do not parse."""
    out = []
    o = start
    while o < end:
        if o + 2 > end:
            return None
        tag = buf[o]
        l0 = buf[o + 1]
        if l0 < 0x80:
            hl, ln = 2, l0
        else:
            nb = l0 & 0x7f
            if nb == 0 or nb > 3 or o + 2 + nb > end:
                return None
            hl, ln = 2 + nb, int.from_bytes(buf[o + 2:o + 2 + nb], "big")
        if o + hl + ln > end:
            return None
        out.append((tag, o, o + hl, o + hl + ln))
        o += hl + ln
    return out


def der_paths(cert, depth):
    """Paths (tuples of child indices) of every node down to `depth`."""
    paths = []

    def walk(start, end, path):
        ch = _der_children(cert, start, end)
        if ch is None:
            return
        for i, (tag, o, cs, ce) in enumerate(ch):
            p = path + (i,)
            paths.append(p)
            if tag & 0x20 and len(p) < depth:
                walk(cs, ce, p)
    walk(0, len(cert), ())
    return paths


def der_oid_paths(cert):
    """Paths of every OBJECT IDENTIFIER node, at any depth."""
    out = []

    def walk(start, end, path):
        ch = _der_children(cert, start, end)
        if ch is None:
            return
        for i, (tag, o, cs, ce) in enumerate(ch):
            p = path + (i,)
            if tag == 0x06:
                out.append(p)
            if tag & 0x20 and len(p) < 12:
                walk(cs, ce, p)
    walk(0, len(cert), ())
    return out


# well-formed OIDs the certificate code has no entry for / another entry for
OTHER_OIDS = {"oid-prime192v2": bytes.fromhex("2a8648ce3d030102"),
              "oid-unknown-arc": bytes.fromhex("883701"),
              "oid-sha1rsa": bytes.fromhex("2a864886f70d010105"),
              "oid-secp224r1": bytes.fromhex("2b81040021"),
              "oid-ed448": bytes.fromhex("2b6571"),
              # key types whose support depends on an optional module
              "oid-mldsa44": bytes.fromhex("608648016503040311"),
              "oid-mldsa87": bytes.fromhex("608648016503040313")}


def _der_tlv(tag, content):
    n = len(content)
    if n < 0x80:
        return bytes([tag, n]) + content
    b = n.to_bytes((n.bit_length() + 7) // 8, "big")
    return bytes([tag, 0x80 | len(b)]) + b + content


def der_mutate(cert, path, kind):
    """Re-encode `cert` with the node at `path` mutated."""
    def rebuild(start, end, path):
        ch = _der_children(cert, start, end)
        if ch is None or path[0] >= len(ch):
            return None
        out = b""
        for i, (tag, o, cs, ce) in enumerate(ch):
            if i != path[0]:
                out += cert[o:ce]
                continue
            if len(path) > 1:
                inner = rebuild(cs, ce, path[1:])
                if inner is None:
                    return None
                out += _der_tlv(tag, inner)
            elif kind == "empty":
                out += _der_tlv(tag, b"")
            elif kind == "delete":
                pass
            elif kind == "retag":
                out += _der_tlv(0x04 if tag != 0x04 else 0x30, cert[cs:ce])
            elif kind == "trunc1":
                if ce == cs:
                    return None
                out += _der_tlv(tag, cert[cs:ce - 1])
            elif kind == "dup":
                out += cert[o:ce] * 2
            elif kind in OTHER_OIDS:
                if cert[cs:ce] == OTHER_OIDS[kind]:
                    return None
                out += _der_tlv(tag, OTHER_OIDS[kind])
        return out
    return rebuild(0, len(cert), tuple(path))


def semantic_case(item):
    ci, tier, seed = item
    DER_DEPTH[0] = 4 if tier == "quick" else 9
    cases = semantic_cases()
    name, sel, victim, tok, fn = cases[ci]
    scs = S.flavours("thorough")
    cand = [s for s in scs if s.name == sel or (sel in s.name and
                                                s.name.startswith("TLS1.2"))]
    if not cand:
        cand = [s for s in scs if sel in s.name]
    if not cand:
        return name, sel, victim, None, [], None
    sc = cand[0]
    if tok == "CERT" and sc.version >= (3, 4):
        # TLS 1.3 endpoints compress their certificates by default; these
        # cases are about the plain Certificate message
        sc = copy.copy(sc)
        sc.cset = dict(sc.cset)
        sc.sset = dict(sc.sset)
        for st_ in (sc.cset, sc.sset):
            st_["certificate_compression_send"] = []
            st_["certificate_compression_receive"] = []
    r = run_one(sc, seed, victim, {}, meter=True)
    pair, pup, out, m = r
    base_calls = m.calls
    idxs = [i for i, t in pup.honest if t == tok]
    if not idxs:
        return name, sc.name, victim, None, [], None
    memory = "bomb" in name
    r = run_one(sc, seed, victim, {idxs[0]: ("mutate", fn)}, meter=True,
                memory=memory)
    if r is None:
        return name, sc.name, victim, None, [], None
    pair2, pup2, out2, m2 = r
    rx = len(pair2.world.s2c.log if victim == "C" else pair2.world.c2s.log)
    sig, fails = judge(pair2, out2, victim, m2, base_calls, rx)
    if memory and m2.peak > 4 * 1024 * 1024 + 64 * rx:
        fails.append(({"kind": "memory"}, "peak allocation %d bytes after "
                      "%d received bytes" % (m2.peak, rx)))
    return name, sc.name, victim, sig, fails, m2.peak if memory else None


# ---------------------------------------------------------------- records
def record_cases():
    R = []
    for b0 in range(256):
        R.append(("first-byte-%02x" % b0,
                  bytes([b0]) + b"\x03\x01\x00\x05hello"))
    for t in (20, 21, 22, 23, 24):
        R.append(("empty-record-type-%d" % t,
                  bytes([t]) + b"\x03\x03\x00\x00"))
        R.append(("len-16385-type-%d" % t,
                  bytes([t]) + b"\x03\x03\x40\x01" + bytes(16385)))
        R.append(("len-18433-type-%d" % t,
                  bytes([t]) + b"\x03\x03\x48\x01" + bytes(18433)))
        R.append(("len-65535-announced-type-%d" % t,
                  bytes([t]) + b"\x03\x03\xff\xff" + bytes(100)))
    R.append(("ssl2-hello-short", b"\x80\x03\x01\x00\x02"))
    R.append(("ssl2-hello-zero-len", b"\x80\x00"))
    R.append(("ssl2-hello-garbage", b"\x80\x2e\x01\x03\x01" + b"\x00" * 43))
    R.append(("ssl2-3byte-header-pad", b"\x00\x10\x20" + bytes(16)))
    R.append(("ssl2-server-hello-to-client", b"\x80\x0b\x04" + bytes(10)))
    R.append(("hs-len-announces-16MiB", b"\x16\x03\x01\x00\x04\x01\xff\xff"
              b"\xff"))
    R.append(("hs-type-unknown", b"\x16\x03\x01\x00\x04\x63\x00\x00\x00"))
    R.append(("alert-one-byte", b"\x15\x03\x01\x00\x01\x02"))
    R.append(("alert-three-bytes", b"\x15\x03\x01\x00\x03\x02\x28\x00"))
    R.append(("ccs-two-bytes", b"\x14\x03\x01\x00\x02\x01\x01"))
    R.append(("ccs-value-2", b"\x14\x03\x01\x00\x01\x02"))
    R.append(("heartbeat-early", b"\x18\x03\x01\x00\x14\x01\x00\x01a" +
              bytes(16)))
    return R


def record_case(item):
    ri, victim, seed, vname = item
    name, data = record_cases()[ri]
    scs = dict((s.name, s) for s in S.flavours("thorough"))
    sc = scs[vname]
    SEAMS.reset(seed, sc.name)
    w = World()
    pair = Pair(w)
    m = Meter(victim)
    w.meter = m
    fails = []
    if victim == "S":
        w.c2s.inject(data)
        w.c2s.eof = True
        g = sc.server_gen(pair.s)
        o = W.run_gen(w, "S", g, max_steps=20000)
    else:
        # client: first its ClientHello goes out, then the junk arrives
        w.s2c.inject(data)
        w.s2c.eof = True
        g = sc.client_gen(pair.c)
        o = W.run_gen(w, "C", g, max_steps=20000)
    out = {victim: o}
    sig, fails = judge(pair, out, victim, m, 3000, len(data))
    if o.status == "ok":
        fails.append(({"kind": "completed-on-junk"}, "handshake completed"))
    return name, victim, vname, sig, fails


POST_RECORD_SCENS = [
    ("TLS1.2-GCM", (3, 3), "TLS_RSA_WITH_AES_128_GCM_SHA256", True),
    ("TLS1.2-CHACHA", (3, 3),
     "TLS_ECDHE_RSA_WITH_CHACHA20_POLY1305_SHA256", True),
    ("TLS1.2-CCM8", (3, 3), "TLS_RSA_WITH_AES_128_CCM_8", True),
    ("TLS1.2-CBC-EtM", (3, 3), "TLS_RSA_WITH_AES_128_CBC_SHA", True),
    ("TLS1.2-CBC-MtE", (3, 3), "TLS_RSA_WITH_AES_128_CBC_SHA", False),
    ("TLS1.1-3DES", (3, 2), "TLS_RSA_WITH_3DES_EDE_CBC_SHA", False),
    ("TLS1.0-RC4", (3, 1), "TLS_RSA_WITH_RC4_128_SHA", False),
    ("SSLv3-CBC", (3, 0), "TLS_RSA_WITH_AES_128_CBC_SHA", False),
    ("TLS1.3-GCM", (3, 4), "TLS_AES_128_GCM_SHA256", True),
    ("TLS1.3-CHACHA", (3, 4), "TLS_CHACHA20_POLY1305_SHA256", True),
]


def post_record_case(item):
    """Raw junk records (every first byte, SSLv2-style headers, oversized
    and empty records, ...) arriving on an *established* connection of each
    record-protection family; the victim then reads."""
    si, victim, seed = item
    name, version, sname, etm = POST_RECORD_SCENS[si]
    sc = S.scen_for_suite(version, getattr(S.CipherSuite, sname), etm=etm)
    pair0, out = S.connect(sc, seed=seed)
    rec = {"scenario": name, "victim": victim, "n": 0, "fails": [],
           "sigs": set()}
    if out["C"].status != "ok" or out["S"].status != "ok":
        rec["fails"].append(({"kind": "honest-failed"}, repr(out), None))
        return rec
    pair0.drain()
    for (cname, data) in record_cases():
        pair = pair0.clone()
        pipe = pair.world.c2s if victim == "S" else pair.world.s2c
        pipe.inject(data)
        m = Meter(victim)
        pair.world.meter = m
        o = pair.read(victim, None, 1)
        rec["n"] += 1
        sig, fails = judge(pair, {victim: o}, victim, m, 3000, len(data))
        if o.status == "ok" and o.value:
            fails.append(({"kind": "junk-delivered"},
                          "unauthenticated bytes delivered as application "
                          "data: %r" % (bytes(o.value)[:20],)))
        kindname = cname.split("-")[0] if not cname.startswith(
            "first-byte") else "first-byte"
        rec["sigs"].add((kindname, sig))
        for (k, f) in fails:
            if room(rec.setdefault("pc", {}), sorted(k.items()), 4):
                rec["fails"].append((k, f, cname))
    rec["sigs"] = sorted(rec["sigs"], key=repr)
    rec.pop("pc", None)
    return rec


# ---------------------------------------------------------------- post-hs
def post_case(item):
    """Mutations of post-handshake messages (NST, KeyUpdate,
    CertificateRequest, PHA flight, heartbeat)."""
    kind, tier, seed = item
    from tlslite.constants import KeyUpdateMessageType as KU
    res = {"kind": kind, "n": 0, "fails": [], "sigs": set()}
    CS = S.CipherSuite
    if kind in ("nst", "ku", "pha-req", "pha-flight"):
        sc = S.Scen("post13", version=(3, 4), cred="rsa",
                    client_cred="c_rsa", tickets=True,
                    suite=CS.TLS_AES_128_GCM_SHA256)
    else:
        sc = S.Scen("post12", version=(3, 3), cred="rsa",
                    suite=CS.TLS_ECDHE_RSA_WITH_AES_128_GCM_SHA256)

    def fresh():
        pair, out = S.connect(sc, seed=seed)
        assert out["C"].status == "ok" and out["S"].status == "ok", out
        return pair

    def attempt(sender, victim, mk_gen, label_prefix):
        # capture
        pair = fresh()
        if kind != "nst":
            pair.drain()
        pup = Puppet(pair.ep(sender), {})
        cap = {}
        pup.script = {}
        # run once honestly to learn the message indices & bytes
        g = mk_gen(pair)
        W.run_gen(pair.world, sender, g)
        honest = list(pup.honest)
        data_of = {}
        pair = fresh()
        if kind != "nst":
            pair.drain()
        pup = Puppet(pair.ep(sender), dict(
            (i, ("mutate", (lambda i: (lambda d: data_of.__setitem__(i, d)))
                 (i))) for i, t in honest))
        W.run_gen(pair.world, sender, mk_gen(pair))
        for (i, tok) in honest:
            if i not in data_of or tok in ("APP",):
                continue
            fields = msgstruct.describe(data_of[i], sc.version)
            for (label, newb) in msgstruct.mutations(data_of[i], fields,
                                                     tier):
                p = fresh()
                if kind != "nst":
                    p.drain()
                Puppet(p.ep(sender), {i: ("replace", newb)})
                m = Meter(victim)
                p.world.meter = m
                W.run_gen(p.world, sender, mk_gen(p))
                rx_pipe = p.world.s2c if victim == "C" else p.world.c2s
                o = None
                for _ in range(4):
                    o = p.read(victim, None, 0)
                    if o.status != "ok" or not (rx_pipe.buf or
                                                p.ep(victim).sock.
                                                _read_buffer):
                        break
                # the sender may have to read the victim's answer (PHA)
                res["n"] += 1
                out = {victim: o if o.status != "stall" else
                       W.Outcome("ok")}
                sig, fails = judge(p, out, victim, m, 4000, len(newb))
                res["sigs"].add((tok, sig))
                for (k, text) in fails:
                    if len(res["fails"]) < 40:
                        k = dict(k)
                        k["msg"] = tok
                        k["post"] = kind
                        res["fails"].append((k, text, label))

    if kind == "nst":
        # tickets are sent by the server inside its handshake call: capture
        # through a puppet server during the handshake instead
        def via_handshake():
            r = run_one(sc, seed, "C", {})
            pair, pup, out, _ = r
            idx = [i for i, t in pup.honest if t == "NST"]
            data_of = {}
            run_one(sc, seed, "C", dict(
                (i, ("mutate", (lambda i: (lambda d: data_of.__setitem__(
                    i, d)))(i))) for i in idx))
            for i in idx[:1]:
                fields = msgstruct.describe(data_of[i], sc.version)
                for (label, newb) in msgstruct.mutations(data_of[i], fields,
                                                         tier):
                    r2 = run_one(sc, seed, "C", {i: ("replace", newb)})
                    p, pu, out2, _ = r2
                    o = None
                    m = Meter("C")
                    p.world.meter = m
                    for _ in range(4):
                        o = p.read("C", None, 0)
                        if o.status != "ok":
                            break
                    res["n"] += 1
                    sig, fails = judge(p, {"C": o if o.status != "stall"
                                           else W.Outcome("ok")}, "C", m,
                                       4000, len(newb))
                    res["sigs"].add(("NST", sig))
                    for (k, text) in fails:
                        if len(res["fails"]) < 40:
                            k = dict(k)
                            k["msg"] = "NST"
                            k["post"] = kind
                            res["fails"].append((k, text, label))
        via_handshake()
    elif kind == "ku":
        for sender, victim in (("C", "S"), ("S", "C")):
            attempt(sender, victim,
                    lambda p, s=sender: p.ep(s).send_keyupdate_request(
                        KU.update_requested), "ku")
    elif kind == "pha-req":
        attempt("S", "C", lambda p: p.s.request_post_handshake_auth(
            sc.server_settings()), "pha-req")
        # well-formed requests whose signature_algorithms the client's key
        # cannot serve (or that carry no such extension at all)
        from ..puppet import RawMsg
        for (label, algs) in (("ecdsa-only", b"\x04\x03"),
                              ("eddsa-only", b"\x08\x07"),
                              ("unknown-only", b"\xee\xee"),
                              ("sha1-rsa-only", b"\x02\x01"),
                              ("pkcs1-only", b"\x04\x01\x05\x01"),
                              ("empty-list", b""), ("no-extension", None)):
            p = fresh()
            p.drain()
            if algs is None:
                ext = b""
            else:
                ext = b"\x00\x0d" + (2 + len(algs)).to_bytes(2, "big") + \
                    len(algs).to_bytes(2, "big") + algs
            body = b"\x03ctx" + len(ext).to_bytes(2, "big") + ext
            newb = b"\x0d" + len(body).to_bytes(3, "big") + body
            W.run_gen(p.world, "S", p.s._sendMsg(RawMsg(22, newb),
                                                 update_hashes=False))
            m = Meter("C")
            p.world.meter = m
            for _ in range(5):
                o = p.read("C", None, 0)
                if o.status != "ok" or not (p.world.s2c.buf or
                                            p.c.sock._read_buffer):
                    break
            res["n"] += 1
            sig, fails = judge(p, {"C": o if o.status != "stall" else
                                   W.Outcome("ok")}, "C", m, 4000, len(newb))
            res["sigs"].add(("CR-sigalgs", sig))
            for (k, text) in fails:
                k = dict(k)
                k["msg"] = "CR"
                k["post"] = kind
                res["fails"].append((k, text, "sigalgs:" + label))
    elif kind == "pha-flight":
        def gen(p):
            # server asks, client answers through a read
            for r in p.s.request_post_handshake_auth(sc.server_settings()):
                yield r
        # the client's answer is produced inside its read; mutate that
        pair = fresh()
        pair.drain()
        W.run_gen(pair.world, "S", gen(pair))
        pup = Puppet(pair.c, {})
        pair.read("C", None, 0)
        honest = list(pup.honest)
        data_of = {}
        pair = fresh()
        pair.drain()
        W.run_gen(pair.world, "S", gen(pair))
        Puppet(pair.c, dict((i, ("mutate", (lambda i: (
            lambda d: data_of.__setitem__(i, d)))(i))) for i, t in honest))
        pair.read("C", None, 0)
        for (i, tok) in honest:
            if i not in data_of:
                continue
            fields = msgstruct.describe(data_of[i], sc.version)
            for (label, newb) in msgstruct.mutations(data_of[i], fields,
                                                     tier):
                p = fresh()
                p.drain()
                W.run_gen(p.world, "S", gen(p))
                Puppet(p.c, {i: ("replace", newb)})
                p.read("C", None, 0)
                m = Meter("S")
                p.world.meter = m
                o = None
                for _ in range(4):
                    o = p.read("S", None, 0)
                    if o.status != "ok":
                        break
                res["n"] += 1
                sig, fails = judge(p, {"S": o if o.status != "stall"
                                       else W.Outcome("ok")}, "S", m, 8000,
                                   len(newb))
                res["sigs"].add((tok, sig))
                if o.status in ("ok", "stall") and \
                        p.s.session.clientCertChain is not None and \
                        label.startswith(("signature", "verify_data")):
                    fails.append(({"kind": "pha-accepted-corrupted"},
                                  "client chain recorded after %s" % label))
                for (k, text) in fails:
                    if len(res["fails"]) < 40:
                        k = dict(k)
                        k["msg"] = tok
                        k["post"] = kind
                        res["fails"].append((k, text, label))
    elif kind == "heartbeat":
        from tlslite.messages import Message
        hb_cases = [
            ("req-ok", b"\x01\x00\x04abcd" + bytes(16)),
            ("req-len-too-big", b"\x01\x40\x00abcd" + bytes(16)),
            ("req-len-65535", b"\x01\xff\xffab" + bytes(16)),
            ("req-no-padding", b"\x01\x00\x04abcd"),
            ("req-short-padding", b"\x01\x00\x04abcd" + bytes(15)),
            ("req-empty", b""), ("req-one-byte", b"\x01"),
            ("req-two-bytes", b"\x01\x00"),
            ("type-0", b"\x00\x00\x04abcd" + bytes(16)),
            ("type-3", b"\x03\x00\x04abcd" + bytes(16)),
            ("resp-unsolicited", b"\x02\x00\x04abcd" + bytes(16)),
            ("req-max", b"\x01\x3f\xd0" + bytes(16336) + bytes(16))]
        for sender, victim in (("C", "S"), ("S", "C")):
            for (label, body) in hb_cases:
                p = fresh()
                m = Meter(victim)
                p.world.meter = m
                W.run_gen(p.world, sender, p.ep(sender)._sendMsg(
                    Message(24, bytearray(body))))
                p.write(sender, b"after")
                o = p.read(victim, None, 5)
                res["n"] += 1
                sig, fails = judge(p, {victim: o}, victim, m, 4000,
                                   len(body))
                res["sigs"].add(("HB", label, sig))
                # a response, if any, must echo exactly the payload
                back = p.world.c2s if victim == "C" else p.world.s2c
                if label == "req-ok" and o.status == "ok":
                    if bytes(o.value) != b"after":
                        fails.append(({"kind": "hb-data"}, "data after "
                                      "heartbeat: %r" % (o,)))
                for (k, text) in fails:
                    k = dict(k)
                    k["msg"] = "HB"
                    k["post"] = kind
                    res["fails"].append((k, text, label))
    res["sigs"] = sorted(res["sigs"], key=repr)
    return res


def run(res, tier, seed):
    res.coverage["rule"] = (
        "structural: every field (length prefix, scalar, opaque region) of "
        "every handshake message sent to either role in every flavour "
        "mutated in place with a finite value alphabet, plus truncation at "
        "every field boundary (with and without corrected header), trailing "
        "and stray bytes; semantic: hand-written parsable-but-unexpected "
        "values (DH/ECDH parameters, extensions, certificates, compressed "
        "certificates incl. bombs, delegated credentials, degenerate "
        "key-exchange parameters under a good signature); record level: all 256 first bytes, "
        "empty / oversized records, SSLv2 headers; post-handshake: NST, "
        "KeyUpdate, CertificateRequest, PHA flight, heartbeat; every message "
        "replaced / cut with the victim keeping its socket "
        "(closeSocket=False), alert-on-the-wire oracle; the abbreviated "
        "handshake of a resumed connection damaged message by message with "
        "the session cache inspected afterwards; one mutation "
        "per execution; distinct by (flavour, role, message, field, value)")
    scs = scenarios(tier)
    items = [(i, tier, seed, v) for i in range(len(scs)) for v in ("C", "S")]
    n = 0
    for rec in pmap(case, items, chunksize=1):
        n += rec["n"]
        res.count(rec["n"])
        for s in rec["sigs"]:
            res.outcome(tuple(s))
        if rec["msgs"] and len(res.coverage["samples"]) < 4:
            res.sample({"scenario": rec["scenario"], "victim": rec["victim"],
                        "messages(token,len,fields)": rec["msgs"]})
        for (k, text, label) in rec["fails"]:
            res.violation(k, {"scenario": rec["scenario"],
                              "victim": rec["victim"], "mutation": label,
                              "fail": text},
                          {"scenario": rec["scenario"],
                           "victim": rec["victim"], "mutation": label})
    res.section("structural", scenario_roles=len(items), executions=n)
    nk = 0
    for rec in pmap(keep_socket_case, items, chunksize=1):
        nk += rec["n"]
        res.count(rec["n"])
        for s in rec["sigs"]:
            res.outcome(("keep-socket",) + tuple(s))
        for (k, text, label) in rec["fails"]:
            res.violation(k, {"scenario": rec["scenario"],
                              "victim": rec["victim"], "mutation": label,
                              "fail": text, "closeSocket": False},
                          {"scenario": rec["scenario"], "keep_socket": True,
                           "victim": rec["victim"], "mutation": label})
    res.section("keep_socket", scenario_roles=len(items), executions=nk,
                note="closeSocket=False on the victim; alert must be on the "
                     "wire when the failing call returns")
    nrs = 0
    for rec in pmap(resumed_case, [(sn, seed) for sn in RESUMED_SCENS],
                    chunksize=1):
        nrs += rec["n"]
        res.count(rec["n"])
        for s_ in rec["sigs"]:
            res.outcome(("resumed",) + tuple(s_))
        for (k, text, label) in rec["fails"]:
            res.violation(k, {"scenario": rec["scenario"], "mutation": label,
                              "fail": text, "resumed_connection": True},
                          {"scenario": rec["scenario"], "resumed": True,
                           "mutation": label})
    res.section("resumed_connections", scenarios=RESUMED_SCENS,
                executions=nrs)
    from . import c05
    ndc = 0
    for r in pmap(dc_case, [(c, seed) for c in c05.dc_cases(tier)]):
        if r is None:
            continue
        name, shape, sig, fails = r
        ndc += 1
        res.count()
        res.outcome(("dc", shape, sig))
        for (k, text) in fails:
            k = dict(k)
            k["case"] = "delegated-credential"
            k["shape"] = shape
            res.violation(k, {"case": name, "fail": text},
                          {"delegated_credential": name})
    res.section("delegated_credentials", cases=ndc)
    nsk = 0
    for (name, label, sig, fails) in pmap(
            signed_ske_case, [(c, seed) for c in signed_ske_cases()]):
        nsk += 1
        res.count()
        res.outcome(("signed-ske", label, sig))
        for (k, text) in fails:
            k = dict(k)
            k["case"] = "signed-ske-" + label
            res.violation(k, {"case": name, "fail": text},
                          {"signed_ske": name})
    res.section("signed_server_key_exchange", cases=nsk,
                scenarios=SIGNED_SCENS)
    DER_DEPTH[0] = 4 if tier == "quick" else 9
    cases = semantic_cases()
    ns = 0
    peaks = {}
    skipped = []
    for (name, scn, victim, sig, fails, peak) in pmap(
            semantic_case, [(i, tier, seed) for i in range(len(cases))]):
        if sig is None:
            skipped.append("%s@%s" % (name, scn))
            continue
        ns += 1
        res.count()
        res.outcome(("sem", sig))
        if peak is not None:
            peaks[name + "/" + victim] = peak
        for (k, text) in fails:
            k = dict(k)
            k["case"] = name.split("@")[0]
            res.violation(k, {"scenario": scn, "victim": victim,
                              "case": name, "fail": text},
                          {"semantic": name, "scenario": scn})
    res.section("semantic", cases=len(cases), executed=ns,
                not_applicable=len(skipped),
                not_applicable_examples=sorted(skipped)[:8],
                peak_bytes_bomb_cases=peaks)
    if len(skipped) > len(cases) // 10:
        # a case whose message never occurs in its scenario says nothing:
        # more than a handful means the catalogue lost touch with the code
        res.violation({"kind": "vacuous-semantic-cases"},
                      {"not_executed": len(skipped), "of": len(cases),
                       "examples": sorted(skipped)[:20]},
                      {"semantic": "vacuous"})
    rc = record_cases()
    ritems = []
    for ri in range(len(rc)):
        for victim, vname in (("S", "TLS1.2-ECDHE_RSA"), ("C", "TLS1.2-RSA"),
                              ("S", "TLS1.3-RSA"), ("C", "TLS1.3-RSA"),
                              ("S", "SSLv3-RSA")):
            ritems.append((ri, victim, seed, vname))
    nr = 0
    for (name, victim, vname, sig, fails) in pmap(record_case, ritems):
        nr += 1
        res.count()
        res.outcome(("rec", sig))
        for (k, text) in fails:
            k = dict(k)
            k["record"] = name if not name.startswith("first-byte") else \
                "first-byte"
            res.violation(k, {"record": name, "victim": victim,
                              "scenario": vname, "fail": text},
                          {"record": name, "victim": victim,
                           "scenario": vname})
    res.section("records", cases=nr)
    npost = 0
    for r in pmap(post_case, [(k, tier, seed) for k in
                              ("nst", "ku", "pha-req", "pha-flight",
                               "heartbeat")], chunksize=1):
        npost += r["n"]
        res.count(r["n"])
        for s in r["sigs"]:
            res.outcome(("post",) + tuple(s))
        for (k, text, label) in r["fails"]:
            res.violation(k, {"post": r["kind"], "mutation": label,
                              "fail": text},
                          {"post": r["kind"], "mutation": label})
    res.section("post_handshake", executions=npost)
    npr = 0
    for r in pmap(post_record_case,
                  [(si, v, seed) for si in range(len(POST_RECORD_SCENS))
                   for v in ("C", "S")], chunksize=1, timeout=300):
        npr += r["n"]
        res.count(r["n"])
        for s in r["sigs"]:
            res.outcome(("postrec",) + tuple(s))
        for (k, text, label) in r["fails"]:
            k = dict(k)
            k["record"] = label if label and not label.startswith(
                "first-byte") else "first-byte"
            res.violation(k, {"scenario": r["scenario"],
                              "victim": r["victim"], "record": label,
                              "fail": text},
                          {"post_record": label, "scenario": r["scenario"],
                           "victim": r["victim"]})
    res.section("records_after_handshake", executions=npr,
                families=[x[0] for x in POST_RECORD_SCENS])
    npost += npr
    res.coverage["distinct_nontrivial"] = n + ns + nr + npost
    res.assumptions += [
        "work bound: Python function calls while the victim runs <= 50 x "
        "honest run + 2000 per received byte; memory bound (bomb cases "
        "only): tracemalloc peak <= 4 MiB + 64 x received bytes",
        "one mutation per execution (bound 1)"]


def replay(case_, seed):
    return {"note": "re-run ./check C08", "case": case_}
