"""C12 - the CBC MAC-and-padding check accepts exactly the well-formed
records.

Deciding method: exhaustive enumeration of (version, MAC, block size, body
length, claimed padding length) with bodies built well-formed where the
protocol allows it and ill-formed otherwise, plus every single-byte
corruption of well-formed bodies, against an eight-line direct specification;
then the same bodies encrypted by the independent record layer and fed
through RecordLayer.recvRecord().
"""
import hashlib
import struct

from .. import world as W
from .. import refcrypto as R
from ..core import pmap
from tlslite.utils.constanttime import ct_check_cbc_mac_and_pad
from tlslite.mathtls import createMAC_SSL, createHMAC

LEVEL = "exploration"

DIGEST = {"md5": 16, "sha1": 20, "sha256": 32, "sha384": 48}


def ref_mac(version, h, key, seq, ctype, data):
    if version == (3, 0):
        return R.ssl3_mac(key, h, seq, ctype, data)
    return R.tls_mac(key, h, seq, ctype, version, data)


def spec(version, h, key, seq, ctype, body, block):
    """Direct, non-constant-time statement of the rule.  Returns True, False
    or None (left open: SSLv3 padding of exactly one block)."""
    d = DIGEST[h]
    n = len(body)
    if n < d + 1:
        return False
    p = body[-1]
    if p + 1 + d > n:
        return False
    open_ = False
    if version == (3, 0):
        if p > block:
            return False
        if p == block:
            open_ = True
    else:
        if body[n - 1 - p:] != bytes([p]) * (p + 1):
            return False
    data = body[:n - 1 - p - d]
    mac = body[n - 1 - p - d:n - 1 - p]
    if ref_mac(version, h, key, seq, ctype, data) != mac:
        return False
    return None if open_ else True


def lib_check(version, h, key, seq, ctype, body, block):
    # the digest constructors RecordLayer._getMacSettings hands over
    from tlslite.utils import tlshashlib
    dm = getattr(tlshashlib, h)
    if version == (3, 0):
        mac = createMAC_SSL(bytearray(key), digestmod=dm)
    else:
        mac = createHMAC(bytearray(key), digestmod=dm)
    return ct_check_cbc_mac_and_pad(bytearray(body), mac, bytearray(seq),
                                    ctype, version, block)


def pattern(n, salt):
    return bytes(((i * 37) ^ salt ^ (i >> 3)) & 0xff for i in range(n))


def build(version, h, key, seq, ctype, n, p, block, salt):
    """Body of length n whose last byte is p: well-formed if possible."""
    d = DIGEST[h]
    if p + 1 + d <= n:
        data = pattern(n - p - 1 - d, salt)
        mac = ref_mac(version, h, key, seq, ctype, data)
        if version == (3, 0):
            pad = pattern(p, salt ^ 0x5a) + bytes([p])
        else:
            pad = bytes([p]) * (p + 1)
        return data + mac + pad, True
    body = pattern(n - 1, salt ^ 0x33) + bytes([p]) if n else b""
    return body, False


def work(item):
    version, h, block, lengths, seed, do_corrupt = item
    key = hashlib.sha256(b"c12key%d" % seed).digest()[:DIGEST[h]]
    seq = struct.pack(">Q", 0x0102030405060708 ^ seed)
    ctype = 23
    fails = []
    n_eval = 0
    n_true = 0
    outcomes = set()
    for n in lengths:
        for p in range(256):
            if n == 0 and p:
                continue
            body, wf = build(version, h, key, seq, ctype, n, p, block,
                             (n * 7 + p) & 0xff)
            want = spec(version, h, key, seq, ctype, body, block)
            got = lib_check(version, h, key, seq, ctype, body, block)
            n_eval += 1
            outcomes.add((want, got))
            if got:
                n_true += 1
            if want is not None and got != want:
                fails.append({"version": version, "mac": h, "block": block,
                              "len": n, "pad": p, "want": want, "got": got,
                              "corrupt": None})
                if len(fails) > 5:
                    return n_eval, n_true, fails, outcomes
            if wf and want and do_corrupt and (
                    p in (0, 1, 7, 15, 16, 255) or n in do_corrupt):
                for pos in range(n):
                    for mask in (0x01, 0xff):
                        b2 = bytearray(body)
                        b2[pos] ^= mask
                        b2 = bytes(b2)
                        w2 = spec(version, h, key, seq, ctype, b2, block)
                        g2 = lib_check(version, h, key, seq, ctype, b2,
                                       block)
                        n_eval += 1
                        outcomes.add((w2, g2))
                        if w2 is not None and g2 != w2:
                            fails.append({"version": version, "mac": h,
                                          "block": block, "len": n,
                                          "pad": p, "want": w2, "got": g2,
                                          "corrupt": [pos, mask]})
                            if len(fails) > 5:
                                return n_eval, n_true, fails, outcomes
    return n_eval, n_true, fails, outcomes


BLOCK_OF = {"md5": 64, "sha1": 64, "sha256": 64, "sha384": 128}


def long_lengths(h, tier):
    """Body lengths around the places where the scan windows of the
    constant-time check start: 256 and 256 + digest before the end, rounded
    to the hash block, for one and two extra hash blocks."""
    bs, ds = BLOCK_OF[h], DIGEST[h]
    out = set()
    for k in (1, 2) if tier == "quick" else (1, 2, 3, 5):
        for r in (0, 1, ds - 1, ds, ds + 1, bs - 1):
            out.add(256 + k * bs + r)
        out.add(256 + ds + k * bs)
        out.add(256 + ds + k * bs - 1)
    return sorted(out)


def work_long(item):
    """Targeted corruption of long well-formed bodies: every claimed padding
    in the menu x {first data byte, last data byte, first/middle/last MAC
    byte, first padding byte, byte before the scan window}."""
    version, h, block, n, seed, tier = item
    key = hashlib.sha256(b"c12key%d" % seed).digest()[:DIGEST[h]]
    seq = struct.pack(">Q", 0x0102030405060708 ^ seed)
    d = DIGEST[h]
    fails, outcomes = [], set()
    n_eval = n_true = 0
    pads = list(range(192, 256)) + [0, 1, 15, 16, 64, 128, 191]
    if version == (3, 0):
        pads = list(range(0, block + 2))
    for p in pads:
        body, wf = build(version, h, key, seq, 23, n, p, block,
                         (n * 7 + p) & 0xff)
        if not wf:
            continue
        dl = n - p - 1 - d
        posns = sorted(set(x for x in (
            0, dl - 1, dl, dl + d // 2, dl + d - 1, dl + d, n - 257,
            n - 256 - d, n - 256 - d - 1, n - 2) if 0 <= x < n - 1))
        for pos in [None] + posns:
            b2 = bytearray(body)
            if pos is not None:
                b2[pos] ^= 0x01
            b2 = bytes(b2)
            w2 = spec(version, h, key, seq, 23, b2, block)
            g2 = lib_check(version, h, key, seq, 23, b2, block)
            n_eval += 1
            n_true += bool(g2)
            outcomes.add((w2, g2))
            if w2 is not None and g2 != w2:
                fails.append({"version": version, "mac": h, "block": block,
                              "len": n, "pad": p, "want": w2, "got": g2,
                              "corrupt": None if pos is None else
                              [pos, 1]})
                if len(fails) > 5:
                    return n_eval, n_true, fails, outcomes
    return n_eval, n_true, fails, outcomes


# ---------------------------------------------------------------- recvRecord
def recv_work(item):
    """Bodies built by the independent sender, through RecordLayer."""
    from .. import scen as S
    from .. import refrecord
    from tlslite.recordlayer import RecordLayer
    sid, version, seed = item
    info = S.ALL_INFOS[sid]
    fails = []
    n_eval = 0
    outcomes = set()
    master = hashlib.sha384(b"c12ms%d" % seed).digest()
    cr = hashlib.sha256(b"cr%d" % seed).digest()
    sr = hashlib.sha256(b"sr%d" % seed).digest()
    bs = info.blocklen
    cases = []
    for n in (0, 1, bs - 1, bs, bs + 1, 3 * bs, 100):
        for padblocks in (0, 1, 3, 15):
            cases.append((n, padblocks, None))
        cases.append((n, 0, "badmac"))
        cases.append((n, 0, "badpad"))
        cases.append((n, 0, "padlen+bs"))
    for (n, padblocks, bad) in cases:
        w = W.World()
        rl = RecordLayer(w.ssock)
        rl.client = False
        rl.version = version
        rl.calcPendingStates(sid, bytearray(master), bytearray(cr),
                             bytearray(sr), ["python"])
        rl.changeReadState()
        rc = refrecord.RefConn.from_master(info, version, False, master, cr,
                                           sr)
        data = pattern(n, n)
        mlen = info.maclen
        base_pad = (bs - 1 - (n + mlen) % bs)
        pad_len = base_pad + bs * padblocks
        kw = {}
        expect_ok = True
        if version == (3, 0) and pad_len >= bs:
            if pad_len > bs:
                expect_ok = False
            else:
                expect_ok = None
        if pad_len > 255:
            continue
        kw["pad_len"] = pad_len
        if bad == "badmac":
            kw["bad_mac"] = True
            expect_ok = False
        elif bad == "badpad":
            if pad_len == 0:
                continue
            kw["pad_bytes"] = bytes([pad_len ^ 1]) + bytes([pad_len]) * (
                pad_len - 1)
            expect_ok = False if version > (3, 0) else True
        elif bad == "padlen+bs":
            # claim one block more padding than there is room for data+mac
            kw["pad_bytes"] = bytes([pad_len]) * pad_len
            kw["pad_len"] = min(255, pad_len + n + mlen + 1)
            if kw["pad_len"] != pad_len + n + mlen + 1:
                continue
            expect_ok = False
        rec = rc.seal("c2s", 23, data, **kw)
        w.c2s.write(rec)
        got = None
        try:
            for r in rl.recvRecord():
                if r in (0, 1):
                    got = ("block",)
                    break
                got = ("ok", bytes(r[1].bytes))
                break
        except Exception as e:  # noqa
            got = ("exc", type(e).__name__)
        n_eval += 1
        outcomes.add((expect_ok, got[0]))
        if expect_ok is True and got != ("ok", data):
            fails.append({"suite": info.name, "version": version, "n": n,
                          "pad": pad_len, "bad": bad, "got": repr(got)[:80],
                          "want": "accept"})
        if expect_ok is False and (got[0] != "exc" or got[1] not in (
                "TLSBadRecordMAC", "TLSDecryptionFailed")):
            fails.append({"suite": info.name, "version": version, "n": n,
                          "pad": pad_len, "bad": bad, "got": repr(got)[:80],
                          "want": "reject"})
    return n_eval, fails, outcomes


def run(res, tier, seed):
    res.coverage["rule"] = (
        "every (version, MAC, block size) x body length in the boundary set "
        "(quick) / 0..L (thorough) x all 256 claimed padding lengths, bodies "
        "well-formed where the protocol allows; every single-byte XOR "
        "(0x01,0xff) of well-formed bodies for selected paddings; each "
        "evaluated by ct_check_cbc_mac_and_pad and by an 8-line spec; plus "
        "records sealed by the independent record layer through "
        "RecordLayer.recvRecord() for every CBC suite; non-trivial = body "
        "long enough to hold a MAC")
    combos = []
    for v in ((3, 1), (3, 2), (3, 3)):
        for h in ("md5", "sha1", "sha256", "sha384"):
            combos.append((v, h, 16))
        combos.append((v, "sha1", 8))
    for h in ("md5", "sha1"):
        for b in (8, 16):
            combos.append(((3, 0), h, b))
    items = []
    for (v, h, b) in combos:
        d = DIGEST[h]
        if tier == "quick":
            ls = sorted(set([0, 1, d, d + 1, d + 2, d + 16, d + 17, 255, 256,
                             257, 256 + d - 1, 256 + d, 256 + d + 1, 320]))
            if v in ((3, 2), (3, 3)) and h in ("md5", "sha384"):
                ls = [d, d + 1, d + 17, 256 + d, 256 + d + 1]
            corrupt = [d + 1, d + 17] if v in ((3, 1), (3, 0)) or \
                h == "sha256" else []
            for n in ls:
                items.append((v, h, b, [n], seed,
                              [n] if n in corrupt else False))
        else:
            for n in range(0, 330):
                items.append((v, h, b, [n], seed,
                              [n] if n in (d + 1, d + 17, 256 + d + 1)
                              else []))
    # longest first for load balance
    items.sort(key=lambda it: -(it[3][0] * (40 if it[5] else 1)))
    total = 0
    accepted = 0
    for (n_eval, n_true, fails, outcomes) in pmap(work, items, chunksize=1):
        total += n_eval
        accepted += n_true
        res.count(n_eval)
        for o in outcomes:
            res.outcome(("fn",) + o)
        for f in fails:
            res.violation({"part": "function", "version": f["version"],
                           "mac": f["mac"], "want": f["want"],
                           "corrupt": f["corrupt"] is not None}, f,
                          {"part": "function", "case": f})
    res.sample({"version": [3, 1], "mac": "sha1", "block": 16, "len": 37,
                "pad": 15, "body": "data(1)||HMAC||0f*16 -> True"})
    res.section("function", combos=len(combos), evaluations=total,
                accepted=accepted)
    litems = []
    for (v, h, b) in combos:
        for n in long_lengths(h, tier):
            litems.append((v, h, b, n, seed, tier))
    ltotal = 0
    for (n_eval, n_true, fails, outcomes) in pmap(work_long, litems,
                                                  chunksize=2):
        ltotal += n_eval
        res.count(n_eval)
        for o in outcomes:
            res.outcome(("long",) + o)
        for f in fails:
            res.violation({"part": "function-long", "version": f["version"],
                           "mac": f["mac"], "want": f["want"],
                           "corrupt": f["corrupt"] is not None}, f,
                          {"part": "function", "case": f})
    res.section("function_long_bodies", lengths_per_combo=len(
        long_lengths("sha1", tier)), evaluations=ltotal,
        corruption="single bit at data/MAC/padding/scan-window boundaries")
    total += ltotal
    from .. import scen as S
    ritems = []
    for (v, sid) in S.suite_version_pairs():
        info = S.ALL_INFOS[sid]
        if info.mode == "CBC" and v <= (3, 3):
            if tier == "quick" and info.kex not in ("RSA", "ECDHE"):
                continue
            ritems.append((sid, v, seed))
    rtotal = 0
    for (n_eval, fails, outcomes) in pmap(recv_work, ritems):
        rtotal += n_eval
        res.count(n_eval)
        for o in outcomes:
            res.outcome(("recv",) + o)
        for f in fails:
            res.violation({"part": "recvRecord", "suite": f["suite"],
                           "version": f["version"], "want": f["want"],
                           "bad": f["bad"]}, f,
                          {"part": "recvRecord", "case": f})
    res.section("recvRecord", suites_x_versions=len(ritems),
                records=rtotal)
    res.coverage["distinct_nontrivial"] = total + rtotal
    res.assumptions.append("SSLv3 padding of exactly one block is left open "
                           "(the statement 'at most one block' admits both "
                           "readings)")


def replay(case, seed):
    c = case["case"]
    if case["part"] == "function":
        v = tuple(c["version"])
        key = hashlib.sha256(b"c12key%d" % seed).digest()[:DIGEST[c["mac"]]]
        seq = struct.pack(">Q", 0x0102030405060708 ^ seed)
        body, wf = build(v, c["mac"], key, seq, 23, c["len"], c["pad"],
                         c["block"], (c["len"] * 7 + c["pad"]) & 0xff)
        if c["corrupt"]:
            b2 = bytearray(body)
            b2[c["corrupt"][0]] ^= c["corrupt"][1]
            body = bytes(b2)
        return {"body": body.hex(),
                "spec": spec(v, c["mac"], key, seq, 23, body, c["block"]),
                "library": lib_check(v, c["mac"], key, seq, 23, body,
                                     c["block"])}
    return {"note": "re-run ./check C12", "case": c}
