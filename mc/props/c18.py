"""C18 - shared objects stay correct under every thread interleaving.

Deciding method: (1) controlled-thread exploration: real threads, line-level
yield points in the target modules, scheduler-aware locks, every schedule
with <= 2 (quick) / <= 3 (thorough) preemptions of every thread-body
combination from a small alphabet, checked for linearizability against the
object run sequentially, for invariants at every yield point and for
deadlock; (2) explicit-state enumeration of all sequential cache histories
up to a depth against a dictionary-with-timestamps reference model.
"""
import copy
import itertools

from .. import world as W
from .. import threads as T
from ..core import pmap
from ..world import SEAMS
from tlslite.sessioncache import SessionCache
from tlslite.session import Session
from tlslite.utils.python_rsakey import Python_RSAKey
from tlslite.verifierdb import VerifierDB

LEVEL = "model_checking"
MAXAGE = 10


def mk_session(label):
    s = Session()
    s.sessionID = bytearray(label.encode())
    s.resumable = True
    s.label = label
    return s


# ---------------------------------------------------------------- cache ops
def apply_cache_op(cache, sessions, op):
    """Run one operation on a (real) cache; returns a comparable result."""
    kind = op[0]
    try:
        if kind == "set":
            cache[bytearray(op[1].encode())] = sessions[op[2]]
            return ("ok",)
        if kind == "get":
            called_at = SEAMS.now
            s = cache[bytearray(op[1].encode())]
            # the cache's own record of when this ID was (last) stored,
            # against the clock when the lookup was *called* (the clock may
            # move on while the lookup runs)
            sid = bytes(op[1].encode())
            ts = [e[1] for e in cache.entriesList if e and e[0] == sid]
            if ts and called_at - max(ts) > cache.maxAge:
                return ("hit-expired", getattr(s, "label", "?"),
                        called_at - max(ts))
            return ("hit", getattr(s, "label", "?"))
        if kind == "tick":
            SEAMS.now += op[1]
            return ("ok",)
        if kind == "inval":
            sessions[op[1]].resumable = False
            return ("ok",)
    except KeyError:
        return ("KeyError",)
    except BaseException as e:  # noqa
        if isinstance(e, T._Abort):
            raise
        return ("exc", type(e).__name__)
    raise AssertionError(op)


def fresh_cache(max_entries, prepop):
    SEAMS.now = 1000.0
    cache = SessionCache(maxEntries=max_entries, maxAge=MAXAGE)
    sessions = dict((l, mk_session(l)) for l in ("s0", "s1", "s2", "s3",
                                                 "s4", "s5"))
    for (k, sl) in prepop:
        cache[bytearray(k.encode())] = sessions[sl]
    return cache, sessions


def sequential_results(max_entries, prepop, ops_in_order):
    cache, sessions = fresh_cache(max_entries, prepop)
    return [apply_cache_op(cache, sessions, op) for op in ops_in_order]


def linearizable(history, replay_fn):
    """history: list of (op, call, ret, result).  Brute force: is there an
    order consistent with real time whose sequential replay gives the
    observed results?"""
    n = len(history)
    idx = list(range(n))
    for perm in itertools.permutations(idx):
        ok = True
        pos = dict((p, i) for i, p in enumerate(perm))
        for a in idx:
            for b in idx:
                if history[a][2] < history[b][1] and pos[a] > pos[b]:
                    ok = False
                    break
            if not ok:
                break
        if not ok:
            continue
        res = replay_fn([history[p][0] for p in perm])
        if all(res[i] == history[p][3] for i, p in enumerate(perm)):
            return True
    return False


def cache_combo(item):
    """One thread-body combination for the SessionCache harness."""
    max_entries, prepop, bodies_ops, bound = item
    stats = {"schedules": 0, "fails": [], "outcomes": set(),
             "complete": True}

    def make_bodies():
        cache, sessions = fresh_cache(max_entries, prepop)
        hist = []
        ctx = {"cache": cache, "hist": hist, "sessions": sessions}

        def mk(tid, ops):
            def body(sched):
                for op in ops:
                    sched.clock += 1
                    call = sched.clock
                    r = apply_cache_op(cache, sessions, op)
                    sched.clock += 1
                    hist.append((op, call, sched.clock, r))
            return body
        bodies = [mk(i, ops) for i, ops in enumerate(bodies_ops)]
        ctx["lock"] = None
        return bodies, ctx

    def make_bodies_locked():
        bodies, ctx = make_bodies()
        return bodies, ctx

    def inv(sched, ctx):
        c = ctx["cache"]
        if not c.lock.locked():
            if len(c.entriesDict) > len(c.entriesList):
                return "size bound exceeded: %d entries" % len(c.entriesDict)
        return None

    def on_exec(s, ctx):
        stats["schedules"] += 1
        hist = ctx["hist"]
        sig = tuple(sorted((repr(h[0]), h[3]) for h in hist))
        stats["outcomes"].add(sig)
        why = None
        if s.deadlock:
            why = "deadlock / no progress"
        elif any(w.exc is not None for w in s.workers):
            why = "thread raised %r" % [w.exc for w in s.workers if w.exc]
        elif s.inv_fail:
            why = s.inv_fail
        elif any(h[3][0] == "hit-expired" for h in hist):
            why = "served an entry the cache itself recorded as older " \
                "than maxAge: %r" % ([(h[0], h[3]) for h in hist],)
        elif not linearizable(hist, lambda ops: sequential_results(
                max_entries, prepop, ops)):
            why = "history not linearizable: %r" % (
                [(h[0], h[3]) for h in hist],)
        if why and len(stats["fails"]) < 3:
            stats["fails"].append({"why": why, "schedule": list(s.taken),
                                   "bodies": bodies_ops,
                                   "prepop": list(prepop)})

    # the lock has to be substituted inside make_bodies: wrap
    def mb():
        bodies, ctx = make_bodies()
        # late binding of the scheduler: SchedLock needs the Sched object,
        # which explore() creates after make_bodies(); use a proxy
        ctx["cache"].lock = _LateLock()
        return bodies, ctx

    n, complete = explore_with_late_locks(mb, ("sessioncache.py",), bound,
                                          inv, on_exec,
                                          lambda ctx: [ctx["cache"].lock])
    stats["complete"] = complete
    stats["outcomes"] = len(stats["outcomes"])
    return stats


class _LateLock(T.SchedLock):
    def __init__(self):
        T.SchedLock.__init__(self, None, "lock")


def explore_with_late_locks(make_bodies, files, bound, inv, on_exec,
                            locks_of, max_execs=200000, roots=None,
                            only_root=False):
    """threads.explore, binding the substituted locks to each Sched.
    roots: list of schedule prefixes to start from (sharding);
    only_root: run the empty schedule only and return its children."""
    stack = [list(r) for r in roots] if roots is not None else [[]]
    n = 0
    while stack:
        prefix = stack.pop()
        bodies, ctx = make_bodies()
        s = T.Sched(bodies, files, prefix, invariant=(
            (lambda sc, c=ctx: inv(sc, c)) if inv else None))
        for lk in locks_of(ctx):
            lk.sched = s
        s.run()
        n += 1
        on_exec(s, ctx)
        if n >= max_execs:
            return n, False
        children = []
        for i in range(len(prefix), len(s.points)):
            order, rse = s.points[i]
            cost = s.preemptions_before(i)
            for alt in range(1, len(order)):
                if cost + (1 if rse else 0) > bound:
                    continue
                children.append(s.taken[:i] + [alt])
        if only_root:
            return n, children
        stack.extend(children)
    return n, True


# ---------------------------------------------------------------- RSA
_RSA = {}


def rsa_key():
    if "k" not in _RSA:
        save = SEAMS.current
        SEAMS.reset(1234, "c18-rsa")
        SEAMS.current = "rsa-gen"
        _RSA["k"] = Python_RSAKey.generate(512)
        SEAMS.current = save
    return _RSA["k"]


def rsa_combo(item):
    nthreads, nops, bound, seed, roots = item
    base = rsa_key()
    stats = {"schedules": 0, "fails": [], "outcomes": set(),
             "complete": True, "children": None}
    msgs = [[(7 + 13 * t + 101 * k) * 65537 + 12345 for k in range(nops)]
            for t in range(nthreads)]

    def mb():
        SEAMS.reset(seed, "c18-rsa-run")
        key = copy.deepcopy(base)
        key.blinder = 0
        key.unblinder = 0
        key._lock = _LateLock()
        results = {}

        def mk(t):
            def body(sched):
                for k, m in enumerate(msgs[t]):
                    results[(t, k)] = key._rawPrivateKeyOp(m)
            return body
        return [mk(t) for t in range(nthreads)], {"key": key,
                                                   "results": results}

    def inv(sched, ctx):
        k = ctx["key"]
        if not k._lock.locked() and k.blinder:
            if (k.blinder * pow(k.unblinder, k.e, k.n)) % k.n != 1:
                return "blinding pair inconsistent while lock is free"
        return None

    def on_exec(s, ctx):
        stats["schedules"] += 1
        k = ctx["key"]
        why = None
        if s.deadlock:
            why = "deadlock"
        elif any(w.exc is not None for w in s.workers):
            why = "thread raised %r" % [w.exc for w in s.workers if w.exc]
        elif s.inv_fail:
            why = s.inv_fail
        else:
            for (t, i), r in ctx["results"].items():
                if r != pow(msgs[t][i], k.d, k.n):
                    why = "wrong RSA result for thread %d op %d" % (t, i)
        stats["outcomes"].add((k.blinder % 1000003, len(s.points)))
        if why and len(stats["fails"]) < 3:
            stats["fails"].append({"why": why, "schedule": list(s.taken),
                                   "threads": nthreads, "ops": nops})

    if roots is None:
        n, children = explore_with_late_locks(
            mb, ("python_rsakey.py",), bound, inv, on_exec,
            lambda ctx: [ctx["key"]._lock], only_root=True)
        stats["children"] = children
    else:
        n, complete = explore_with_late_locks(
            mb, ("python_rsakey.py",), bound, inv, on_exec,
            lambda ctx: [ctx["key"]._lock], roots=roots)
        stats["complete"] = complete
    stats["outcomes"] = len(stats["outcomes"])
    return stats


# ---------------------------------------------------------------- VerifierDB
_VER = {}


def verifiers():
    if "v" not in _VER:
        save = SEAMS.current
        SEAMS.reset(99, "c18-ver")
        SEAMS.current = "ver-gen"
        _VER["v"] = [VerifierDB.makeVerifier(b"u", b"pw%d" % i, 1024)
                     for i in range(2)]
        SEAMS.current = save
    return _VER["v"]


def apply_db_op(db, op, vs):
    try:
        if op[0] == "set":
            db[op[1]] = vs[op[2]]
            return ("ok",)
        if op[0] == "get":
            v = db[op[1]]
            return ("val", vs.index(v) if v in vs else repr(v)[:20])
        if op[0] == "del":
            del db[op[1]]
            return ("ok",)
        if op[0] == "in":
            return ("bool", op[1] in db)
        if op[0] == "keys":
            return ("keys", tuple(sorted(db.keys())))
    except KeyError:
        return ("KeyError",)
    except BaseException as e:  # noqa
        if isinstance(e, T._Abort):
            raise
        return ("exc", type(e).__name__)


def dict_model_results(ops, vs, prepop):
    d = {}
    for (k, i) in prepop:
        d[k] = i
    out = []
    for op in ops:
        if op[0] == "set":
            d[op[1]] = op[2]
            out.append(("ok",))
        elif op[0] == "get":
            out.append(("val", d[op[1]]) if op[1] in d else ("KeyError",))
        elif op[0] == "del":
            if op[1] in d:
                del d[op[1]]
                out.append(("ok",))
            else:
                out.append(("KeyError",))
        elif op[0] == "in":
            out.append(("bool", op[1] in d))
        elif op[0] == "keys":
            out.append(("keys", tuple(sorted(d))))
    return out


def db_combo(item):
    bodies_ops, prepop, bound = item[:3]
    ondisk = len(item) > 3 and item[3]
    vs = verifiers()
    stats = {"schedules": 0, "fails": [], "outcomes": set(),
             "complete": True}
    tmpdir = None
    opened = []
    files = ("basedb.py", "verifierdb.py")
    if ondisk:
        import tempfile
        tmpdir = tempfile.mkdtemp(prefix="c18-db-")
        # the pure-Python dbm backend takes part in the schedule: its flush
        # walks the live index
        files = files + ("dbm/dumb.py",)

    def mb():
        if ondisk:
            import os
            while opened:           # the previous execution's handle
                try:
                    opened.pop().db.close()
                except Exception:   # noqa
                    pass
            db = VerifierDB(os.path.join(tmpdir, "db"))
            opened.append(db)
        else:
            db = VerifierDB()
        db.create()
        for (k, i) in prepop:
            db[k] = vs[i]
        db.lock = _LateLock()
        hist = []

        def mk(ops):
            def body(sched):
                for op in ops:
                    sched.clock += 1
                    call = sched.clock
                    r = apply_db_op(db, op, vs)
                    sched.clock += 1
                    hist.append((op, call, sched.clock, r))
            return body
        return [mk(ops) for ops in bodies_ops], {"db": db, "hist": hist}

    def on_exec(s, ctx):
        stats["schedules"] += 1
        hist = ctx["hist"]
        stats["outcomes"].add(tuple(sorted(((repr(h[0]), h[3])
                                            for h in hist), key=repr)))
        why = None
        if s.deadlock:
            why = "deadlock"
        elif any(w.exc is not None for w in s.workers):
            why = "thread raised %r" % [w.exc for w in s.workers if w.exc]
        elif not linearizable(hist, lambda ops: dict_model_results(
                ops, vs, prepop)):
            why = "history not linearizable w.r.t. a dict: %r" % (
                [(h[0], h[3]) for h in hist],)
        if why and len(stats["fails"]) < 3:
            stats["fails"].append({"why": why, "schedule": list(s.taken),
                                   "bodies": bodies_ops})

    try:
        n, complete = explore_with_late_locks(
            mb, files, bound, None, on_exec, lambda ctx: [ctx["db"].lock])
    finally:
        while opened:
            try:
                opened.pop().db.close()
            except Exception:   # noqa
                pass
        if tmpdir:
            import shutil
            shutil.rmtree(tmpdir, ignore_errors=True)
    stats["complete"] = complete
    stats["outcomes"] = len(stats["outcomes"])
    return stats


# ---------------------------------------------------------------- sequential
class CacheModel(object):
    """Dictionary with timestamps: what the statement defines."""

    def __init__(self, max_entries):
        self.max = max_entries
        self.last = {}      # key -> (time, session label, store counter)
        self.stores = 0
        self.valid = {}

    def copy(self):
        m = CacheModel(self.max)
        m.last = dict(self.last)
        m.stores = self.stores
        m.valid = dict(self.valid)
        return m

    def expect_get(self, key, now):
        """'hit:<label>' | 'miss' | 'open:<label>'"""
        if key not in self.last:
            return "miss"
        t, lab, cnt = self.last[key]
        if now - t > MAXAGE:
            return "miss"
        if not self.valid.get(lab, True):
            return "miss"
        since = self.stores - cnt
        if since < self.max - 1:
            return "hit:" + lab
        if since >= self.max:
            return "miss"
        return "open:" + lab


def seq_search(item):
    max_entries, depth, first_op = item
    alphabet = []
    for k in ("A", "B", "C"):
        alphabet.append(("set", k))
    for k in ("A", "B", "C"):
        alphabet.append(("get", k))
    for k in ("A", "B"):
        alphabet.append(("inval", k))
    for d in (1, MAXAGE, MAXAGE + 1):
        alphabet.append(("tick", d))
    stats = {"states": 0, "transitions": 0, "fails": [], "outcomes": set(),
             "per_class": {}}

    def step(cache, model, sess_of_key, now, op, counter):
        """Apply op to the real cache and the model; returns failure or
        None, and new (now, counter)."""
        SEAMS.now = now
        if op[0] == "set":
            lab = "s%d" % counter
            s = mk_session(lab)
            try:
                cache[bytearray(op[1].encode())] = s
            except BaseException as e:  # noqa
                return "set raised %s" % type(e).__name__, now, counter
            model.stores += 1
            model.last[op[1]] = (now, lab, model.stores)
            model.valid[lab] = True
            sess_of_key[op[1]] = s
            return None, now, counter + 1
        if op[0] == "inval":
            s = sess_of_key.get(op[1])
            if s is not None:
                s.resumable = False
                model.valid[s.label] = False
            return None, now, counter
        if op[0] == "tick":
            return None, now + op[1], counter
        exp = model.expect_get(op[1], now)
        try:
            s = cache[bytearray(op[1].encode())]
            got = "hit:" + s.label
        except KeyError:
            got = "miss"
        except BaseException as e:  # noqa
            return "get raised %s" % type(e).__name__, now, counter
        stats["outcomes"].add((exp.split(":")[0], got.split(":")[0]))
        if exp.startswith("open:"):
            if got not in ("miss", "hit:" + exp[5:]):
                return "get returned %s, last stored %s" % (got, exp), now, \
                    counter
        elif got != exp:
            return "get -> %s, model says %s" % (got, exp), now, counter
        return None, now, counter

    def rec(cache, model, sess_of_key, now, counter, hist, d):
        stats["states"] += 1
        if d == 0:
            return
        for op in alphabet:
            if len(hist) == 0 and first_op is not None and op != first_op:
                continue
            c2 = copy.deepcopy((cache, sess_of_key))
            cache2, sk2 = c2
            m2 = model.copy()
            fail, now2, cnt2 = step(cache2, m2, sk2, now, op, counter)
            stats["transitions"] += 1
            h2 = hist + [op]
            if fail:
                # histories that store twice under one ID (a known finding)
                # must not crowd out other failures: cap per class
                sets = [o[1] for o in h2 if o[0] == "set"]
                dup = len(sets) != len(set(sets))
                cls = (dup, fail[:25])
                stats["per_class"][cls] = stats["per_class"].get(cls, 0) + 1
                if stats["per_class"][cls] <= 6:
                    stats["fails"].append({
                        "history": h2, "why": fail, "dup": dup,
                        "max_entries": max_entries})
                continue
            rec(cache2, m2, sk2, now2, cnt2, h2, d - 1)

    SEAMS.now = 1000.0
    cache = SessionCache(maxEntries=max_entries, maxAge=MAXAGE)
    cache.lock = _NullLock()
    rec(cache, CacheModel(max_entries), {}, 1000.0, 0, [], depth)
    stats["outcomes"] = sorted(stats["outcomes"])
    del stats["per_class"]
    return stats, max_entries, first_op, alphabet


class _NullLock(object):
    def acquire(self, *a):
        return True

    def release(self):
        pass

    def locked(self):
        return False

    def __deepcopy__(self, memo):
        return self


def run(res, tier, seed):
    res.coverage["rule"] = (
        "concurrent: every schedule with <=b preemptions (b=2 quick, 3 "
        "thorough) at line-level yield points of every thread-body "
        "combination (SessionCache: 2 threads x 1-2 ops from {set A, set B, "
        "get A, get B} + background {none, tick past maxAge, invalidate}; "
        "RSA key: 2-3 threads x 1-2 private operations incl. blinding "
        "initialisation; VerifierDB: 2 threads x 1-2 ops on colliding "
        "names), checked for linearizability, invariants and deadlock; "
        "sequential: every SessionCache history up to depth d over 11 "
        "operations for maxEntries 1..4 against the timestamp-dictionary "
        "model; non-trivial = at least two operations touch the same key")
    bound = 2 if tier == "quick" else 3
    ops1 = [("set", "A", "s1"), ("set", "B", "s2"), ("get", "A"),
            ("get", "B")]
    bodies1 = [[o] for o in ops1] + [[a, b] for a in ops1 for b in ops1
                                      if a != b]
    bg = [None, [("tick", MAXAGE + 1)], [("inval", "s0")]]
    items = []

    def cache_items(t, bnd):
        for me in ((3,) if t == "quick" else (2, 3)):
            for b1 in bodies1:
                for b2 in ([[o] for o in ops1] if t == "quick" else bodies1):
                    if repr(b2) < repr(b1) and len(b2) == len(b1):
                        continue
                    for g in bg:
                        bodies = [b1, b2] + ([g] if g else [])
                        if t == "quick" and g and len(b1) > 1:
                            continue
                        it = (me, [("A", "s0")], bodies, bnd)
                        if not any(x[:3] == it[:3] and x[3] >= bnd
                                   for x in items):
                            items.append(it)
    if tier == "quick":
        cache_items("quick", 2)
    else:
        # the quick set one preemption deeper, the wider set at bound 2
        cache_items("quick", 3)
        cache_items("thorough", 2)
    # clock moving while stores are in flight: one thread stores, the other
    # advances the clock around its own store and then looks an ID up
    half = MAXAGE // 2 + 1
    n_skew = 0
    for t1 in ([("set", "A", "s1")], [("set", "B", "s2")],
               [("set", "A", "s1"), ("get", "A")]):
        for a in (1, half, MAXAGE + 1):
            for b in (1, half, MAXAGE + 1):
                for x in ("A", "B"):
                    for y in ("A", "B"):
                        t2 = [("tick", a), ("set", x, "s3"), ("tick", b),
                              ("get", y)]
                        items.append((3, [], [t1, t2], 2))
                        n_skew += 1
    sch = 0
    incomplete = 0
    for st in pmap(cache_combo, items, chunksize=2):
        sch += st["schedules"]
        res.count(st["schedules"])
        res.outcome(("cache", st["outcomes"] > 1))
        if not st["complete"]:
            incomplete += 1
        for f in st["fails"]:
            # (an ID stored twice - prepopulated and set again, or set by two
            # bodies - is the input of the known duplicate-ID defect)
            ids = [op[1] for b in f.get("bodies", []) if b for op in b
                   if op and op[0] == "set"] + \
                [k for (k, _) in f.get("prepop", [])]
            dup = len(ids) != len(set(ids))
            res.violation({"part": "cache-concurrent", "why": f["why"][:50],
                           "duplicate_id_in_history": dup},
                          f, {"part": "cache-concurrent", "case": f})
    res.section("cache_concurrent", combos=len(items), schedules=sch,
                preemption_bound={"quick set": bound, "wider set": 2,
                                  "clock skew": 2}, capped=incomplete,
                clock_skew_combos=n_skew)
    res.sample({"harness": "SessionCache", "threads": items[5][2],
                "prepopulated": items[5][1], "maxEntries": items[5][0]})
    # RSA
    # (three threads stay at bound 2: the tree is only sharded at depth 1,
    # one shard of (3, 1, bound 3) runs for more than the item time limit)
    rcombos = [(2, 1, bound), (2, 2, bound if tier == "thorough" else 1),
               (3, 1, 2 if tier == "thorough" else 1)]
    if tier == "thorough":
        rcombos.append((3, 2, 1))
    ritems = []
    for (nt, no, b) in rcombos:
        st = rsa_combo((nt, no, b, seed, None))
        res.count(1)
        for f in st["fails"]:
            res.violation({"part": "rsa-concurrent", "why": f["why"][:50]},
                          f, {"part": "rsa-concurrent", "case": f})
        ch = st["children"]
        k = max(1, len(ch) // 48)
        for i in range(0, len(ch), k):
            ritems.append((nt, no, b, seed, ch[i:i + k]))
    rs = len(rcombos)
    for st in pmap(rsa_combo, ritems, chunksize=1):
        rs += st["schedules"]
        res.count(st["schedules"])
        res.outcome(("rsa", st["outcomes"]))
        if not st["complete"]:
            incomplete += 1
        for f in st["fails"]:
            res.violation({"part": "rsa-concurrent", "why": f["why"][:50]},
                          f, {"part": "rsa-concurrent", "case": f})
    res.section("rsa_concurrent", combos=rcombos, shards=len(ritems),
                schedules=rs)
    # VerifierDB
    dops = [("set", b"u", 0), ("set", b"u", 1), ("get", b"u"), ("del", b"u"),
            ("in", b"u"), ("keys",), ("set", b"w", 1)]
    dbodies = [[o] for o in dops] + ([[a, b] for a in dops for b in dops]
                                     if tier == "thorough" else
                                     [[a, b] for a in dops[:4]
                                      for b in dops[:4]])
    ditems = []
    quick_bodies = [[o] for o in dops] + [[a, b] for a in dops[:4]
                                         for b in dops[:4]]
    for b1 in dbodies:
        for b2 in [[o] for o in dops]:
            # (thorough: bound 3 on the quick set, 2 on the rest)
            ditems.append(([b1, b2], [(b"u", 0)],
                           bound if b1 in quick_bodies else 2))
    # the same store on disk (anydbm; here the pure-Python dbm.dumb): the
    # operations that change the index, pairwise
    odops = [("set", b"w", 1), ("set", b"x", 0), ("del", b"u"),
             ("set", b"u", 1), ("get", b"u"), ("keys",)]
    for a in odops:
        for b in odops[:4]:
            ditems.append(([[a], [b]], [(b"u", 0)], 2, True))
    ds = 0
    for st in pmap(db_combo, ditems, chunksize=2):
        ds += st["schedules"]
        res.count(st["schedules"])
        res.outcome(("db", st["outcomes"] > 1))
        if not st["complete"]:
            incomplete += 1
        for f in st["fails"]:
            res.violation({"part": "db-concurrent", "why": f["why"][:50]},
                          f, {"part": "db-concurrent", "case": f})
    res.section("verifierdb_concurrent", combos=len(ditems), schedules=ds)
    # sequential
    depth = 4 if tier == "quick" else 6
    sitems = []
    for me in (1, 2, 3, 4):
        for fo in [("set", "A"), ("set", "B"), ("set", "C"), ("get", "A"),
                   ("tick", 1), ("tick", MAXAGE + 1), ("inval", "A"),
                   ("get", "B"), ("get", "C"), ("inval", "B"),
                   ("tick", MAXAGE)]:
            sitems.append((me, depth, fo))
    states = trans = 0
    for (st, me, fo, alphabet) in pmap(seq_search, sitems, chunksize=1):
        states += st["states"]
        trans += st["transitions"]
        res.count(st["transitions"])
        for o in st["outcomes"]:
            res.outcome(("seq",) + tuple(o))
        for f in st["fails"]:
            key = {"part": "cache-sequential", "why": f["why"][:40],
                   "max_entries": me}
            if f["dup"]:
                key = {"part": "cache-sequential",
                       "duplicate_id_in_history": True}
            res.violation(key, f, {"part": "cache-sequential", "case": f})
    res.sample({"harness": "sequential SessionCache", "history":
                [("set", "A"), ("tick", 10), ("get", "A"), ("tick", 1),
                 ("get", "A")], "maxEntries": 3})
    res.section("cache_sequential", depth=depth, states=states,
                transitions=trans, max_entries=[1, 2, 3, 4])
    res.coverage["states"] = states
    res.coverage["transitions"] = trans + sch + rs + ds
    res.coverage["traces_validated_against_impl"] = sch + rs + ds + trans
    res.coverage["distinct_nontrivial"] = sch + rs + ds + states
    if incomplete:
        res.cap("%d thread-body combinations hit the schedule cap" %
                incomplete)
    res.assumptions += [
        "preemption at source-line granularity inside sessioncache.py, "
        "python_rsakey.py, basedb.py, verifierdb.py and at every lock "
        "acquire/release; interleavings inside one line are not explored",
        "'plus stress' in the property's quantifier is sampling and is not "
        "done"]


def replay(case, seed):
    return {"note": "re-run ./check C18", "case": case}
