"""C19 - settings validation is pure and idempotent; compatible settings
connect.

Deciding method: exhaustive enumeration of every HandshakeSettings object
reachable from the defaults by changing <= d dimensions to a value from that
dimension's finite menu (product enumerator), each one checked against the
oracle; then every pair of validated settings (<= 1 change per side) x
credential type run as a live handshake against an independently computed
sufficient condition for success.
"""
import copy
import itertools

from .. import world as W
from .. import scen as S
from .. import ianasuite
from ..core import pmap
from tlslite.handshakesettings import HandshakeSettings
from tlslite.constants import SignatureScheme

LEVEL = "exploration"

# ---------------------------------------------------------------- menus
# (attribute, [(label, value, in_domain)])
IN, OUT = True, False


def menus():
    M = []

    def dim(attr, *vals):
        M.append((attr, list(vals)))

    dim("minVersion", ("ssl3", (3, 0), IN), ("tls12", (3, 3), IN),
        ("tls13", (3, 4), IN), ("bad35", (3, 5), OUT), ("bad20", (2, 0), OUT))
    dim("maxVersion", ("tls10", (3, 1), IN), ("tls12", (3, 3), IN),
        ("bad35", (3, 5), OUT), ("bad02", (0, 2), OUT))
    dim("versions", ("rev", [(3, 1), (3, 2), (3, 3), (3, 4)], IN),
        ("only12", [(3, 3)], IN), ("dup", [(3, 4), (3, 4), (3, 3)], IN),
        ("unknown", [(9, 9)], OUT), ("tls14", [(3, 3), (3, 5)], OUT),
        ("ssl2", [(2, 0), (3, 3)], OUT))
    dim("cipherNames", ("first", ["chacha20-poly1305"], IN),
        ("last", ["3des"], IN),
        ("rev", ["3des", "aes128", "aes256", "aes128ccm", "aes256ccm",
                 "aes128gcm", "aes256gcm", "chacha20-poly1305"], IN),
        ("all", ["chacha20-poly1305", "aes256gcm", "aes128gcm", "aes256ccm",
                 "aes128ccm", "aes256", "aes128", "3des",
                 "chacha20-poly1305_draft00", "aes128ccm_8", "aes256ccm_8",
                 "rc4", "null"], IN),
        ("dup", ["aes128", "aes128", "aes256gcm"], IN),
        ("unknown", ["aes128", "des"], OUT), ("case", ["AES128"], OUT),
        ("empty", [], OUT))
    dim("macNames", ("sha", ["sha"], IN), ("aead", ["aead"], IN),
        ("md5too", ["sha", "sha256", "sha384", "aead", "md5"], IN),
        ("unknown", ["sha", "sha512"], OUT), ("case", ["SHA"], OUT))
    dim("keyExchangeNames", ("rsa", ["rsa"], IN),
        ("ecdhe", ["ecdhe_rsa", "ecdhe_ecdsa"], IN),
        ("dhe", ["dhe_rsa", "dhe_dsa"], IN),
        ("rev", ["dhe_dsa", "dh_anon", "ecdh_anon", "srp_sha_rsa", "srp_sha",
                 "ecdhe_rsa", "dhe_rsa", "rsa", "ecdhe_ecdsa"], IN),
        ("unknown", ["rsa", "dh_rsa"], OUT), ("case", ["RSA"], OUT))
    dim("cipherImplementations", ("python", ["python"], IN),
        ("rev", ["python", "pycrypto", "openssl"], IN),
        ("unknown", ["python", "cryptlib"], OUT))
    dim("certificateTypes", ("unknown", ["x509", "openpgp"], OUT),
        ("empty", [], OUT))
    dim("minKeySize", ("512", 512, IN), ("2048", 2048, IN),
        ("3072", 3072, IN),
        ("small", 511, OUT), ("large", 16385, OUT))
    dim("maxKeySize", ("2048", 2048, IN), ("16384", 16384, IN),
        ("1536", 1536, IN),
        ("small", 511, OUT), ("large", 16385, OUT))
    dim("rsaSigHashes", ("sha256", ["sha256"], IN),
        ("md5", ["sha1", "md5"], IN), ("empty", [], IN),
        ("unknown", ["sha3"], OUT), ("case", ["SHA256"], OUT))
    dim("rsaSchemes", ("pss", ["pss"], IN), ("pkcs1", ["pkcs1"], IN),
        ("unknown", ["oaep"], OUT))
    dim("dsaSigHashes", ("sha1", ["sha1"], IN), ("empty", [], IN),
        ("unknown", ["md5"], OUT))
    dim("ecdsaSigHashes", ("sha384", ["sha384"], IN), ("empty", [], IN),
        ("unknown", ["md5"], OUT))
    dim("more_sig_schemes", ("ed25519", ["Ed25519"], IN), ("empty", [], IN),
        ("unknown", ["Ed25519", "rsa_pss_pss_sha256"], OUT),
        ("case", ["ed25519"], OUT))
    dim("eccCurves", ("x25519", ["x25519"], IN),
        ("p256", ["secp256r1"], IN),
        ("rev", ["brainpoolP256r1", "secp521r1", "secp256r1", "secp384r1",
                 "x448", "x25519"], IN),
        ("k1", ["secp256k1", "secp256r1"], IN),
        ("unknown", ["secp256r1", "secp160r1"], OUT),
        ("case", ["X25519"], OUT))
    dim("dhGroups", ("2048", ["ffdhe2048"], IN), ("3072", ["ffdhe3072"], IN),
        ("empty", [], IN),
        ("unknown", ["ffdhe1024"], OUT))
    dim("defaultCurve", ("p384", "secp384r1", IN),
        ("unknown", "secp160r1", OUT))
    dim("keyShares", ("empty", [], IN), ("x25519", ["x25519"], IN),
        ("ffdhe", ["ffdhe2048"], IN), ("unknown", ["ffdhe1024"], OUT),
        ("disabled", ["secp224r1"], OUT))
    dim("useEncryptThenMAC", ("off", False, IN), ("str", "yes", OUT))
    dim("useExtendedMasterSecret", ("off", False, IN), ("str", "no", OUT))
    dim("requireExtendedMasterSecret", ("on", True, IN), ("str", "yes", OUT))
    dim("usePaddingExtension", ("off", False, IN), ("int2", 2, OUT))
    dim("use_heartbeat_extension", ("off", False, IN), ("none", None, OUT))
    dim("record_size_limit", ("none", None, IN), ("64", 64, IN),
        ("2^14", 2**14, IN), ("63", 63, OUT), ("2^14+2", 2**14 + 2, OUT))
    dim("ticketKeys", ("k32", [bytearray(b"\x01" * 32)], IN),
        ("k16k32", [bytearray(b"\x02" * 16), bytearray(b"\x03" * 32)], IN),
        ("k15", [bytearray(15)], OUT), ("k17", [bytearray(17)], OUT),
        ("k33", [bytearray(33)], OUT))
    dim("ticketCipher", ("aes128gcm", "aes128gcm", IN),
        ("chacha", "chacha20-poly1305", IN), ("unknown", "aes128", OUT))
    dim("ticketLifetime", ("1", 1, IN), ("7d", 7 * 24 * 3600, IN),
        ("0", 0, OUT), ("7d+1", 7 * 24 * 3600 + 1, OUT))
    dim("ticket_count", ("0", 0, IN), ("65535", 65535, IN), ("-1", -1, OUT),
        ("65536", 65536, OUT))
    dim("max_early_data", ("1", 1, IN), ("0", 0, OUT))
    dim("psk_modes", ("dhe", ["psk_dhe_ke"], IN), ("ke", ["psk_ke"], IN),
        ("unknown", ["psk_rsa_ke"], OUT))
    dim("pskConfigs", ("two", [(b"id", b"secret")], IN),
        ("three", [(b"id", b"secret", "sha384")], IN),
        ("len1", [(b"id",)], OUT),
        ("len4", [(b"id", b"s", "sha256", 1)], OUT),
        ("badhash", [(b"id", b"s", "sha512")], OUT))
    dim("ec_point_formats", ("uncompressed", [0], IN),
        ("nouncompressed", [1], OUT), ("unknown", [0, 7], OUT))
    dim("certificate_compression_send", ("none", [], IN),
        ("unknown", ["zlib", "lzma"], OUT))
    dim("certificate_compression_receive", ("none", [], IN),
        ("unknown", ["gzip"], OUT))
    dim("dc_valid_time", ("1d", 86400, IN), ("7d+1", 604801, OUT))
    dim("dc_sig_algs", ("ed25519", [SignatureScheme.ed25519], IN),
        ("ecdsa256", [SignatureScheme.ecdsa_secp256r1_sha256], IN),
        # RFC 9345: rsaEncryption keys must not be used (documented)
        ("rsae256", [SignatureScheme.rsa_pss_rsae_sha256], OUT),
        ("mixed-rsae", [SignatureScheme.ed25519,
                        SignatureScheme.rsa_pss_rsae_sha384], OUT))
    dim("sendFallbackSCSV", ("on", True, IN))
    return M


# combinations that are documented as inconsistent although each value alone
# is in its domain (the oracle must not *demand* acceptance of those)
def build(changes):
    s = HandshakeSettings()
    for attr, (label, val, dom) in changes:
        setattr(s, attr, copy.deepcopy(val))
    return s


def snapshot(s):
    """Deep value snapshot + the identity of every list object."""
    snap = {}
    ids = {}
    for k, v in sorted(s.__dict__.items()):
        snap[k] = copy.deepcopy(v)
        if isinstance(v, list):
            ids[k] = (v, list(v))
    return snap, ids


def same(a, b):
    if isinstance(a, (list, tuple)) and isinstance(b, (list, tuple)):
        return len(a) == len(b) and all(same(x, y) for x, y in zip(a, b))
    return a == b and type(a) == type(b)


def check_supported(v):
    """Everything listed in a validated object must be usable here."""
    from tlslite.utils import cipherfactory, cryptomath
    from tlslite.utils.compat import ecdsaAllCurves  # noqa
    bad = []
    impls = v.cipherImplementations
    for imp in impls:
        if imp == "openssl" and not cryptomath.m2cryptoLoaded:
            bad.append(("impl", imp))
        if imp == "pycrypto" and not cryptomath.pycryptoLoaded:
            bad.append(("impl", imp))
    mk = {"aes128": lambda: cipherfactory.createAES(bytearray(16),
                                                    bytearray(16), impls),
          "aes256": lambda: cipherfactory.createAES(bytearray(32),
                                                    bytearray(16), impls),
          "aes128gcm": lambda: cipherfactory.createAESGCM(bytearray(16),
                                                          impls),
          "aes256gcm": lambda: cipherfactory.createAESGCM(bytearray(32),
                                                          impls),
          "aes128ccm": lambda: cipherfactory.createAESCCM(bytearray(16),
                                                          impls),
          "aes256ccm": lambda: cipherfactory.createAESCCM(bytearray(32),
                                                          impls),
          "aes128ccm_8": lambda: cipherfactory.createAESCCM_8(bytearray(16),
                                                              impls),
          "aes256ccm_8": lambda: cipherfactory.createAESCCM_8(bytearray(32),
                                                              impls),
          "chacha20-poly1305": lambda: cipherfactory.createCHACHA20(
              bytearray(32), impls),
          "chacha20-poly1305_draft00": lambda: cipherfactory.createCHACHA20(
              bytearray(32), impls),
          "3des": lambda: cipherfactory.createTripleDES(bytearray(24),
                                                        bytearray(8), impls),
          "rc4": lambda: cipherfactory.createRC4(bytearray(16), bytearray(0),
                                                 impls),
          "null": lambda: True}
    for c in v.cipherNames:
        try:
            if mk[c]() is None:
                bad.append(("cipher", c))
        except Exception as e:  # noqa
            bad.append(("cipher", c, type(e).__name__))
    import hashlib
    for h in list(v.rsaSigHashes) + list(v.dsaSigHashes) + \
            list(v.ecdsaSigHashes):
        try:
            hashlib.new(h)
        except Exception:
            bad.append(("hash", h))
    from tlslite.constants import GroupName
    from tlslite.keyexchange import ECDHKeyExchange, FFDHKeyExchange  # noqa
    for c in list(v.eccCurves) + list(v.keyShares) + list(v.dhGroups):
        if not hasattr(GroupName, c):
            bad.append(("group", c))
    return bad


def eval_one(changes):
    """Evaluate the validation oracle on one settings object.  Returns
    (outcome signature, list of failures)."""
    fails = []
    s = build(changes)
    expect_reject = any(not dom for _, (_, _, dom) in changes)
    snap, ids = snapshot(s)
    err = None
    v = None
    try:
        v = s.validate()
    except ValueError as e:
        err = "ValueError"
    except Exception as e:  # noqa
        err = type(e).__name__
        fails.append(("wrong-exception", err, str(e)[:80]))
    # purity
    for k, val in sorted(s.__dict__.items()):
        if k not in snap or not same(snap[k], val):
            fails.append(("mutated-attr", k, repr(snap.get(k))[:60],
                          repr(val)[:60]))
    for k, (obj, content) in ids.items():
        if not same(list(obj), content):
            fails.append(("mutated-list-object", k, repr(content)[:60],
                          repr(list(obj))[:60]))
    if expect_reject and err is None:
        fails.append(("accepted-out-of-domain",
                      [a + "=" + lab for a, (lab, _, dom) in changes
                       if not dom]))
    if v is not None:
        # idempotence
        vsnap, vids = snapshot(v)
        try:
            v2 = v.validate()
        except Exception as e:  # noqa
            v2 = None
            fails.append(("revalidate-raised", type(e).__name__,
                          str(e)[:80]))
        if v2 is not None:
            for k in sorted(set(v.__dict__) | set(v2.__dict__)):
                if not same(v.__dict__.get(k), v2.__dict__.get(k)):
                    fails.append(("not-idempotent", k,
                                  repr(v.__dict__.get(k))[:60],
                                  repr(v2.__dict__.get(k))[:60]))
            for k, val in sorted(v.__dict__.items()):
                if not same(vsnap[k], val):
                    fails.append(("revalidate-mutated", k))
        for b in check_supported(v):
            fails.append(("unsupported-in-output",) + tuple(b))
    sig = (err, None if v is None else
           (tuple(v.cipherNames), tuple(v.macNames), tuple(v.versions)))
    return sig, fails


def label_of(changes):
    return [a + "=" + lab for a, (lab, _, _) in changes]


def _work_validation(chunk):
    out = []
    for changes in chunk:
        sig, fails = eval_one(changes)
        out.append((label_of(changes), sig, fails))
    return out


def enumerate_changes(M, d):
    yield ()
    idx = range(len(M))
    for k in range(1, d + 1):
        for dims in itertools.combinations(idx, k):
            for vals in itertools.product(*[M[i][1] for i in dims]):
                yield tuple((M[i][0], v) for i, v in zip(dims, vals))


def _aliasing_in_child():
    """Run _aliasing_work in a forked child so that a leak cannot reach the
    rest of this check."""
    import multiprocessing
    ctx = multiprocessing.get_context("fork")
    with ctx.Pool(1) as pool:
        return pool.apply(_aliasing_work, (0,))


def run_validation(res, tier):
    M = menus()
    d = 2 if tier == "quick" else 3
    allc = list(enumerate_changes(M, d))
    if tier == "thorough" and len(allc) > 400000:
        # bound 3 restricted: third dimension only from the in-domain menu
        # is still complete for (<=2 arbitrary + 1 in-domain)
        pass
    chunks = [allc[i:i + 500] for i in range(0, len(allc), 500)]
    n = 0
    seen = {}
    for part in pmap(_work_validation, chunks, chunksize=1):
        for labels, sig, fails in part:
            n += 1
            res.count()
            res.outcome(("val", sig[0], sig[1]))
            if n % 997 == 1:
                res.sample({"changes": labels, "result": sig[0] or "valid"})
            for f in fails:
                key = {"part": "validate", "kind": f[0],
                       "what": f[1] if len(f) > 1 else None}
                seen.setdefault((f[0], repr(f[1]) if len(f) > 1 else ""),
                                (labels, f))
                res.violation(key, {"changes": labels, "failure": f},
                              {"part": "validate", "changes": labels})
    res.section("validation", objects=n, dimensions=len(M),
                menu_values=sum(len(m[1]) for m in M), bound=d)
    (na, afails), = pmap(_aliasing_work, [0, ], chunksize=1) if False else \
        [_aliasing_in_child()]
    res.count(na)
    res.outcome(("alias", not afails))
    for f in afails:
        res.violation({"part": "aliasing", "kind": f[0],
                       "attr": f[1].split("/")[0].split(":")[0]},
                      {"failure": f}, {"part": "aliasing", "failure": f})
    res.section("mutable_state_isolation", probes=na)
    return n + na


def _aliasing_work(_item):
    """Isolation of mutable state (run in a worker process of its own: with
    a defect the in-place edits below would leak into module-level state).

    (a) every list held by a fresh HandshakeSettings() is private to that
        object: editing it in place changes neither later default objects,
        nor what validate() accepts.
    (That the object returned by validate() shares list objects with its
    receiver is not held against the library: the property speaks of
    validate() modifying its receiver, which it does not.)"""
    import copy
    from tlslite.handshakesettings import HandshakeSettings
    fails = []
    n = 0
    s0 = HandshakeSettings()
    names = sorted(a for a, v in vars(s0).items() if isinstance(v, list))
    pristine = dict((a, copy.deepcopy(getattr(s0, a))) for a in names)
    for a in names:
        s1 = HandshakeSettings()
        lst = getattr(s1, a)
        junk = "verif-junk-value"
        # in-place edits a caller may make
        for edit in ("append", "remove-first", "reverse", "clear"):
            s1 = HandshakeSettings()
            lst = getattr(s1, a)
            if edit == "append":
                lst.append(junk)
            elif edit == "remove-first":
                if not lst:
                    continue
                del lst[0]
            elif edit == "reverse":
                lst.reverse()
            else:
                del lst[:]
            n += 1
            s2 = HandshakeSettings()
            if getattr(s2, a) != pristine[a]:
                fails.append(("default-changed-by-editing-another-object",
                              "%s/%s" % (a, edit)))
                # repair so that the remaining probes start clean
                getattr(s2, a)[:] = pristine[a]
            try:
                HandshakeSettings().validate()
            except Exception as e:  # noqa
                fails.append(("default-object-invalid-after-edit",
                              "%s/%s: %s" % (a, edit, type(e).__name__)))
            if edit == "append" and isinstance(pristine[a][:1] and
                                               pristine[a][0], str):
                s3 = HandshakeSettings()
                setattr(s3, a, list(pristine[a]) + [junk])
                try:
                    s3.validate()
                    fails.append(("junk-value-accepted-after-edit", a))
                except ValueError:
                    pass
                except Exception as e:  # noqa
                    fails.append(("junk-value-raises", "%s: %s" % (
                        a, type(e).__name__)))
    return n, fails


# ---------------------------------------------------------------- connection
def enabled_suites(st, version):
    """Suites a settings object enables for a version, by reading names."""
    out = []
    for sid, info in S.ALL_INFOS.items():
        if not ianasuite.defined_in(info, version):
            continue
        c, m, k = info.setting_cipher(), info.setting_mac(), \
            info.setting_kex()
        if c is None or m is None:
            continue
        if c not in st.cipherNames or m not in st.macNames:
            continue
        if not info.tls13:
            if k is None or k not in st.keyExchangeNames:
                continue
        out.append(sid)
    return out


CRED_KEX = {"rsa": ("rsa", "dhe_rsa", "ecdhe_rsa"),
            "ecdsa": ("ecdhe_ecdsa",), "dsa": ("dhe_dsa",),
            "ed25519": ("ecdhe_ecdsa",), "rsapss": ("dhe_rsa", "ecdhe_rsa")}
CRED_CURVE = {"ecdsa": "secp256r1"}
NIST = ["secp256r1", "secp384r1", "secp521r1"]


def sig_ok(cst, sst, cred, version):
    """Sufficient condition: the client advertises and the server enables
    a signature scheme the credential can make."""
    if version < (3, 3):
        # the scheme is fixed by the protocol; an endpoint that lists no
        # hash at all for the key type has switched that key type off
        attr = {"rsa": "rsaSigHashes", "ecdsa": "ecdsaSigHashes",
                "dsa": "dsaSigHashes"}.get(cred)
        return attr is not None and bool(getattr(cst, attr)) and \
            bool(getattr(sst, attr))
    both = lambda a: [h for h in getattr(cst, a) if h in getattr(sst, a)]  # noqa
    if cred == "rsa":
        hs = [h for h in both("rsaSigHashes") if h != "md5"]
        sch = [x for x in cst.rsaSchemes if x in sst.rsaSchemes]
        if version == (3, 4):
            return bool([h for h in hs if h in ("sha256", "sha384",
                                                "sha512")]) and "pss" in sch
        # PSS exists for SHA-256 and up only
        return ("pkcs1" in sch and bool(hs)) or (
            "pss" in sch and bool([h for h in hs if h in (
                "sha256", "sha384", "sha512")]))
    if cred == "rsapss":
        hs = [h for h in both("rsaSigHashes") if h in ("sha256", "sha384",
                                                        "sha512")]
        return bool(hs) and "pss" in cst.rsaSchemes and \
            "pss" in sst.rsaSchemes
    if cred == "ecdsa":
        hs = both("ecdsaSigHashes")
        if version == (3, 4):
            return "sha256" in hs
        return bool(hs)
    if cred == "dsa":
        return version < (3, 4) and bool(both("dsaSigHashes"))
    if cred == "ed25519":
        return "Ed25519" in cst.more_sig_schemes and \
            "Ed25519" in sst.more_sig_schemes
    return False


def negotiated_version(cst, sst):
    """Model of version negotiation (RFC 8446 4.1.3, 4.2.1 and appendix D):
    the version both ends settle on, or (None, why no connection is
    demanded)."""
    def in_range(st, v):
        return st.minVersion <= v <= st.maxVersion
    c_list = list(cst.versions)
    if not enabled_suites(cst, (3, 4)):
        # TLS 1.3 needs one of its own suites
        c_list = [v for v in c_list if v < (3, 4)]
    if any(v > (3, 3) for v in c_list):
        # (the extension lists settings.versions as they are, also entries
        # outside minVersion..maxVersion, which the client then refuses)
        c_off = list(c_list)
        c_ext = True
    else:
        top = min(cst.maxVersion, (3, 3))
        c_off = [v for v in S.VERSIONS if cst.minVersion <= v <= top]
        c_ext = False
    if not c_off:
        return None, "client enables no version"
    s_en = [v for v in sst.versions if in_range(sst, v)]
    if c_ext:
        V = next((v for v in s_en if v in c_off), None)
        if V is None:
            return None, "no common version"
    else:
        V = min(max(c_off), min(sst.maxVersion, (3, 3)))
        if V < sst.minVersion or V not in c_off:
            return None, "no common version"
    if not in_range(cst, V):
        return None, "server may pick a version the client lists but " \
            "does not accept"
    H = max(s_en or [sst.maxVersion])
    O = max(c_off)
    sentinel12 = V == (3, 3) and H > (3, 3)
    sentinel11 = V < (3, 3) and H >= (3, 3)
    if O > (3, 3) and V <= (3, 3) and (sentinel12 or sentinel11):
        return None, "server picks a lower version than both support: " \
            "downgrade protection applies"
    if O == (3, 3) and V < (3, 3) and sentinel11:
        return None, "server picks a lower version than both support: " \
            "downgrade protection applies"
    return V, "ok"


def must_connect(cst, sst, cred):
    """Independent *sufficient* condition for a handshake to complete;
    returns (bool, reason).  Deliberately conservative: whenever the answer
    could depend on which common suite the server prefers, every common suite
    has to be workable."""
    V, why = negotiated_version(cst, sst)
    if V is None:
        return False, why
    if V == (3, 4) and cred == "dsa":
        # TLS 1.3 has no DSA: a server that only holds a DSA certificate
        # cannot do TLS 1.3 whatever its settings say, so what it shares
        # with the client is its TLS <= 1.2 configuration
        c12, s12 = copy.copy(cst), copy.copy(sst)
        for st in (c12, s12):
            st.maxVersion = min(st.maxVersion, (3, 3))
            st.versions = [v for v in st.versions if v < (3, 4)]
        if c12.minVersion > c12.maxVersion or s12.minVersion > s12.maxVersion:
            return False, "dsa in 1.3 only"
        V2, why = negotiated_version(c12, s12)
        if V2 is None:
            return False, why
        ok, why = _demand_at(c12, s12, cred, V2)
        return ok, "dsa-server-tls13:" + why
    return _demand_at(cst, sst, cred, V)


def _demand_at(cst, sst, cred, V):
    cs = enabled_suites(cst, V)
    ss = enabled_suites(sst, V)
    common = [s for s in cs if s in ss]
    if not common:
        return False, "no common suite at highest version"
    for st in (cst, sst):
        if not (st.minKeySize <= 1024 and st.maxKeySize >= 2048):
            return False, "key size policy may exclude fixture/dh sizes"
    if V == (3, 4):
        groups = [g for g in list(cst.eccCurves) + list(cst.dhGroups)
                  if g in list(sst.eccCurves) + list(sst.dhGroups)]
        from tlslite.handshakesettings import TLS13_PERMITTED_GROUPS
        groups = [g for g in groups if g in TLS13_PERMITTED_GROUPS]
        if not groups:
            return False, "no common 1.3 group"
        if cred == "dsa":
            return False, "dsa in 1.3"
        if cred == "ecdsa" and CRED_CURVE["ecdsa"] not in cst.eccCurves:
            return False, "cert curve"
        if not sig_ok(cst, sst, cred, V):
            return False, "no signature scheme"
        return True, "tls13"
    usable = []
    for sid in common:
        info = S.ALL_INFOS[sid]
        k = info.setting_kex()
        if k in ("srp_sha", "srp_sha_rsa", "dh_anon", "ecdh_anon"):
            # cert handshake: client does not offer those
            continue
        usable.append(sid)
    if not usable:
        return False, "no common cert suite"
    # the server only considers suites its key type can serve
    usable = [sid for sid in usable
              if S.ALL_INFOS[sid].setting_kex() in CRED_KEX[cred]]
    if not usable:
        return False, "no common suite served by the credential"
    for sid in usable:
        info = S.ALL_INFOS[sid]
        k = info.setting_kex()
        if k.startswith("ecdhe"):
            curves = [c for c in cst.eccCurves if c in sst.eccCurves]
            if not curves:
                return False, "no common curve"
            if V == (3, 0):
                return False, "ecc under ssl3 left open"
        if cred in ("ecdsa",) and CRED_CURVE[cred] not in cst.eccCurves:
            return False, "cert curve not accepted by client"
        if cred in ("ed25519",) and V < (3, 3):
            return False, "eddsa needs 1.2"
        if k.startswith("dhe"):
            # the group the server may pick has to fit the client's key
            # size policy (named groups carry their size in the name)
            cand = [g for g in cst.dhGroups if g in sst.dhGroups] \
                if cst.dhGroups else list(sst.dhGroups) or ["ffdhe2048"]
            sizes = [int(g[5:]) for g in cand if g.startswith("ffdhe")] or \
                [2048]
            if not all(cst.minKeySize <= z <= cst.maxKeySize for z in sizes):
                return False, "dh size"
            # RFC 7919: a client that lists FFDHE groups gets DHE only
            # with one of them; one that lists none gets the server's own
            if cst.dhGroups and not [g for g in cst.dhGroups
                                     if g in sst.dhGroups]:
                return False, "no common ffdhe group"
    for st in (cst, sst):
        if not (st.minKeySize <= 1024 and st.maxKeySize >= 2048):
            return False, "key size policy may exclude fixture/dh sizes"
    if not sig_ok(cst, sst, cred, V):
        return False, "no signature scheme"
    if cst.requireExtendedMasterSecret and not sst.useExtendedMasterSecret:
        return False, "ems"
    if sst.requireExtendedMasterSecret and not cst.useExtendedMasterSecret:
        return False, "ems"
    if V == (3, 0) and (cst.requireExtendedMasterSecret or
                        sst.requireExtendedMasterSecret):
        return False, "ems in ssl3"
    return True, "tls<=1.2"


def conn_menus():
    M = menus()
    keep = ("minVersion", "maxVersion", "versions", "cipherNames", "macNames",
            "keyExchangeNames", "rsaSigHashes", "rsaSchemes",
            "ecdsaSigHashes", "dsaSigHashes", "more_sig_schemes",
            "eccCurves", "dhGroups", "keyShares", "useEncryptThenMAC",
            "useExtendedMasterSecret", "requireExtendedMasterSecret",
            "record_size_limit", "minKeySize", "maxKeySize", "psk_modes",
            "certificate_compression_send",
            "certificate_compression_receive", "use_heartbeat_extension",
            "ticketKeys", "ticketCipher", "ticketLifetime",
            "usePaddingExtension", "defaultCurve")
    out = []
    for attr, vals in M:
        if attr in keep:
            vv = [v for v in vals if v[2]]
            if vv:
                out.append((attr, vv))
    return out


DATA_LEN = 2 * 64 + 5


def _work_conn(item):
    cred, cch, sch, seed = item
    try:
        cst = build(cch).validate()
        sst = build(sch).validate()
    except ValueError:
        return (cred, label_of(cch), label_of(sch), "invalid", None, None)
    base_cred = cred.split("+")[0]
    must, why = must_connect(cst, sst, base_cred)
    psk_lists = None
    if "+psk:" in cred:
        # external PSK lists (identity order matters to the server's scan)
        _, cl, sl = cred.split(":")
        mk = lambda names: [(n.encode(), bytes([0x50 + ord(n[0]) % 16]) * 32,
                             "sha256") for n in names if n]   # noqa
        psk_lists = (mk(cl.split(",")), mk(sl.split(",")))
    if cred.endswith("+clientauth-ecdsa"):
        # the client's own certificate has to be usable as well: its key
        # type's schemes as listed by the server and enabled on the client
        V2, _ = negotiated_version(cst, sst)
        if must and not (V2 and sig_ok(sst, cst, "ecdsa", V2)):
            must, why = False, "no signature scheme for the client's key"
        sc = S.Scen("c19/%s" % cred, cred=base_cred, client_cred="c_ecdsa",
                    req_cert=True)
    elif cred.endswith("+clientauth"):
        sc = S.Scen("c19/%s" % cred, cred=base_cred, client_cred="c_rsa",
                    req_cert=True)
    else:
        sc = S.Scen("c19/%s" % cred, cred=base_cred)
    cs_, ss_ = build(cch), build(sch)
    if psk_lists is not None:
        cs_.pskConfigs, ss_.pskConfigs = psk_lists
    pair, out = S.connect(sc, seed=seed, csettings=cs_, ssettings=ss_)
    ok = out["C"].status == "ok" and out["S"].status == "ok"
    outc = "ok" if ok else (repr(out["C"].sig()), repr(out["S"].sig()))
    if ok and must:
        # a connection the settings demand is one that carries data: more
        # than two records' worth under the smallest record_size_limit of
        # the menus, each way
        for (src, dst) in (("C", "S"), ("S", "C")):
            data = bytes(bytearray((i * 7 + 3) & 0xff
                                   for i in range(DATA_LEN)))
            w = pair.write(src, data)
            got = b""
            r = None
            for _ in range(DATA_LEN):
                if len(got) >= DATA_LEN:
                    break
                r = pair.read(dst, None, 1)
                if r.status != "ok" or not r.value:
                    break
                got += bytes(r.value)
            if w.status != "ok" or got != data:
                outc = ("data %s->%s" % (src, dst), repr(w.sig()),
                        repr(r.sig()) if r is not None else "-")
                break
    return (cred, label_of(cch), label_of(sch), outc, must, why)


def run_connection(res, tier, seed):
    M = conn_menus()
    singles = [()] + [((attr, v),) for attr, vals in M for v in vals]
    creds = ["rsa", "ecdsa"] if tier == "quick" else \
        ["rsa", "ecdsa", "dsa", "ed25519", "rsapss"]
    items = []
    if tier == "quick":
        # <=1 change per side; quick takes the full cross on rsa and the
        # diagonal-free half on ecdsa
        for cred in creds:
            for a in singles:
                for b in singles:
                    if cred != "rsa" and a and b and a[0][0] != b[0][0]:
                        continue
                    items.append((cred, a, b, seed))
    else:
        for cred in creds:
            for a in singles:
                for b in singles:
                    items.append((cred, a, b, seed))
    # the same cross from a second base point: both sides limited to TLS 1.2
    # (the default pair always lands in TLS 1.3, which leaves the TLS <= 1.2
    # paths of most dimensions unexplored)
    m12 = ("maxVersion", [v for v in dict(M)["maxVersion"]
                          if v[1] == (3, 3)][0])
    for cred in creds:
        for a in singles:
            for b in singles:
                if (a and a[0][0] == "maxVersion") or \
                        (b and b[0][0] == "maxVersion"):
                    continue
                if cred != "rsa" and a and b and a[0][0] != b[0][0] and \
                        tier == "quick":
                    continue
                items.append((cred, a + (m12,), b + (m12,), seed))
    # two changed dimensions on one side (the other side at its defaults)
    doubles = []
    flat = [(attr, v) for attr, vals in M for v in vals]
    for i in range(len(flat)):
        for j in range(i + 1, len(flat)):
            if flat[i][0] != flat[j][0]:
                doubles.append((flat[i], flat[j]))
    for cred in creds:
        for d in doubles:
            items.append((cred, d, (), seed))
            items.append((cred, (), d, seed))
    # client certificates (a handshake message of the client that spans
    # several records) against every record_size_limit combination
    rsl = [()] + [x for x in singles if x and x[0][0] == "record_size_limit"]
    max12 = [v for v in dict(M)["maxVersion"] if v[1] == (3, 3)][0]
    for a in rsl:
        for b in rsl:
            items.append(("rsa+clientauth", a, b, seed))
            items.append(("rsa+clientauth", a, b + (("maxVersion", max12),),
                          seed))
    # an ECDSA client certificate against every signature-related change
    # of the server (its CertificateRequest may then list no RSA algorithm)
    sigdims = ("rsaSigHashes", "rsaSchemes", "ecdsaSigHashes",
               "dsaSigHashes", "more_sig_schemes")
    for b in [()] + [x for x in singles if x and x[0][0] in sigdims]:
        for scred in ("ecdsa", "rsa"):
            items.append((scred + "+clientauth-ecdsa", (m12,), b + (m12,),
                          seed))
            items.append((scred + "+clientauth-ecdsa", (), b, seed))
    # external PSKs next to the certificate: every pair of identity lists
    # over {a, b} (order included); the server holds a certificate, so a
    # connection is demanded whether or not an identity is shared
    lists = ["", "a", "b", "a,b", "b,a"]
    for cl in lists:
        for sl in lists:
            for mods in ((), (("psk_modes", [v for v in dict(M)["psk_modes"]
                                             ][0]),)):
                items.append(("rsa+psk:%s:%s" % (cl, sl), (), (), seed))
                break
    demanded = 0
    n = 0
    for (cred, la, lb, outc, must, why) in pmap(_work_conn, items):
        n += 1
        res.count()
        res.outcome(("conn", outc if outc in ("ok", "invalid") else "fail",
                     must))
        if outc == "invalid":
            continue
        if must:
            demanded += 1
            if outc != "ok":
                feats = []
                if "keyShares=empty" in la or "keyShares=ffdhe" in la:
                    feats.append("hrr")
                if "record_size_limit=64" in lb:
                    feats.append("server_record_size_limit=64")
                if why.startswith("dsa-server-tls13"):
                    feats.append("dsa_server_negotiates_tls13")
                res.violation({"part": "connect", "cred": cred,
                               "client": la, "server": lb,
                               "features": feats,
                               "dsa_tls13": why.startswith(
                                   "dsa-server-tls13"),
                               "alerts": [str(x) for x in outc]},
                              {"outcome": outc, "why_demanded": why},
                              {"part": "connect", "cred": cred,
                               "client": la, "server": lb})
        if n % 501 == 1:
            res.sample({"cred": cred, "client": la, "server": lb,
                        "outcome": outc, "demanded": must, "why": why})
    res.section("connection", pairs=n, demanded_to_connect=demanded,
                creds=creds)


def run(res, tier, seed):
    res.coverage["rule"] = (
        "validation: every HandshakeSettings reachable from the defaults by "
        "changing <=d dimensions (d=2 quick, 3 thorough) to a menu value "
        "(in-domain and out-of-domain menus); connection: every pair of "
        "validated settings with <=1 in-domain change per side (from the "
        "defaults, and from both sides limited to TLS 1.2), and with 2 "
        "changes on one side against the defaults, x credential; "
        "a case is distinct by its change list; non-trivial = at least one "
        "dimension changed")
    n = run_validation(res, tier)
    run_connection(res, tier, seed)
    res.coverage["distinct_nontrivial"] = res.coverage["evaluations"] - 1
    res.assumptions += [
        "out-of-domain menus contain only values of the documented type "
        "whose value is outside the documented set/range",
        "connection success is demanded only under a conservative "
        "sufficient condition computed from the two settings objects and "
        "the IANA names (mc/props/c19.py must_connect)"]


def replay(case, seed):
    M = dict(menus())

    def rebuild(labels):
        ch = []
        for lab in labels:
            attr, l = lab.split("=", 1)
            for v in M[attr]:
                if v[0] == l:
                    ch.append((attr, v))
        return tuple(ch)
    if case["part"] == "validate":
        sig, fails = eval_one(rebuild(case["changes"]))
        return {"sig": sig, "failures": fails}
    r = _work_conn((case["cred"], rebuild(case["client"]),
                    rebuild(case["server"]), seed))
    return {"result": r}
