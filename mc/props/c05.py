"""C05 - peer credentials are recorded only after proof of possession.

Deciding method: fault enumeration over (proof site x corruption class x key
type): the prover is a puppet endpoint that emits a corrupted proof while
keeping its own transcript consistent; the verifier is untouched.  Proof
sites: ServerKeyExchange signature, client CertificateVerify (<=1.2), server
and client CertificateVerify (1.3), post-handshake authentication, Finished
in both directions, PSK binder, SRP password, mismatching key/chain, Checker.
"""
import copy
import struct

from .. import world as W
from .. import scen as S
from .. import msgstruct
from ..core import pmap
from ..puppet import Puppet, NotQueueable
from ..world import SEAMS, Pair, World, load_cred
from tlslite import errors as E
from tlslite.constants import CipherSuite as CS, SignatureScheme, \
    ExtensionType
from tlslite.checker import Checker

LEVEL = "fault_enumeration"


def sites(tier):
    """(name, scenario, victim, message token, field prefix)"""
    L = []

    def add(name, victim, tok, field, **kw):
        L.append((name, S.Scen("c05/" + name, **kw), victim, tok, field))
    sk = [("rsa", "rsa", CS.TLS_ECDHE_RSA_WITH_AES_128_GCM_SHA256,
           CS.TLS_DHE_RSA_WITH_AES_128_CBC_SHA),
          ("rsapss", "rsapss", CS.TLS_ECDHE_RSA_WITH_AES_128_GCM_SHA256,
           CS.TLS_DHE_RSA_WITH_AES_128_CBC_SHA),
          ("ecdsa", "ecdsa", CS.TLS_ECDHE_ECDSA_WITH_AES_128_GCM_SHA256,
           None),
          ("ecdsa384", "ecdsa384",
           CS.TLS_ECDHE_ECDSA_WITH_AES_128_GCM_SHA256, None),
          ("ed25519", "ed25519", CS.TLS_ECDHE_ECDSA_WITH_AES_128_GCM_SHA256,
           None),
          ("ed448", "ed448", CS.TLS_ECDHE_ECDSA_WITH_AES_128_GCM_SHA256,
           None),
          ("dsa", "dsa", None, CS.TLS_DHE_DSS_WITH_AES_128_CBC_SHA)]
    for (kn, cred, ec_suite, dh_suite) in sk:
        for v in ((3, 3), (3, 1), (3, 0)):
            if v < (3, 3) and kn in ("rsapss", "ed25519", "ed448",
                                     "ecdsa384"):
                continue
            if tier == "quick" and v == (3, 0) and kn != "rsa":
                continue
            if ec_suite is not None:
                suite = ec_suite if v == (3, 3) else (
                    CS.TLS_ECDHE_RSA_WITH_AES_128_CBC_SHA
                    if kn in ("rsa",) else
                    CS.TLS_ECDHE_ECDSA_WITH_AES_128_CBC_SHA)
                add("ske-ecdhe-%s-%s" % (kn, S.VNAME[v]), "C", "SKE",
                    "signature", version=v, cred=cred, suite=suite)
            if dh_suite is not None and (kn != "rsapss" or v == (3, 3)):
                add("ske-dhe-%s-%s" % (kn, S.VNAME[v]), "C", "SKE",
                    "signature", version=v, cred=cred, suite=dh_suite)
    add("ske-srp-rsa", "C", "SKE", "signature", version=(3, 3),
        flavour="srpcert", cred="rsa",
        suite=CS.TLS_SRP_SHA_RSA_WITH_AES_128_CBC_SHA)
    # client CertificateVerify <= 1.2
    for (kn, ccred) in (("rsa", "c_rsa"), ("ecdsa", "c_ecdsa"),
                        ("ed25519", "c_ed25519"), ("dsa", "c_dsa")):
        for v in ((3, 3), (3, 1), (3, 0)):
            if kn == "ed25519" and v < (3, 3):
                continue
            if tier == "quick" and v == (3, 0) and kn != "rsa":
                continue
            add("cv-client-%s-%s" % (kn, S.VNAME[v]), "S", "CV", "signature",
                version=v, cred="rsa", client_cred=ccred, req_cert=True,
                suite=CS.TLS_RSA_WITH_AES_128_CBC_SHA)
    # TLS 1.2 with the hash of the signature forced to each of the rarely
    # chosen ones (the verifier's list names a single hash)
    for h in ("sha1", "sha224", "sha384", "sha512"):
        add("cv-client-rsa-TLS1.2-%s" % h, "S", "CV", "signature",
            version=(3, 3), cred="rsa", client_cred="c_rsa", req_cert=True,
            suite=CS.TLS_RSA_WITH_AES_128_CBC_SHA,
            sset={"rsaSigHashes": [h], "rsaSchemes": ["pkcs1"]})
        add("cv-client-ecdsa-TLS1.2-%s" % h, "S", "CV", "signature",
            version=(3, 3), cred="rsa", client_cred="c_ecdsa", req_cert=True,
            suite=CS.TLS_RSA_WITH_AES_128_CBC_SHA,
            sset={"ecdsaSigHashes": [h]})
        add("ske-ecdhe-rsa-TLS1.2-%s" % h, "C", "SKE", "signature",
            version=(3, 3), cred="rsa",
            suite=CS.TLS_ECDHE_RSA_WITH_AES_128_GCM_SHA256,
            cset={"rsaSigHashes": [h], "rsaSchemes": ["pkcs1"]})
        add("ske-ecdhe-ecdsa-TLS1.2-%s" % h, "C", "SKE", "signature",
            version=(3, 3), cred="ecdsa",
            suite=CS.TLS_ECDHE_ECDSA_WITH_AES_128_GCM_SHA256,
            cset={"ecdsaSigHashes": [h]})
    for h in ("sha1", "sha224", "sha256"):
        add("cv-client-dsa-TLS1.2-%s" % h, "S", "CV", "signature",
            version=(3, 3), cred="rsa", client_cred="c_dsa", req_cert=True,
            suite=CS.TLS_RSA_WITH_AES_128_CBC_SHA,
            sset={"dsaSigHashes": [h]})
    # TLS 1.3 CertificateVerify
    for (kn, cred) in (("rsa", "rsa"), ("rsapss", "rsapss"),
                       ("ecdsa", "ecdsa"), ("ecdsa384", "ecdsa384"),
                       ("ecdsa521", "ecdsa521"), ("ed25519", "ed25519"),
                       ("ed448", "ed448")):
        add("cv13-server-%s" % kn, "C", "CV", "signature", version=(3, 4),
            cred=cred, suite=CS.TLS_AES_128_GCM_SHA256)
    for (kn, ccred) in (("rsa", "c_rsa"), ("ecdsa", "c_ecdsa"),
                        ("ed25519", "c_ed25519")):
        add("cv13-client-%s" % kn, "S", "CV", "signature", version=(3, 4),
            cred="rsa", client_cred=ccred, req_cert=True,
            suite=CS.TLS_AES_128_GCM_SHA256)
    # Finished, both directions, all versions
    for v in S.VERSIONS:
        suite = CS.TLS_AES_128_GCM_SHA256 if v == (3, 4) else \
            CS.TLS_RSA_WITH_AES_128_CBC_SHA
        for victim in ("C", "S"):
            add("finished-%s-to-%s" % (S.VNAME[v], victim), victim, "FIN",
                "verify_data", version=v, cred="rsa", suite=suite)
    add("finished-13-psk-to-S", "S", "FIN", "verify_data", version=(3, 4),
        flavour="psk", cred=None, suite=CS.TLS_AES_128_GCM_SHA256)
    add("finished-13-psk-to-C", "C", "FIN", "verify_data", version=(3, 4),
        flavour="psk", cred=None, suite=CS.TLS_AES_128_GCM_SHA256)
    add("finished-srp-to-S", "S", "FIN", "verify_data", version=(3, 3),
        flavour="srp", cred=None,
        suite=CS.TLS_SRP_SHA_WITH_AES_128_CBC_SHA)
    # PSK binder
    add("psk-binder", "S", "CH", "ext", version=(3, 4), flavour="psk",
        cred=None, suite=CS.TLS_AES_128_GCM_SHA256)
    add("psk-binder-with-cert", "S", "CH", "ext", version=(3, 4),
        flavour="psk", cred="rsa", suite=CS.TLS_AES_128_GCM_SHA256)
    return L


def run_one(sc, seed, victim, script, mitm=None, server_cred=None,
            client_cred=None, checker=None, client_password=None):
    SEAMS.reset(seed, sc.name)
    w = World()
    if mitm:
        mitm(w)
    pair = Pair(w)
    pup_conn = pair.s if victim == "C" else pair.c
    pup = Puppet(pup_conn, script)
    st_c, st_s = sc.client_settings(), sc.server_settings()
    SEAMS.current = "C"
    if client_cred is not None:
        chain, key = client_cred
        cg = pair.c.handshakeClientCert(chain, key, settings=st_c,
                                        async_=True, checker=checker)
    elif client_password is not None:
        cg = pair.c.handshakeClientSRP(bytearray(b"test"),
                                       bytearray(client_password),
                                       settings=st_c, async_=True)
    elif checker is not None and victim == "C":
        cg = pair.c.handshakeClientCert(settings=st_c, async_=True,
                                        checker=checker)
    else:
        cg = sc.client_gen(pair.c)
    SEAMS.current = "S"
    if server_cred is not None:
        chain, key = server_cred
        sg = pair.s.handshakeServerAsync(certChain=chain, privateKey=key,
                                         reqCert=sc.req_cert, settings=st_s,
                                         checker=checker if victim == "S"
                                         else None)
    elif checker is not None and victim == "S":
        chain, key = load_cred(sc.cred)
        sg = pair.s.handshakeServerAsync(certChain=chain, privateKey=key,
                                         reqCert=True, settings=st_s,
                                         checker=checker)
    else:
        sg = sc.server_gen(pair.s)
    SEAMS.current = "main"
    try:
        out = pair.handshake(cg, sg, max_steps=60000)
    except NotQueueable:
        return None
    return pair, pup, out


def capture(sc, seed, victim, tok):
    r = run_one(sc, seed, victim, {})
    pair, pup, out = r
    ok = out["C"].status == "ok" and out["S"].status == "ok"
    idx = [i for i, t in pup.honest if t == tok]
    data = {}
    if idx:
        def cap(d):
            data["d"] = d
            return None
        run_one(sc, seed, victim, {idx[0]: ("mutate", cap)})
    return ok, (idx[0] if idx else None), data.get("d"), out


def proof_field(data, sc, field, kexkind):
    fs = msgstruct.describe(data, sc.version, kexkind)
    if field == "ext":
        # binder of the last identity in pre_shared_key
        cand = [f for f in fs if f.kind == "opaque" and
                ".binder." in f.name]
        return cand[-1] if cand else None
    cand = [f for f in fs if f.kind == "opaque" and
            (f.name.startswith(field) or ("." + field) in f.name)]
    return cand[0] if cand else None


def resize(data, fld, fields, new_bytes):
    """Replace an opaque field's content with bytes of another length and
    fix its length prefix and the handshake header."""
    d = bytearray(data)
    delta = len(new_bytes) - fld.width
    d[fld.off:fld.off + fld.width] = new_bytes
    for g in fields:
        if g.kind == "len" and g.end is not None and g.off < fld.off and \
                g.end >= fld.off + fld.width:
            cur = int.from_bytes(data[g.off:g.off + g.width], "big")
            nv = cur + delta
            if nv < 0 or nv >= 1 << (8 * g.width):
                return None
            d[g.off:g.off + g.width] = nv.to_bytes(g.width, "big")
    return bytes(d)


def prefix_binder_hello(data, k):
    """The captured PSK ClientHello with its last binder replaced by the
    first k octets of the binder that is correct for the resulting hello
    (PSK of scen flavour "psk")."""
    from tlslite.messages import ClientHello
    from tlslite.utils.codec import Parser
    from tlslite.handshakehelpers import HandshakeHelpers
    from tlslite.handshakehashes import HandshakeHashes
    ch = ClientHello().parse(Parser(bytearray(data[1:])))
    ext = ch.extensions[-1]
    if not getattr(ext, "binders", None):
        return None
    full = len(ext.binders[-1])
    ext.binders[-1] = bytearray(k)
    hh = HandshakeHashes()
    hh.update(ch.psk_truncate())
    right = HandshakeHelpers._calc_binder("sha256", bytearray(b"\x5a" * 32),
                                          hh, True)
    if len(right) != full:
        return None
    ext.binders[-1] = bytearray(right[:k])
    return bytes(ch.write())


def kexkind(sc):
    info = S.ALL_INFOS.get(sc.suite)
    if info is None or info.tls13:
        return None
    return {"RSA": "rsa", "DHE": "dh", "DH": "dh", "ECDHE": "ecdh",
            "ECDH": "ecdh", "SRP": "srp"}[info.kex]


def judge(pair, out, victim, what):
    """Verifier must fail and must not attribute the identity."""
    v = out[victim]
    ep = pair.ep(victim)
    fails = []
    if v.status == "ok":
        sess = ep.session
        ident = None
        if sess is not None:
            ident = (W.chain_fp(sess.serverCertChain) if victim == "C"
                     else W.chain_fp(sess.clientCertChain)) or \
                sess.srpUsername
        fails.append("verifier completed the handshake after %s (identity "
                     "recorded: %r)" % (what, ident))
    elif v.status == "exc":
        e = v.exc
        if not isinstance(e, (E.TLSAlert, E.TLSAbruptCloseError, OSError,
                              E.TLSAuthenticationError)):
            fails.append("verifier raised %s: %s" % (type(e).__name__,
                                                     str(e)[:60]))
        if not ep.closed:
            fails.append("verifier not closed")
    elif v.status == "budget":
        fails.append("verifier spins")
    return fails


def site_case(item):
    si, tier, seed = item
    name, sc, victim, tok, field = sites(tier)[si]
    rec = {"site": name, "n": 0, "fails": [], "sigs": set()}
    ok, idx, data, out = capture(sc, seed, victim, tok)
    if not ok or idx is None or data is None:
        rec["fails"].append(("honest", "honest run failed or message %s "
                             "missing: %r" % (tok, out)))
        return rec
    kk = kexkind(sc)
    fields = msgstruct.describe(data, sc.version, kk)
    fld = proof_field(data, sc, field, kk)
    if fld is None:
        rec["fails"].append(("honest", "proof field not found in %s" % tok))
        return rec
    proof = data[fld.off:fld.off + fld.width]
    cases = []
    # bit/byte flips
    positions = range(fld.width) if tier == "thorough" else sorted(set(
        [0, 1, fld.width // 2, fld.width - 2, fld.width - 1]))
    for pos in positions:
        if pos < 0 or pos >= fld.width:
            continue
        for mask in ((1, 0x80) if tier == "quick" else (1, 2, 4, 8, 16, 32,
                                                       64, 128)):
            b = bytearray(data)
            b[fld.off + pos] ^= mask
            cases.append(("flip[%d]^%02x" % (pos, mask), bytes(b)))
    # empty / one short / one long / zeros / all-ff
    for lab, nb in (("empty", b""), ("short-by-1", proof[:-1]),
                    ("long-by-1", proof + b"\x00"),
                    ("zeros", bytes(len(proof))),
                    ("ones", b"\xff" * len(proof))):
        if field == "verify_data" and lab in ("empty", "short-by-1",
                                              "long-by-1"):
            # Finished has no inner length prefix: resize the message
            nd = data[:fld.off] + nb
            nd = nd[:1] + (len(nd) - 4).to_bytes(3, "big") + nd[4:]
            cases.append((lab, bytes(nd)))
            continue
        nd = resize(data, fld, fields, nb)
        if nd is not None and nd != data:
            cases.append((lab, nd))
    # binder that is a prefix of the right one, with the right one computed
    # over the hello *as sent* (the lengths inside the truncated hello change
    # with the binder's length, so cutting the honest binder alone gives a
    # binder that is wrong for two reasons)
    if field == "ext":
        ks = range(0, len(proof)) if tier == "thorough" else \
            (1, 2, len(proof) // 2, len(proof) - 1)
        # control: at full length the rebuilt hello is the honest one, octet
        # for octet (else the prefixes below are wrong for another reason)
        if prefix_binder_hello(data, len(proof)) != bytes(data):
            rec["fails"].append(("binder-prefix-control",
                                 "the hello rebuilt around the recomputed "
                                 "full-length binder differs from the honest "
                                 "hello: prefix cases are vacuous"))
        for k in ks:
            nd = prefix_binder_hello(data, k)
            if nd is not None and nd != data:
                cases.append(("binder-prefix-%d-of-recomputed" % k, nd))
    # key-independent degenerate signatures (classic universal forgeries
    # against verifiers that skip a range check)
    if field == "signature":
        for lab, nb in (
                ("der-r1-s0", bytes.fromhex("3006020101020100")),
                ("der-r0-s0", bytes.fromhex("3006020100020100")),
                ("der-r0-s1", bytes.fromhex("3006020100020101")),
                ("der-r1-s1", bytes.fromhex("3006020101020101")),
                ("der-empty-seq", bytes.fromhex("3000")),
                ("raw-one", bytes(len(proof) - 1) + b"\x01"),
                ("eddsa-identity-R-zero-S",
                 b"\x01" + bytes(len(proof) - 1))):
            nd = resize(data, fld, fields, nb)
            if nd is not None and nd != data:
                cases.append((lab, nd))
    # proof taken from another handshake (other randoms)
    ok2, idx2, data2, _ = capture(sc, seed + 1000, victim, tok)
    if ok2 and data2 is not None:
        f2 = proof_field(data2, sc, field, kk)
        if f2 is not None:
            other = data2[f2.off:f2.off + f2.width]
            if other != proof:
                nd = resize(data, fld, fields, other) if len(other) != \
                    len(proof) else (data[:fld.off] + other +
                                     data[fld.off + fld.width:])
                if nd is not None:
                    cases.append(("proof-from-other-handshake", nd))
            else:
                # two handshakes with different randoms produced the very
                # same proof: it does not depend on the handshake at all
                # and any recorded one can be replayed
                rec["n"] += 1
                rec["sigs"].add(("proof-from-other-handshake", ("identical",)))
                rec["fails"].append((
                    "proof-from-other-handshake",
                    "the proof of another handshake (other randoms) is "
                    "byte-identical to this handshake's: it is accepted and "
                    "does not depend on the transcript"))
    # signature algorithm field altered (scheme confusion)
    sa = [f for f in fields if f.name in ("sig_alg",)]
    if sa:
        cur = int.from_bytes(data[sa[0].off:sa[0].off + 2], "big")
        for alg in (0x0201, 0x0101, 0x0401, 0x0403, 0x0804, 0x0807, 0x0809,
                    0x0203, 0x0402, 0x0000, 0xffff):
            if alg != cur:
                b = bytearray(data)
                b[sa[0].off:sa[0].off + 2] = alg.to_bytes(2, "big")
                cases.append(("sig_alg=%04x" % alg, bytes(b)))
    for (lab, nd) in cases:
        r = run_one(sc, seed, victim, {idx: ("replace", nd)})
        if r is None:
            continue
        pair, pup, out = r
        rec["n"] += 1
        rec["sigs"].add((lab.split("[")[0].split("=")[0],
                         out[victim].sig()[:3]))
        for f in judge(pair, out, victim, lab):
            rec["fails"].append((lab, f))
    # proof message omitted
    if tok in ("CV",):
        r = run_one(sc, seed, victim, {idx: ("skip",)})
        pair, pup, out = r
        rec["n"] += 1
        rec["sigs"].add(("skip", out[victim].sig()[:3]))
        for f in judge(pair, out, victim, "CertificateVerify omitted"):
            rec["fails"].append(("skip", f))
    rec["sigs"] = sorted(rec["sigs"], key=repr)
    return rec


def mismatch_cases(tier):
    """Chain A presented with key B; wrong SRP password; Checker mismatch;
    scheme not offered."""
    L = []
    pairs = [("rsa", "rsa_nonca"), ("rsa", "c_rsa"), ("ecdsa", "c_ecdsa"),
             ("ecdsa", "ecdsa_nonca"), ("ed25519", "c_ed25519"),
             ("dsa", "c_dsa"), ("rsapss", "rsa")]
    for (a, b) in pairs:
        for v in ((3, 4), (3, 3), (3, 1)):
            if v < (3, 3) and a in ("ed25519", "rsapss"):
                continue
            if v == (3, 4) and a == "dsa":
                continue
            L.append(("server-chain-%s-key-%s-%s" % (a, b, S.VNAME[v]),
                      "server-mismatch", a, b, v))
            L.append(("client-chain-%s-key-%s-%s" % (a, b, S.VNAME[v]),
                      "client-mismatch", a, b, v))
    for v in ((3, 1), (3, 3)):
        L.append(("srp-wrong-password-%s" % S.VNAME[v], "srp", None, None,
                  v))
    # a client that does not know the password but sends A = k*N, which
    # forces the server's premaster secret to 0, and keys itself from 0
    for v in ((3, 1), (3, 3)):
        for k in (0, 1, 2, 3, 7, 2 ** 64, 2 ** 64 + 1):
            for fl in ("srp", "srpcert"):
                L.append(("srp-degenerate-A=%dN-%s-%s" % (k, fl, S.VNAME[v]),
                          "srp-degenerate", fl, k, v))
    for v in ((3, 1), (3, 3), (3, 4)):
        L.append(("checker-mismatch-client-%s" % S.VNAME[v], "checker-C",
                  None, None, v))
        L.append(("checker-mismatch-server-%s" % S.VNAME[v], "checker-S",
                  None, None, v))
        L.append(("checker-match-client-%s" % S.VNAME[v], "checker-C-ok",
                  None, None, v))
    # a client that merely *names* an SRP user in its hello while an
    # ordinary certificate / anonymous handshake takes place: no password
    # proof, so no user name may be attributed
    for v in ((3, 1), (3, 3), (3, 4)):
        for fl in ("cert", "anon"):
            if fl == "anon" and v == (3, 4):
                continue
            L.append(("srp-name-only-%s-%s" % (fl, S.VNAME[v]),
                      "srp-name-only", fl, None, v))
    for v in ((3, 3), (3, 4)):
        for role in ("server", "client"):
            L.append(("scheme-not-offered-%s-%s" % (role, S.VNAME[v]),
                      "unoffered-" + role, None, None, v))
    return L


class _Unverified(object):
    """Wraps a private key whose public half does not match the chain: the
    library's own sign-then-verify self-check must not stop the prover."""


def mismatch_case(item):
    mi, tier, seed = item
    name, kind, a, b, v = mismatch_cases(tier)[mi]
    fails = []
    sig = None
    if kind in ("server-mismatch", "client-mismatch"):
        chain, _ = load_cred(a)
        _, key = load_cred(b)
        info_suite = None
        if v == (3, 4):
            suite = CS.TLS_AES_128_GCM_SHA256
        elif a in ("rsa", "rsapss"):
            suite = CS.TLS_ECDHE_RSA_WITH_AES_128_CBC_SHA if v < (3, 3) \
                else CS.TLS_ECDHE_RSA_WITH_AES_128_GCM_SHA256
        elif a == "dsa":
            suite = CS.TLS_DHE_DSS_WITH_AES_128_CBC_SHA
        else:
            suite = CS.TLS_ECDHE_ECDSA_WITH_AES_128_CBC_SHA if v < (3, 3) \
                else CS.TLS_ECDHE_ECDSA_WITH_AES_128_GCM_SHA256
        if kind == "server-mismatch":
            sc = S.Scen("c05/" + name, version=v, cred=a, suite=suite)
            r = run_one(sc, seed, "C", {}, server_cred=(chain, key))
            victim = "C"
        else:
            sc = S.Scen("c05/" + name, version=v, cred="rsa", req_cert=True,
                        suite=suite if a in ("rsa", "rsapss") else (
                            CS.TLS_AES_128_GCM_SHA256 if v == (3, 4) else
                            CS.TLS_RSA_WITH_AES_128_CBC_SHA))
            if a == "rsapss":
                return name, None, []
            r = run_one(sc, seed, "S", {}, client_cred=(chain, key))
            victim = "S"
        pair, pup, out = r
        sig = (kind, out[victim].sig()[:3])
        fails = judge(pair, out, victim, "chain %s with key %s" % (a, b))
    elif kind == "srp-name-only":
        from tlslite.messages import ClientHello
        from tlslite.utils.codec import Parser
        if a == "anon":
            sc = S.Scen("c05/" + name, version=v, flavour="anon",
                        suite=CS.TLS_DH_ANON_WITH_AES_128_CBC_SHA)
        else:
            sc = S.Scen("c05/" + name, version=v, cred="rsa")

        def add_name(d):
            ch = ClientHello().parse(Parser(bytearray(d[1:])))
            ch.srp_username = bytearray(b"alice")
            return bytes(ch.write())
        r = run_one(sc, seed, "S", {0: ("mutate", add_name)})
        if r is None:
            return name, None, []
        pair, pup, out = r
        sig = (kind, out["S"].sig()[:3])
        if out["S"].status == "ok":
            got = pair.s.session.srpUsername
            if got:
                fails.append("server completed a %s handshake and recorded "
                             "SRP user %r although no SRP exchange took "
                             "place" % (a, got))
        # resumption of that session must not attribute it either
        return name, sig, fails
    elif kind == "srp":
        sc = S.Scen("c05/" + name, version=v, flavour="srp", cred=None,
                    suite=CS.TLS_SRP_SHA_WITH_AES_128_CBC_SHA)
        r = run_one(sc, seed, "S", {}, client_password=b"wrong-password")
        pair, pup, out = r
        sig = (kind, out["S"].sig()[:3])
        fails = judge(pair, out, "S", "wrong SRP password")
        if pair.s.session is not None and pair.s.session.srpUsername and \
                out["S"].status == "ok":
            fails.append("srpUsername recorded")
    elif kind == "srp-degenerate":
        from tlslite import keyexchange as KX
        from tlslite.utils.cryptomath import numberToByteArray
        fl, k = a, b
        sc = S.Scen("c05/" + name, version=v, flavour=fl,
                    cred=None if fl == "srp" else "rsa",
                    suite=CS.TLS_SRP_SHA_WITH_AES_128_CBC_SHA if fl == "srp"
                    else CS.TLS_SRP_SHA_RSA_WITH_AES_128_CBC_SHA)
        orig = KX.SRPKeyExchange.processServerKeyExchange

        def evil(self, srvPublicKey, serverKeyExchange):
            orig(self, srvPublicKey, serverKeyExchange)
            self.A = k * serverKeyExchange.srp_N
            return numberToByteArray(0)
        KX.SRPKeyExchange.processServerKeyExchange = evil
        try:
            r = run_one(sc, seed, "S", {}, client_password=b"no idea")
        finally:
            KX.SRPKeyExchange.processServerKeyExchange = orig
        pair, pup, out = r
        sig = (kind, out["S"].sig()[:3])
        fails = judge(pair, out, "S", "SRP A = %d*N (premaster forced to 0, "
                      "password unknown)" % k)
        if pair.s.session is not None and pair.s.session.srpUsername and \
                out["S"].status == "ok":
            fails.append("srpUsername recorded")
    elif kind.startswith("checker"):
        suite = CS.TLS_AES_128_GCM_SHA256 if v == (3, 4) else \
            CS.TLS_RSA_WITH_AES_128_CBC_SHA
        good = kind.endswith("-ok")
        if kind.startswith("checker-C"):
            sc = S.Scen("c05/" + name, version=v, cred="rsa", suite=suite)
            chain, _ = load_cred("rsa")
            fp = chain.getFingerprint() if good else "00" * 20
            r = run_one(sc, seed, "C", {},
                        checker=Checker(x509Fingerprint=fp))
            victim = "C"
        else:
            sc = S.Scen("c05/" + name, version=v, cred="rsa", suite=suite,
                        client_cred="c_rsa", req_cert=True)
            r = run_one(sc, seed, "S", {}, client_cred=load_cred("c_rsa"),
                        checker=Checker(x509Fingerprint="00" * 20))
            victim = "S"
        pair, pup, out = r
        sig = (kind, out[victim].sig()[:3])
        if good:
            if out[victim].status != "ok":
                fails.append("matching Checker rejected: %r" % (out,))
        else:
            fails = judge(pair, out, victim, "Checker mismatch")
            if out[victim].status == "exc" and not isinstance(
                    out[victim].exc, E.TLSAuthenticationError):
                fails.append("Checker mismatch raised %r" %
                             (out[victim].exc,))
    elif kind.startswith("unoffered"):
        # the verifier offers only sha256-based RSA; a MITM rewrites the
        # offer seen by the prover so that it signs with SHA-1 / SHA-384
        role = kind.split("-")[1]
        suite = CS.TLS_AES_128_GCM_SHA256 if v == (3, 4) else \
            CS.TLS_ECDHE_RSA_WITH_AES_128_GCM_SHA256
        restrict = {"rsaSigHashes": ["sha256"], "ecdsaSigHashes": [],
                    "dsaSigHashes": [], "more_sig_schemes": []}
        if v == (3, 4):
            # TLS 1.3: the transcript keys the handshake, so the offer
            # cannot be rewritten in flight; the puppet prover is made to
            # pick a scheme the verifier did not offer instead
            import tlslite.tlsconnection as TC
            from tlslite.constants import SignatureScheme as SS
            forced = SS.rsa_pss_rsae_sha384
            if role == "server":
                sc = S.Scen("c05/" + name, version=v, cred="rsa",
                            suite=suite, cset=dict(restrict))
                victim = "C"
            else:
                sc = S.Scen("c05/" + name, version=v, cred="rsa",
                            suite=suite, client_cred="c_rsa", req_cert=True,
                            sset=dict(restrict))
                victim = "S"
            orig_gfm = TC.getFirstMatching
            prover = "S" if victim == "C" else "C"

            def gfm(a, b):
                if SEAMS.current == prover and a and forced in list(a) and \
                        b and isinstance(list(b)[0], tuple):
                    return forced
                return orig_gfm(a, b)
            TC.getFirstMatching = gfm
            try:
                SEAMS.reset(seed, sc.name)
                pair = Pair(World())
                if role == "server":
                    pair.s._pickServerKeyExchangeSig = (
                        lambda settings, ch, cert=None, key=None,
                        version=(3, 3), check_alt=True:
                        ("rsa_pss_rsae_sha384", cert, key))
                SEAMS.current = "C"
                cg = sc.client_gen(pair.c)
                SEAMS.current = "S"
                sg = sc.server_gen(pair.s)
                SEAMS.current = "main"
                out = pair.handshake(cg, sg, max_steps=60000)
            finally:
                TC.getFirstMatching = orig_gfm
            sig = (kind, out[victim].sig()[:3])
            used = pair.ep(victim).serverSigAlg if victim == "C" else None
            fails = judge(pair, out, victim, "signature scheme "
                          "rsa_pss_rsae_sha384 which the verifier did not "
                          "offer")
            return name, sig, fails
        if role == "server":
            sc = S.Scen("c05/" + name, version=v, cred="rsa", suite=suite,
                        cset=dict(restrict))
            victim = "C"

            def mitm(w):
                st = {"done": False}

                def f(pipe, i, rec):
                    if st["done"] or rec[0] != 22 or rec[5] != 1:
                        return [rec]
                    st["done"] = True
                    body = rec[5:]
                    fs = msgstruct.describe(body, (3, 3))
                    b = bytearray(body)
                    for fl in fs:
                        if fl.name.endswith(".sigalgs.alg"):
                            b[fl.off:fl.off + 2] = b"\x08\x05" \
                                if v == (3, 4) else b"\x02\x01"
                    return [rec[:5] + bytes(b)]
                w.c2s.mitm = f
            r = run_one(sc, seed, victim, {}, mitm=mitm)
        else:
            sc = S.Scen("c05/" + name, version=v, cred="rsa", suite=suite,
                        client_cred="c_rsa", req_cert=True,
                        sset=dict(restrict))
            victim = "S"
            # corrupt the CertificateRequest's algorithm list as seen by the
            # client: done by the puppet server itself (keeps transcript)

            def mut(d):
                fs = msgstruct.describe(d, v)
                b = bytearray(d)
                for fl in fs:
                    if fl.name.endswith("sigalgs.alg") or \
                            fl.name.endswith("sig_algs.alg"):
                        b[fl.off:fl.off + 2] = b"\x08\x05" \
                            if v == (3, 4) else b"\x02\x01"
                return bytes(b)
            # the *server* is the verifier here, so the mutation has to be
            # applied by the victim's own sender: not a puppet of the peer.
            # Use a MITM for TLS<=1.2 (plaintext CR); skip 1.3.
            if v == (3, 4):
                return name, None, []

            def mitm(w):
                def f(pipe, i, rec):
                    if rec[0] != 22:
                        return [rec]
                    body = bytearray(rec[5:])
                    o = 0
                    out_b = b""
                    while o + 4 <= len(body):
                        ln = int.from_bytes(body[o + 1:o + 4], "big")
                        m = bytes(body[o:o + 4 + ln])
                        if m[0] == 13:
                            m = mut(m)
                        out_b += m
                        o += 4 + ln
                    return [rec[:5] + out_b]
                w.s2c.mitm = f
            r = run_one(sc, seed, victim, {}, mitm=mitm)
        pair, pup, out = r
        sig = (kind, out[victim].sig()[:3])
        fails = judge(pair, out, victim, "signature scheme not offered by "
                      "the verifier")
    return name, sig, fails


def pha_case(item):
    """Post-handshake authentication: corrupted CertificateVerify / Finished
    / context must not record the client chain."""
    tier, seed = item
    sc = S.Scen("c05/pha", version=(3, 4), cred="rsa", client_cred="c_rsa",
                suite=CS.TLS_AES_128_GCM_SHA256)
    res = {"n": 0, "fails": [], "sigs": set()}

    def setup():
        pair, out = S.connect(sc, seed=seed)
        pair.drain()
        W.run_gen(pair.world, "S", pair.s.request_post_handshake_auth(
            sc.server_settings()))
        return pair
    pair = setup()
    pup = Puppet(pair.c, {})
    pair.read("C", None, 0)
    honest = list(pup.honest)
    data_of = {}
    pair = setup()
    Puppet(pair.c, dict((i, ("mutate", (lambda i: (
        lambda d: data_of.__setitem__(i, d)))(i))) for i, t in honest))
    pair.read("C", None, 0)
    pair.read("S", None, 0)
    if pair.s.session.clientCertChain is None:
        res["fails"].append(("honest", "honest PHA did not record the "
                             "client chain"))
        return res
    for (i, tok) in honest:
        if tok not in ("CV", "FIN", "CERT", "CCERT") or i not in data_of:
            continue
        d = data_of[i]
        fs = msgstruct.describe(d, (3, 4))
        muts = []
        if tok == "CV":
            f = [x for x in fs if x.name.startswith("signature.")][0]
            for pos in (0, f.width // 2, f.width - 1):
                b = bytearray(d)
                b[f.off + pos] ^= 1
                muts.append(("cv-flip[%d]" % pos, bytes(b)))
            sa = [x for x in fs if x.name == "sig_alg"][0]
            for alg in (0x0201, 0x0401, 0x0807):
                b = bytearray(d)
                b[sa.off:sa.off + 2] = alg.to_bytes(2, "big")
                muts.append(("cv-alg=%04x" % alg, bytes(b)))
        elif tok == "FIN":
            for pos in (4, len(d) // 2, len(d) - 1):
                b = bytearray(d)
                b[pos] ^= 1
                muts.append(("fin-flip[%d]" % pos, bytes(b)))
        else:
            f = [x for x in fs if x.name.startswith("context")]
            if f and f[0].kind == "len":
                pass
            # corrupt the request context (first byte after the header is
            # its length; context bytes follow)
            if d[0] == 11 and d[4] > 0:
                b = bytearray(d)
                b[5] ^= 1
                muts.append(("cert-context-flip", bytes(b)))
        for (lab, nd) in muts:
            p = setup()
            Puppet(p.c, {i: ("replace", nd)})
            p.read("C", None, 0)
            o = None
            for _ in range(4):
                o = p.read("S", None, 0)
                if o.status != "ok":
                    break
            res["n"] += 1
            res["sigs"].add((lab.split("[")[0], o.sig()[:3]))
            if p.s.session.clientCertChain is not None:
                res["fails"].append((lab, "client chain recorded after "
                                     "corrupted PHA %s" % lab))
            if o.status == "exc" and not isinstance(
                    o.exc, (E.TLSAlert, E.TLSAbruptCloseError, OSError)):
                res["fails"].append((lab, "server raised %r" % (o.exc,)))
            if o.status != "exc":
                res["fails"].append((lab, "corrupted PHA flight not "
                                     "rejected: %r" % (o,)))
    # CertificateVerify omitted
    cvi = [i for i, t in honest if t == "CV"]
    if cvi:
        p = setup()
        Puppet(p.c, {cvi[0]: ("skip",)})
        p.read("C", None, 0)
        o = None
        for _ in range(4):
            o = p.read("S", None, 0)
            if o.status != "ok":
                break
        res["n"] += 1
        res["sigs"].add(("cv-skip", o.sig()[:3]))
        if p.s.session.clientCertChain is not None:
            res["fails"].append(("cv-skip", "client chain recorded without "
                                 "CertificateVerify"))
    res["sigs"] = sorted(res["sigs"], key=repr)
    return res


TI_SUITES = {"sha256": CS.TLS_AES_128_GCM_SHA256,
             "sha384": CS.TLS_AES_256_GCM_SHA384}
TI_NAMES = {"sha256": ["aes128gcm"], "sha384": ["aes256gcm"],
            "both256": ["aes128gcm", "aes256gcm"],
            "both384": ["aes256gcm", "aes128gcm"]}


def ticket_identity_cases(tier):
    L = []
    for vhash in ("sha256", "sha384"):
        for offer in ("sha256", "sha384", "both256", "both384"):
            for secret in ("real", "fake"):
                for age in ("fresh", "expired"):
                    for own in (None, "c_ecdsa"):
                        for ext_psk in (False, True):
                            L.append((vhash, offer, secret, age, own,
                                      ext_psk))
    return L


def ticket_identity_case(item):
    """TLS 1.3 server with tickets and reqCert: a ticket issued to a
    certificate-authenticated victim is *offered* by a second client under
    every combination of (knows the resumption secret or not, offers a suite
    with the ticket's hash or not, ticket within its lifetime or not, has a
    certificate of its own or not, also offers an external PSK it knows).
    The server may attribute the victim's chain only when the client ends up
    resumed on that ticket, which needs the binder and so the secret."""
    import copy
    (vhash, offer, secret, age, own, ext_psk), seed = item
    name = "ticket/%s-%s-%s-%s-%s-%s" % (vhash, offer, secret, age, own or
                                         "nocert", "ext" if ext_psk else
                                         "noext")
    sset = {"ticketLifetime": 1000, "ticket_count": 1}
    psk = [(b"verif-ext", b"\x33" * 32, "sha256")]
    if ext_psk:
        sset["pskConfigs"] = psk
    vic = S.Scen("c05/" + name + "/victim", version=(3, 4), cred="rsa",
                 client_cred="c_rsa", req_cert=True, tickets=True,
                 suite=TI_SUITES[vhash], sset=sset)
    pair, out = S.connect(vic, seed=seed)
    if out["C"].status != "ok" or out["S"].status != "ok":
        return name, None, ["victim handshake failed: %r %r" % (out["C"],
                                                                out["S"])]
    pair.drain()
    vsess = pair.c.session
    vfp = W.chain_fp(load_cred("c_rsa")[0])
    if W.chain_fp(pair.s.session.clientCertChain) != vfp or \
            not vsess.tickets:
        return name, None, ["setup: victim not authenticated or no ticket"]
    sess = copy.deepcopy(vsess)
    for t in sess.tickets:
        t.ticket_lifetime = 6 * 24 * 3600     # the client's own filter
    if secret == "fake":
        sess.resumptionMasterSecret = bytearray(
            b"\xa5" * len(sess.resumptionMasterSecret))
    now = SEAMS.now + (5000 if age == "expired" else 5)
    cset = {"cipherNames": TI_NAMES[offer]}
    if ext_psk:
        cset["pskConfigs"] = psk
    att = S.Scen("c05/" + name + "/second", version=(3, 4), cred="rsa",
                 client_cred=own, req_cert=True, tickets=True, sset=sset,
                 cset=cset)
    st_c = att.client_settings()
    st_c.cipherNames = TI_NAMES[offer]
    st_s = att.server_settings()
    SEAMS.reset(seed + 1, att.name, now=now)
    pair2, out2 = S.connect(att, session=sess, reset=False, csettings=st_c,
                            ssettings=st_s)
    fails = []
    s_ok = out2["S"].status == "ok"
    c_ok = out2["C"].status == "ok"
    got = W.chain_fp(pair2.s.session.clientCertChain) \
        if s_ok and pair2.s.session else None
    c_resumed = bool(c_ok and pair2.c.resumed)
    ownfp = W.chain_fp(load_cred(own)[0]) if own else None
    sig = ("ticket-identity", secret, age, "hash-match" if (
        offer.startswith("both") or offer == vhash) else "hash-differs",
        own or "nocert", ext_psk, out2["S"].sig()[:2], c_resumed,
        "victim" if got == vfp else "own" if got and got == ownfp else
        "none" if got is None else "other")
    if s_ok:
        if got == vfp:
            if secret != "real":
                fails.append("victim's chain attributed to a client that "
                             "does not know the ticket's resumption secret")
            elif not c_resumed:
                fails.append("victim's chain attributed although the ticket "
                             "was not the selected PSK (client not resumed)")
            elif age == "expired":
                fails.append("expired ticket restored the victim's identity")
        elif got is not None and got != ownfp:
            fails.append("unknown chain attributed: %r" % (got,))
        elif got is not None and own is None:
            fails.append("chain attributed to a client without a certificate")
        if secret == "real" and age == "fresh" and not ext_psk and \
                offer == vhash and got != vfp:
            fails.append("honest resumption lost the client identity "
                         "(got %r)" % (got,))
    elif out2["S"].status == "exc" and not isinstance(
            out2["S"].exc, (E.TLSAlert, E.TLSAbruptCloseError, OSError)):
        fails.append("server raised %r" % (out2["S"].exc,))
    return name, sig, fails


# ------------------------------------------------- delegated credentials
DC_KEYS = {
    "p256": ("serverDelCredSECP256r1Key.pem", "serverDelCredSECP256r1Pub.pem",
             "ecdsa_secp256r1_sha256"),
    "p384": ("serverDelCredSECP384r1Key.pem", "serverDelCredSECP384r1Pub.pem",
             "ecdsa_secp384r1_sha384"),
    "ed25519": ("serverDelCredEd25519Key.pem", "serverDelCredEd25519Pub.pem",
                "ed25519"),
}
# leaf credential -> (delegation signature scheme, rogue credential of the
# same key type that the attacker really owns)
DC_LEAVES = {"ecdsa": ("ecdsa_secp256r1_sha256", "c_ecdsa"),
             "rsa": ("rsa_pss_rsae_sha256", "c_rsa")}
DC_SHAPES = ["honest", "honest-chain2", "dc-on-entry1", "dc-on-entry1-and-0",
             "issuer-other-key", "issuer-other-cert", "cv-other-key",
             "cv-leaf-key", "sig-flip-first", "sig-flip-mid", "sig-flip-last",
             "two-dc-exts", "client-not-offering", "dc-alg-not-offered"]


def _dc_key(name):
    from tlslite.utils.keyfactory import parsePEMKey
    from tlslite.utils.pem import dePem
    import os
    keyf, pubf, alg = DC_KEYS[name]
    with open(os.path.join(W.TESTS, keyf)) as f:
        key = parsePEMKey(f.read(), private=True, implementations=["python"])
    with open(os.path.join(W.TESTS, pubf)) as f:
        pub = dePem(f.read(), "PUBLIC KEY")
    return key, pub, getattr(SignatureScheme, alg)


def _make_dc(cert, key, deleg_alg, dc_pub, dc_alg):
    from tlslite.x509 import Credential, DelegatedCredential
    from tlslite.handshakesettings import DC_VALID_TIME
    from tlslite.constants import HashAlgorithm
    cred_bytes = Credential.marshal(DC_VALID_TIME, dc_alg, dc_pub)
    cred = Credential(valid_time=DC_VALID_TIME,
                      dc_cert_verify_algorithm=dc_alg,
                      subject_public_key_info=dc_pub, bytes=cred_bytes)
    to_sign = DelegatedCredential.compute_certificate_dc_sig_context(
        cert.bytes, cred_bytes, deleg_alg)
    if deleg_alg[1] == 3:       # ecdsa
        sig = key.hashAndSign(to_sign, None,
                              HashAlgorithm.toRepr(deleg_alg[0]), None)
    else:
        sig = key.hashAndSign(to_sign, "pss", "sha256", 32)
    return DelegatedCredential(cred=cred, algorithm=deleg_alg,
                               signature=sig)


def dc_cases(tier):
    out = []
    for leaf in DC_LEAVES:
        for dck in DC_KEYS:
            if tier == "quick" and (leaf, dck) not in (
                    ("ecdsa", "p256"), ("ecdsa", "ed25519"), ("rsa", "p256"),
                    ("rsa", "p384")):
                continue
            for shape in DC_SHAPES:
                out.append((leaf, dck, shape))
    return out


def dc_case(item):
    """RFC 9345: the server is attributed chain[0] on the strength of a
    CertificateVerify made with a delegated key only if that key was
    delegated by chain[0]'s own key, on chain[0]'s own entry."""
    r = dc_run(item)
    if r is None:
        (leaf, dck, shape), seed = item
        return "dc/%s/%s/%s" % (leaf, dck, shape), None, []
    name, shape, accept, pair, out, chain = r
    sig = ("dc", shape, out["C"].sig()[:3])
    fails = []
    if accept:
        if out["C"].status != "ok" or out["S"].status != "ok":
            fails.append("honest delegated-credential handshake failed: %r / "
                         "%r" % (out["C"].sig(), out["S"].sig()))
        else:
            if W.chain_fp(pair.c.session.serverCertChain) != \
                    W.chain_fp(chain):
                fails.append("client recorded another chain than was sent")
            pair.write("C", b"ping")
            r = pair.read("S", None, 4)
            if r.status != "ok" or bytes(r.value) != b"ping":
                fails.append("data after DC handshake: %r" % (r.sig(),))
    else:
        fails += judge(pair, out, "C", "delegated credential shape %s" %
                       shape)
    return name, sig, fails


def dc_run(item, prepare=None):
    """One delegated-credential handshake; (name, shape, accept, pair, out,
    chain sent) or None when the shape does not exist for these keys."""
    (leaf, dck, shape), seed = item
    from tlslite.x509certchain import X509CertChain
    from tlslite.extensions import DelegatedCredentialCertExtension, \
        DelegatedCredentialExtension
    name = "dc/%s/%s/%s" % (leaf, dck, shape)
    deleg_name, rogue_name = DC_LEAVES[leaf]
    deleg_alg = getattr(SignatureScheme, deleg_name)
    lchain, lkey = load_cred(leaf)
    rchain, rkey = load_cred(rogue_name)
    dc_key, dc_pub, dc_alg = _dc_key(dck)
    other_dck = [k for k in DC_KEYS if k != dck][0]
    accept = shape in ("honest", "honest-chain2")
    chain = X509CertChain(list(lchain.x509List))
    issuer_cert, issuer_key = lchain.x509List[0], lkey
    sign_cert = issuer_cert
    srv_dc_key = dc_key
    entry = [0]
    n_ext = 1
    if shape == "honest-chain2":
        chain = X509CertChain(list(lchain.x509List) + list(rchain.x509List))
    elif shape in ("dc-on-entry1", "dc-on-entry1-and-0"):
        # the attacker owns the rogue certificate only
        chain = X509CertChain(list(lchain.x509List) + list(rchain.x509List))
        issuer_cert, issuer_key = rchain.x509List[0], rkey
        sign_cert = issuer_cert
        entry = [1] if shape == "dc-on-entry1" else [1, 0]
    elif shape == "issuer-other-key":
        issuer_key = rkey
    elif shape == "issuer-other-cert":
        sign_cert = rchain.x509List[0]
    elif shape == "cv-other-key":
        if dck == "ed25519":
            from tlslite.utils.keyfactory import parsePEMKey
            srv_dc_key = load_cred("ed25519")[1]
        else:
            srv_dc_key = load_cred({"p256": "c_ecdsa",
                                    "p384": "ecdsa384"}[dck])[1]
    elif shape == "cv-leaf-key":
        if not (leaf == "ecdsa" and dck == "p256"):
            return None
        srv_dc_key = lkey
    elif shape == "two-dc-exts":
        n_ext = 2
    SEAMS.reset(seed, name)
    SEAMS.current = "S"
    dc = _make_dc(sign_cert, issuer_key, deleg_alg, dc_pub, dc_alg)
    if shape.startswith("sig-flip"):
        where = shape.split("-")[-1]
        b = bytearray(dc.signature)
        i = {"first": 0, "mid": len(b) // 2, "last": len(b) - 1}[where]
        b[i] ^= 1
        dc.signature = b
    SEAMS.current = "main"
    pair = Pair(World())
    if prepare:
        prepare(pair)
    sc = S.Scen(name, version=(3, 4), cred=leaf)
    st_c, st_s = sc.client_settings(), sc.server_settings()
    offered = [dc_alg]
    if shape == "client-not-offering":
        offered = []
    elif shape == "dc-alg-not-offered":
        offered = [DC_KEYS[other_dck][2] and getattr(
            SignatureScheme, DC_KEYS[other_dck][2])]
    st_c.dc_sig_algs = list(offered)
    srv = pair.s
    orig_cert = srv._create_cert_msg

    def create_cert_msg(peer, request_msg, algos, cert_chain, cert_type,
                        cert_context=b'', version=(3, 2), ext=None):
        if ext is not None and peer == "server":
            exts0 = list(ext[0])
            for e in ext:
                del e[:]
            for k in entry:
                if k < len(ext):
                    ext[k].extend(exts0 * n_ext)
        return orig_cert(peer, request_msg, algos, cert_chain, cert_type,
                         cert_context, version, ext)
    srv._create_cert_msg = create_cert_msg
    if shape in ("client-not-offering", "dc-alg-not-offered"):
        # a server that sends the credential although the client did not
        # ask for it / for this algorithm: its view of the ClientHello is
        # doctored (the transcript is not)
        orig13 = srv._serverTLS13Handshake

        def hs13(settings, clientHello, *a, **k):
            clientHello.extensions[:] = [
                e for e in clientHello.extensions
                if e.extType != ExtensionType.delegated_credential]
            clientHello.extensions.insert(
                0, DelegatedCredentialExtension().create([dc_alg]))
            return orig13(settings, clientHello, *a, **k)
        srv._serverTLS13Handshake = hs13
    SEAMS.current = "C"
    checker = Checker(x509Fingerprint=lchain.x509List[0].getFingerprint())
    cg = pair.c.handshakeClientCert(settings=st_c, async_=True,
                                    checker=checker)
    SEAMS.current = "S"
    sg = srv.handshakeServerAsync(certChain=chain, privateKey=None,
                                  dc_key=srv_dc_key, del_cred=dc,
                                  settings=st_s)
    SEAMS.current = "main"
    out = pair.handshake(cg, sg, max_steps=60000)
    return name, shape, accept, pair, out, chain


# ------------------------------------------- Checker x resumption histories
def checker_resume_case(item):
    """A server-side Checker refuses the client's certificate on the first
    connection; the client comes back with what that connection gave it
    (session ID / ticket).  The refused identity must not be accepted."""
    v, how, seed = item
    name = "checker-resume/%s/%s" % (S.VNAME[v], how)
    sc = S.Scen("c05/" + name, version=v, cred="rsa", client_cred="c_rsa",
                req_cert=True, tickets=(how == "ticket"),
                suite=CS.TLS_AES_128_GCM_SHA256 if v >= (3, 4) else
                CS.TLS_RSA_WITH_AES_128_CBC_SHA)
    cache = W.SessionCache() if how == "id" else None
    chain, key = load_cred("rsa")
    bad = Checker(x509Fingerprint="00" * 20)
    sess = None
    outs = []
    for n in (0, 1):
        SEAMS.reset(seed + n, name)
        pair = Pair(World())
        SEAMS.current = "C"
        cg = sc.client_gen(pair.c, session=sess)
        SEAMS.current = "S"
        sg = pair.s.handshakeServerAsync(
            certChain=chain, privateKey=key, reqCert=True,
            settings=sc.server_settings(), sessionCache=cache, checker=bad)
        SEAMS.current = "main"
        out = pair.handshake(cg, sg, max_steps=60000)
        outs.append((out["C"].sig()[:2], out["S"].sig()[:2]))
        if n == 0:
            if out["S"].status == "ok":
                return name, ("first-accepted",), [
                    "the Checker mismatch did not fail the first call"]
            if out["C"].status == "ok" and v >= (3, 4):
                pair.read("C", None, 0)     # let tickets arrive, if any
            sess = pair.c.session
            if sess is None:
                return name, ("no-session",), []
            # an application that ignores the invalidation of its session
            # object (or keeps the ticket elsewhere)
            sess = copy.deepcopy(sess)
            sess.resumable = True
        else:
            if out["S"].status == "ok":
                ident = W.chain_fp(pair.s.session.clientCertChain) \
                    if pair.s.session else None
                return name, ("second-accepted", bool(pair.s.resumed)), [
                    "a client whose certificate the Checker refused came "
                    "back with the %s of that connection and was accepted "
                    "(resumed=%s, identity recorded: %r)" % (
                        how, pair.s.resumed, ident)]
    return name, ("refused-twice",) + tuple(outs[1]), []



def run(res, tier, seed):
    res.coverage["rule"] = (
        "proof sites (ServerKeyExchange signature, client CertificateVerify, "
        "TLS 1.3 CertificateVerify both roles, Finished both directions all "
        "versions, PSK binder, PHA flight) x key types (RSA, RSA-PSS, ECDSA "
        "P-256/384/521, Ed25519, Ed448, DSA) x corruption classes (bit flips "
        "at selected/all positions, empty, one short/long, zeros, ones, "
        "proof from another handshake, altered scheme id, omitted); chain A "
        "with key B for 7 key pairs x versions x roles; wrong SRP password; "
        "Checker mismatch; scheme not offered by the verifier; delegated "
        "credentials (leaf RSA/ECDSA x credential key P-256/P-384/Ed25519 x "
        "14 shapes: entry, issuer, CertificateVerify key, signature flips, "
        "duplicates, unsolicited); distinct by "
        "(site, corruption)")
    st = sites(tier)
    n = 0
    for rec in pmap(site_case, [(i, tier, seed) for i in range(len(st))],
                    chunksize=1):
        n += rec["n"]
        res.count(rec["n"])
        for s in rec["sigs"]:
            res.outcome(tuple(s))
        for (lab, f) in rec["fails"]:
            res.violation({"site": rec["site"],
                           "class": lab.split("[")[0].split("=")[0],
                           "what": f[:40]},
                          {"site": rec["site"], "corruption": lab, "fail": f},
                          {"site": rec["site"], "corruption": lab})
    res.sample({"site": st[0][0], "corruptions": [
        "flip[0]^01", "empty", "short-by-1", "zeros",
        "proof-from-other-handshake", "sig_alg=0201"]})
    res.section("proof_sites", sites=len(st), executions=n)
    mc = mismatch_cases(tier)
    nm = 0
    for (name, sig, fails) in pmap(mismatch_case,
                                   [(i, tier, seed) for i in range(len(mc))]):
        if sig is None:
            continue
        nm += 1
        res.count()
        res.outcome(tuple(sig))
        for f in fails:
            res.violation({"case": name.rsplit("-", 1)[0], "what": f[:40]},
                          {"case": name, "fail": f}, {"mismatch": name})
    res.section("mismatch_and_checker", cases=nm)
    r = pha_case((tier, seed))
    res.count(r["n"])
    for s in r["sigs"]:
        res.outcome(("pha",) + tuple(s))
    for (lab, f) in r["fails"]:
        res.violation({"site": "pha", "class": lab.split("[")[0]},
                      {"corruption": lab, "fail": f}, {"pha": lab})
    res.section("post_handshake_auth", executions=r["n"])
    tc = ticket_identity_cases(tier)
    nt = 0
    for (name, sig, fails) in pmap(ticket_identity_case,
                                   [(c, seed) for c in tc]):
        nt += 1
        res.count()
        if sig is not None:
            res.outcome(tuple(sig))
        for f in fails:
            res.violation({"site": "ticket-identity", "what": f[:50]},
                          {"case": name, "fail": f}, {"ticket_identity": name})
    res.section("ticket_identity", cases=nt, dimensions=(
        "ticket hash x offered suites x knows secret x ticket age x own "
        "certificate x external PSK"))
    ncr = 0
    for (name, sig, fails) in pmap(
            checker_resume_case,
            [(v, how, seed) for v in ((3, 1), (3, 3), (3, 4))
             for how in ("id", "ticket") if not (v >= (3, 4) and
                                                 how == "id")]):
        ncr += 1
        res.count()
        res.outcome(tuple(sig))
        for f in fails:
            res.violation({"site": "checker-resumption",
                           "how": name.split("/")[-1], "what": f[:40]},
                          {"case": name, "fail": f}, {"checker_resume": name})
    res.section("checker_then_resumption", cases=ncr)
    dcs = dc_cases(tier)
    nd = 0
    acc = 0
    for (name, sig, fails) in pmap(dc_case, [(c, seed) for c in dcs]):
        if sig is None:
            continue
        nd += 1
        res.count()
        res.outcome(tuple(sig))
        acc += sig[2][0] == "ok"
        for f in fails:
            res.violation({"site": "delegated-credential",
                           "shape": name.split("/")[-1], "what": f[:50]},
                          {"case": name, "fail": f},
                          {"delegated_credential": name})
    res.section("delegated_credentials", cases=nd, accepted=acc,
                shapes=DC_SHAPES, leaves=sorted(DC_LEAVES),
                credential_keys=sorted(DC_KEYS))
    res.coverage["distinct_nontrivial"] = n + nm + r["n"] + nt + nd
    res.assumptions.append("the prover's own sign-then-verify self-check is "
                           "bypassed by corrupting the serialised message, "
                           "not the key object")


def replay(case_, seed):
    return {"note": "re-run ./check C05", "case": case_}
