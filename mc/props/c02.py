"""C02 - a record is accepted only if it is exactly what the peer sent next.

Deciding method: fault enumeration from a post-handshake snapshot of every
(version, suite, EtM) triple: the sender queues a short sequence of protected
records; every fault of a finite alphabet (bit flips at every byte, all
truncations/extensions, replay / swap / drop / reflection / earlier-epoch
records, and correctly keyed peer-level forgeries built by the independent
record layer) is applied to a deep copy and the receiver reads to the end.
"""
import copy
import struct

from .. import world as W
from .. import scen as S
from .. import ianasuite
from .. import refrecord
from ..core import pmap, room
from ..world import SEAMS
from tlslite import errors as E
from tlslite.constants import AlertDescription as AD

LEVEL = "fault_enumeration"

OK_ALERTS = (AD.bad_record_mac, AD.decryption_failed, AD.record_overflow,
             AD.decode_error, AD.unexpected_message, AD.illegal_parameter)

MSGS = {"c2s": [b"A", b"BBBBB", b"C" * 33],
        "s2c": [b"dd", b"E" * 17]}


def raw_records(buf):
    out = []
    i = 0
    buf = bytes(buf)
    while i + 5 <= len(buf):
        ln = (buf[i + 3] << 8) | buf[i + 4]
        out.append(buf[i:i + 5 + ln])
        i += 5 + ln
    assert i == len(buf)
    return out


def setup(v, sid, etm, seed, early=False):
    sc = S.scen_for_suite(v, sid, etm)
    if early is True:
        # the client also offers TLS 1.3 with a PSK and announces early
        # data (which this TLS <= 1.2 server will never see): whatever the
        # server prepared for skipping early data must be gone once the
        # older version is negotiated
        from tlslite.messages import ClientHello
        from tlslite.extensions import TLSExtension
        from tlslite.constants import ExtensionType
        cst = S.base_settings(minv=v, maxv=(3, 4))
        cst.useEncryptThenMAC = etm
        # (suites outside the defaults - NULL, RC4, CCM_8 - are switched on
        # next to them, so that every family takes part)
        info_ = S.ALL_INFOS[sid]
        for attr, val in (("cipherNames", info_.setting_cipher()),
                          ("macNames", info_.setting_mac()),
                          ("keyExchangeNames", info_.setting_kex())):
            if val and val not in getattr(cst, attr):
                setattr(cst, attr, list(getattr(cst, attr)) + [val])
        cst.pskConfigs = [(b"early-offer", b"\x44" * 32, "sha256")]
        orig = ClientHello.create

        def create(self, *a, **kw):
            r = orig(self, *a, **kw)
            if SEAMS.current == "C" and self.extensions is not None and \
                    not self.getExtension(ExtensionType.early_data):
                self.extensions.append(TLSExtension(
                    extType=ExtensionType.early_data).create(bytearray(0)))
            return r
        ClientHello.create = create
        try:
            pair, out = S.connect(sc, seed=seed, csettings=cst)
        finally:
            ClientHello.create = orig
        if not (out["C"].status == "ok" and out["S"].status == "ok"):
            return None
        if pair.c.session.cipherSuite != sid or tuple(pair.c.version) != v:
            return None
        return pair
    if early == "hrr":
        # the handshake goes through a HelloRetryRequest (the client sent
        # its compatibility ChangeCipherSpec early)
        sc.cset["keyShares"] = []
    pair, out = S.connect(sc, seed=seed)
    if not (out["C"].status == "ok" and out["S"].status == "ok"):
        return None
    if v >= (3, 4):
        pair.drain()
    return pair


def synced_ref(pair, info, view0):
    """Reference connection advanced through everything sent so far."""
    v = tuple(view0["version"])
    if v >= (3, 4):
        rc = refrecord.RefConn.from_traffic_secrets(
            info, bytes.fromhex(view0["cl_app0"]),
            bytes.fromhex(view0["sr_app0"]))
        for name, log in (("c2s", pair.world.c2s.log),
                          ("s2c", pair.world.s2c.log)):
            for (t, ver, body) in W.split_records(log):
                if t != 23:
                    continue
                try:
                    rc.open(name, t, ver, body)
                except refrecord.RefBad:
                    pass
        return rc
    rc = refrecord.RefConn.from_master(
        info, v, view0["etm"], bytes.fromhex(view0["ms"]),
        pair.c._clientRandom, pair.c._serverRandom)
    for name, log in (("c2s", pair.world.c2s.log),
                      ("s2c", pair.world.s2c.log)):
        active = False
        for (t, ver, body) in W.split_records(log):
            if not active:
                active = (t == 20)
                continue
            rc.open(name, t, ver, body)
    return rc


def deliver_and_read(base, direction, stream_bytes, eof=False):
    """Clone the pair, present `stream_bytes` to the receiver, read to the
    end.  Returns observation dict."""
    p = copy.deepcopy(base)
    pipe = p.world.c2s if direction == "c2s" else p.world.s2c
    reader = "S" if direction == "c2s" else "C"
    back = p.world.s2c if direction == "c2s" else p.world.c2s
    pipe.buf = bytearray(stream_bytes)
    if eof:
        pipe.eof = True
    back_before = len(back.log)
    got = b""
    result = ("pending",)
    exc = None
    for _ in range(12):
        r = p.read(reader, None, 1)
        if r.status == "ok":
            if not r.value:
                result = ("eof",)
                break
            got += bytes(r.value)
        elif r.status == "exc":
            exc = r.exc
            result = ("exc",) + W.exc_sig(r.exc)
            break
        else:
            result = (r.status,)
            break
    ep = p.ep(reader)
    sock = p.world.ssock if reader == "S" else p.world.csock
    new_back = bytes(back.log[back_before:])
    return {"got": got, "result": result, "closed": bool(ep.closed),
            "resumable": bool(ep.session.resumable),
            "sock_closed": bool(sock.closed),
            "alert_on_wire": any(t in (21, 23) for (t, _, _) in
                                 W.split_records(new_back)),
            "exc": exc}


def judge(obs, expected_prefix, fault_is_identity, all_plain,
          truncated_stream=False):
    """Apply the C02 oracle.  Returns list of failure strings."""
    fails = []
    if fault_is_identity:
        if obs["got"] != all_plain:
            fails.append("untouched records not delivered: %r" %
                         (obs["got"],))
        return fails
    if obs["got"] != expected_prefix:
        if expected_prefix.startswith(obs["got"]):
            fails.append("records before the faulty one were not delivered")
        else:
            fails.append("data delivered beyond the untouched prefix: got "
                         "%r want %r" % (obs["got"][:60],
                                         expected_prefix[:60]))
    r = obs["result"]
    if truncated_stream:
        # the rest of the record never arrives: waiting is fine, and an
        # EOF there is an abrupt close, not an integrity error
        if r[0] == "stall":
            return fails
        if r[0] == "exc" and r[1] in ("TLSAbruptCloseError",):
            if not obs["closed"]:
                fails.append("not closed after abrupt close")
            return fails
    if r[0] != "exc" or r[1] != "TLSLocalAlert":
        fails.append("faulty record not rejected with a local fatal alert: "
                     "%r" % (r,))
        return fails
    if r[2] not in OK_ALERTS:
        fails.append("rejected with alert %r" % (r[2],))
    if r[3] != 2:
        fails.append("alert level %r" % (r[3],))
    if not obs["closed"]:
        fails.append("connection not closed")
    if obs["resumable"]:
        fails.append("session still resumable")
    if not obs["alert_on_wire"]:
        fails.append("no alert record on the wire")
    if not obs["sock_closed"]:
        fails.append("socket not closed")
    return fails


def case(item):
    v, sid, etm, tier, seed = item[:5]
    early = len(item) > 5 and item[5] == "early"
    if len(item) > 5 and item[5] == "hrr":
        early = "hrr"
    info = S.ALL_INFOS[sid]
    name = "%s/%s%s%s" % (S.VNAME[v], info.name, "" if etm else "/noetm",
                          "/hrr" if early == "hrr" else
                          "/early-data-hello" if early else "")
    rec = {"name": name, "n": 0, "fails": [], "sigs": set(), "known": 0,
           "by_class": {}, "pc": {}}
    base0 = setup(v, sid, etm, seed, early)
    if base0 is None and early is True:
        return rec      # suite not among the defaults of such a client
    if base0 is None:
        rec["fails"].append(({"fault": "setup"}, "handshake failed"))
        return rec
    view0 = W.view(base0.c, exporter=False)
    view0["cl_app0"] = view0.get("cl_app")
    view0["sr_app0"] = view0.get("sr_app")
    tls13 = v >= (3, 4)
    bs = info.blocklen or 1

    def note(cls, key, obs, fails):
        rec["n"] += 1
        rec["by_class"][cls] = rec["by_class"].get(cls, 0) + 1
        rec["sigs"].add((cls, obs["result"][:3]))
        for f in fails:
            if room(rec["pc"], (cls, f[:30]), 6):
                k = dict(key)
                k["class"] = cls
                rec["fails"].append((k, f))

    for direction in ("c2s", "s2c"):
        writer = "C" if direction == "c2s" else "S"
        base = copy.deepcopy(base0)
        pipe = base.world.c2s if direction == "c2s" else base.world.s2c
        opp = base.world.s2c if direction == "c2s" else base.world.c2s
        assert not pipe.buf
        # records of the opposite direction for reflection
        owriter = "S" if writer == "C" else "C"
        base.write(owriter, b"reflect-me")
        orecs = raw_records(opp.buf)
        opp.buf = bytearray()
        # an earlier-epoch record of this direction
        early = None
        full_log = raw_records(bytes(pipe.log))
        if tls13:
            for r in full_log:
                if r[0] == 23:
                    early = r
                    break
        else:
            seen_ccs = False
            for r in full_log:
                if seen_ccs:
                    early = r
                    break
                if r[0] == 20:
                    seen_ccs = True
        # reference connection synced to "before the test records"
        rc0 = synced_ref(base, info, view0)
        for m in MSGS[direction]:
            base.write(writer, m)
        R = raw_records(pipe.buf)
        pipe.buf = bytearray()
        # per-record plaintext via the reference opener
        rcx = copy.deepcopy(rc0)
        P = []
        for r in R:
            t, pt, il = rcx.open(direction, r[0], (r[1], r[2]), r[5:])
            P.append(pt if t == 23 else b"")
        all_plain = b"".join(P)

        def prefix(k):
            return b"".join(P[:k])

        def run_fault(cls, key, recs, k, truncated=False, eof=False,
                      identity=False, ssl3_pad=False):
            obs = deliver_and_read(base, direction, b"".join(recs), eof=eof)
            if ssl3_pad and obs["got"] in (all_plain, prefix(k + 1)) and (
                    obs["result"] == ("stall",) or
                    obs["result"][:3] == ("exc", "TLSLocalAlert",
                                          AD.bad_record_mac)):
                # SSLv3 does not authenticate padding bytes: a change
                # confined to the padding block can leave a valid pad length;
                # the delivered plaintext is still exactly the sender's
                note("ssl3-padding-malleable", key, obs, [])
                return
            fails = judge(obs, prefix(k), identity, all_plain, truncated)
            note(cls, key, obs, fails)

        # control
        run_fault("identity", {"fault": "identity"}, R, len(R),
                  identity=True)
        # (a) bit flips
        masks = (0x01, 0x80) if tier == "quick" else (1, 2, 4, 8, 16, 32, 64,
                                                      128)
        for i, r in enumerate(R):
            for pos in range(len(r)):
                if tier == "quick" and pos >= 5 and len(r) > 60 and \
                        5 + 20 < pos < len(r) - 40:
                    continue
                for mask in (masks if pos >= 5 or tier != "quick"
                             else (0x01, 0x80, 0x10)):
                    if pos in (3, 4):
                        # length field: changes framing
                        cls = "flip-hdr-length"
                    elif pos == 0:
                        cls = "flip-hdr-type"
                    elif pos in (1, 2):
                        cls = "flip-hdr-version"
                    else:
                        cls = "flip-body"
                    b2 = bytearray(r)
                    b2[pos] ^= mask
                    recs = R[:i] + [bytes(b2)] + R[i + 1:]
                    trunc = False
                    if cls == "flip-hdr-length":
                        newlen = (b2[3] << 8) | b2[4]
                        rest = len(b"".join(R[i:])) - 5
                        trunc = newlen > rest
                    if cls == "flip-hdr-type" and b2[0] not in (20, 21, 22,
                                                                23, 24):
                        # first byte outside the TLS content types is parsed
                        # as an SSLv2 header: framing changes, may wait
                        b0 = b2[0]
                        ln2 = ((b0 & 0x7f) << 8 | b2[1]) if b0 & 0x80 else \
                            ((b0 & 0x3f) << 8 | b2[1])
                        hl = 2 if b0 & 0x80 else 3
                        rest = len(b"".join(recs[i:])) - hl
                        trunc = ln2 > rest
                    lastblock = (v == (3, 0) and info.mode == "CBC" and
                                 pos >= len(r) - bs)
                    run_fault(cls, {"fault": cls, "rec": i,
                                    "pos": pos if pos < 5 else "body",
                                    "mask": mask}, recs, i, truncated=trunc,
                              eof=trunc, ssl3_pad=lastblock)
        # (b) truncation / extension with corrected header
        for i, r in enumerate(R):
            body = r[5:]
            lens = range(0, len(body)) if tier == "thorough" else sorted(set(
                [0, 1, len(body) // 2, max(0, len(body) - bs),
                 len(body) - 1]))
            for ln in lens:
                if ln >= len(body) or ln < 0:
                    continue
                nr = r[:3] + struct.pack(">H", ln) + body[:ln]
                run_fault("truncate-fixhdr", {"fault": "truncate-fixhdr",
                                              "rec": i, "len": ln},
                          R[:i] + [nr] + R[i + 1:], i)
            for ext in sorted(set([1, bs, 2 * bs])):
                for fill in (b"\x00", body[-1:] if body else b"\x00"):
                    nb = body + fill * ext
                    nr = r[:3] + struct.pack(">H", len(nb)) + nb
                    run_fault("extend-fixhdr", {"fault": "extend-fixhdr",
                                                "rec": i, "ext": ext},
                              R[:i] + [nr] + R[i + 1:], i)
            # truncation without fixing the header: stream ends early
            if i == len(R) - 1:
                for cut in sorted(set([1, 3, 5, 6, len(r) - 1])):
                    if cut >= len(r):
                        continue
                    run_fault("truncate-stream", {"fault": "truncate-stream",
                                                  "cut": cut},
                              R[:i] + [r[:cut]], i, truncated=True, eof=True)
        # (c) structural
        n = len(R)
        for i in range(n):
            run_fault("replay", {"fault": "replay", "rec": i},
                      R[:i + 1] + [R[i]] + R[i + 1:], i + 1)
            run_fault("drop", {"fault": "drop", "rec": i},
                      R[:i] + R[i + 1:], i if i < n - 1 else n - 1,
                      identity=False) if i < n - 1 else None
            for j in range(i + 1, n):
                sw = list(R)
                sw[i], sw[j] = sw[j], sw[i]
                if sw == R:
                    continue
                run_fault("swap", {"fault": "swap", "rec": [i, j]}, sw, i)
            for orr in orecs[:2]:
                run_fault("reflect", {"fault": "reflect", "at": i},
                          R[:i] + [orr] + R[i:], i)
            if early is not None:
                run_fault("early-epoch", {"fault": "early-epoch", "at": i},
                          R[:i] + [early] + R[i:], i)
        # (c2) records without any protection spliced into the stream (an
        # attacker needs no key for these): alerts, CCS, handshake and
        # application data, at every position including the very first
        # record of the epoch
        hv = bytes([3, 3]) if tls13 else bytes([v[0], v[1]])
        plain = [("alert-close-notify", 21, b"\x01\x00"),
                 ("alert-fatal", 21, b"\x02\x28"),
                 ("alert-warning-other", 21, b"\x01\x5a"),
                 ("alert-one-byte", 21, b"\x01"),
                 ("ccs", 20, b"\x01"),
                 ("hello-request", 22, b"\x00\x00\x00\x00"),
                 ("key-update", 22, b"\x18\x00\x00\x01\x00"),
                 ("appdata", 23, b"plaintext"),
                 ("appdata-empty", 23, b"")]
        for i in range(n + 1):
            for (pname, ptype, pbody) in plain:
                prec = bytes([ptype]) + hv + struct.pack(">H", len(pbody)) + \
                    pbody
                run_fault("inject-plaintext", {"fault": "inject-plaintext",
                                               "what": pname, "at": i},
                          R[:i] + [prec] + R[i:], i)
        # (d) correctly keyed forgeries from the peer
        def forge(cls, key, **kw):
            rcf = copy.deepcopy(rc0)
            ctype = kw.pop("ctype", 23)
            pt = kw.pop("pt", b"forged")
            expect_ok = kw.pop("_expect_ok", False)
            try:
                fr = rcf.seal(direction, ctype, pt, **kw)
            except Exception as e:  # noqa
                return
            if expect_ok:
                # a well-formed record of the same shape must be accepted
                obs = deliver_and_read(base, direction, fr)
                fails = [] if obs["got"] == pt and obs["result"][0] in (
                    "stall", "pending") else [
                    "well-formed long-padded record not delivered: %r %r" % (
                        obs["got"][:20], obs["result"])]
                note(cls, dict(key, fault=cls), obs, fails)
                return
            run_fault(cls, dict(key, fault=cls), [fr] + R, 0)
        if tls13:
            forge("tls13-no-content-type", {}, inner_raw=bytes(24))
            forge("tls13-inner-type-0", {}, inner_raw=b"data" + b"\x00" * 5)
            forge("tls13-inner-type-ccs", {}, ctype=20, pt=b"\x01")
            forge("tls13-inner-type-unknown", {}, ctype=99)
            forge("tls13-outer-type-handshake", {}, outer_type=22)
            forge("tls13-outer-type-alert", {}, outer_type=21)
            forge("tls13-outer-version", {}, outer_version=(3, 4))
            forge("tls13-outer-version", {"v": "0301"},
                  outer_version=(3, 1))
            forge("tls13-bad-tag", {}, bad_mac=True)
            forge("tls13-overlong", {"n": 1}, pt=b"x" * (2 ** 14),
                  tls13_pad=1)
            forge("tls13-overlong", {"n": 2}, pt=b"x" * 10,
                  tls13_pad=2 ** 14 - 10 + 1)
        else:
            forge("wrong-mac", {}, bad_mac=True)
            forge("overlong-plaintext", {}, pt=b"y" * (2 ** 14 + 1))
            if info.mode == "CBC":
                forge("cbc-pad-too-long", {}, pad_len=255,
                      pad_bytes=bytes([255]) * (bs - 1 - (6 + (
                          info.maclen if not etm or v == (3, 0) else 0))
                          % bs))
                forge("cbc-bad-pad-byte", {},
                      pad_len=bs - 1 - (6 + info.maclen) % bs
                      if (bs - 1 - (6 + info.maclen) % bs) > 0 else bs +
                      (bs - 1 - (6 + info.maclen) % bs),
                      pad_bytes=None) if False else None
            if info.mode == "CBC":
                # correctly keyed and correctly padded CBC ciphertext that
                # carries no MAC at all, one to three blocks long (shorter
                # than, equal to and longer than some MAC lengths): whatever
                # the length arithmetic of the receiver, nothing the peer
                # never authenticated may come out
                for nblk in (1, 2, 3, 4):
                    for padlen in sorted(set([0, bs - 1, bs // 2])):
                        rcf = copy.deepcopy(rc0)
                        dd = rcf.d[direction]
                        content = b"Z" * (nblk * bs - padlen - 1)
                        ptxt = content + bytes([padlen]) * (padlen + 1)
                        if v >= (3, 2):
                            iv = bytes((i * 5 + 3) & 0xff for i in range(bs))
                        else:
                            iv = dd.iv
                        ct = refrecord.R.cbc_encrypt(dd.cipher, iv, ptxt)
                        body = (iv + ct) if v >= (3, 2) else ct
                        fr = bytes([23, v[0], v[1]]) + struct.pack(
                            ">H", len(body)) + body
                        run_fault("cbc-keyed-without-mac",
                                  {"fault": "cbc-keyed-without-mac",
                                   "blocks": nblk, "pad": padlen},
                                  [fr] + R, 0)
            if info.mode == "CBC" and not (etm and v > (3, 0)) and \
                    v > (3, 0):
                # MAC-then-encrypt with long (legal) padding: a wrong MAC
                # must be found wherever the MAC ends up relative to the
                # last 256 bytes / hash blocks of the body
                for pad in (255, 240, 224, 208):
                    for n in range(0, 66) if tier == "quick" and pad == 255 \
                            else (0, 13, 44, 63):
                        forge("wrong-mac-long-pad", {"pad": pad, "len": n},
                              bad_mac=True, pad_len=pad, pt=b"P" * n)
                        if n in (0, 44):
                            forge("good-mac-long-pad-control",
                                  {"pad": pad, "len": n}, pad_len=pad,
                                  pt=b"P" * n, _expect_ok=True)
            forge("outer-version", {"v": "0300"},
                  outer_version=(3, 0) if v != (3, 0) else (3, 1))
            forge("outer-type-mismatch", {}, outer_type=22)
    # TLS 1.3: a record sealed before a KeyUpdate delivered after it
    if tls13:
        from tlslite.constants import KeyUpdateMessageType as KU
        for direction, writer in (("c2s", "C"), ("s2c", "S")):
            base = copy.deepcopy(base0)
            pipe = base.world.c2s if direction == "c2s" else base.world.s2c
            base.write(writer, b"old-key")
            old = raw_records(pipe.buf)
            pipe.buf = bytearray()
            W.run_gen(base.world, writer, base.ep(writer).
                      send_keyupdate_request(KU.update_not_requested))
            ku = raw_records(pipe.buf)
            pipe.buf = bytearray()
            base.write(writer, b"new-key")
            new = raw_records(pipe.buf)
            pipe.buf = bytearray()
            obs = deliver_and_read(base, direction,
                                   b"".join(old + ku + new))
            fails = judge(obs, b"", True, b"old-keynew-key")
            note("keyupdate-control", {"fault": "keyupdate-control"}, obs,
                 fails)
            obs = deliver_and_read(base, direction,
                                   b"".join(old + ku + old + new))
            fails = judge(obs, b"old-key", False, b"")
            note("keyupdate-old-epoch", {"fault": "keyupdate-old-epoch"},
                 obs, fails)
            # an unprotected alert as the first record of the new epoch
            for (pname, pbody) in (("alert-close-notify", b"\x01\x00"),
                                   ("alert-fatal", b"\x02\x28")):
                prec = b"\x15\x03\x03" + struct.pack(">H", len(pbody)) + \
                    pbody
                obs = deliver_and_read(base, direction,
                                       b"".join(old + ku + [prec] + new))
                fails = judge(obs, b"old-key", False, b"")
                note("inject-plaintext", {"fault": "inject-plaintext",
                                          "what": pname,
                                          "at": "after-keyupdate"}, obs,
                     fails)
    rec["sigs"] = sorted(rec["sigs"], key=repr)
    return rec


def all_triples():
    from .c01 import all_triples as t
    return t()


def run(res, tier, seed):
    res.coverage["rule"] = (
        "per (version, suite, EtM) triple and direction: 3 (2) queued "
        "application records; one fault per execution from {XOR mask at "
        "every byte of header and body, truncation/extension with corrected "
        "header, stream truncation, replay, drop, swap, reflection from the "
        "opposite direction, earlier-epoch record, record sealed before a "
        "KeyUpdate, correctly keyed forgeries (TLS1.3 inner-type/padding/"
        "outer-header forgeries, overlong plaintext, CBC padding, outer "
        "version/type)}; distinct by (triple, direction, fault); non-trivial "
        "= fault differs from identity")
    triples = all_triples()
    if tier == "quick":
        # every triple gets the structural faults; byte flips of all
        # positions are part of each case already (short records)
        pass
    items = [(v, sid, etm, tier, seed) for (v, sid, etm) in triples]
    # one triple per record-protection family of TLS 1.0-1.2 again, after a
    # ClientHello that offered TLS 1.3 with early data
    from .c01 import family_reps
    # every TLS 1.3 suite again after a HelloRetryRequest
    items += [(v, sid, etm, tier, seed, "hrr")
              for (v, sid, etm) in triples if v >= (3, 4)]
    items += [(v, sid, etm, tier, seed, "early")
              for (v, sid, etm) in family_reps(triples).values()
              if (3, 1) <= v <= (3, 3)]
    tot = 0
    classes = {}
    for rec in pmap(case, items, chunksize=1):
        tot += rec["n"]
        res.count(rec["n"])
        for c, n in rec["by_class"].items():
            classes[c] = classes.get(c, 0) + n
        for s in rec["sigs"]:
            res.outcome(tuple(s))
        for (k, f) in rec["fails"]:
            key = {"class": k.get("class"), "what": f[:60]}
            if k.get("class") in ("flip-hdr-version", "outer-version") and \
                    not rec["name"].startswith("TLS1.3") and (
                        "not rejected" in f or "beyond the untouched" in f):
                key = {"class": "hdr-version-unchecked"}
            res.violation(key, {"name": rec["name"], "fault": k, "fail": f},
                          {"name": rec["name"], "fault": k})
    res.sample({"triple": "TLS1.2/TLS_RSA_WITH_AES_128_CBC_SHA",
                "direction": "c2s", "fault": {"fault": "flip-body", "rec": 1,
                                              "mask": 1},
                "expected": "prefix delivered, then TLSLocalAlert "
                "bad_record_mac, closed, not resumable, alert on wire"})
    res.section("faults", triples=len(triples), executions=tot,
                by_class=classes)
    res.coverage["distinct_nontrivial"] = tot - classes.get("identity", 0)


def replay(case_, seed):
    return {"note": "re-run ./check C02 (case is identified by name+fault)",
            "case": case_}
