"""C13 - resumption reproduces the original session's security, or falls
back cleanly.

Deciding method: explicit-state search over *histories* of connections
between one client and one or two server configurations sharing a virtual
clock: events are connect(offer variant), close(kind), tick(delta), ticket-key
rotation, cache eviction; every history up to a depth is executed on the
real endpoints (deep-copied sessions / caches / settings between steps) and
each connect is checked against a reference model of session eligibility.
"""
import copy

from .. import world as W
from .. import scen as S
from ..core import pmap
from ..world import SEAMS, Pair, World, SessionCache
from tlslite import errors as E
from tlslite.constants import CipherSuite as CS
from tlslite.session import Session

LEVEL = "model_checking"

MAXAGE = 600
LIFETIME = 300

MECHS = {
    "tls12-id": dict(version=(3, 3), cache=True, tickets=False,
                     suite=CS.TLS_ECDHE_RSA_WITH_AES_128_CBC_SHA),
    "tls12-ticket": dict(version=(3, 3), cache=False, tickets=True,
                         suite=CS.TLS_ECDHE_RSA_WITH_AES_128_GCM_SHA256),
    "tls12-both": dict(version=(3, 3), cache=True, tickets=True,
                       suite=CS.TLS_ECDHE_RSA_WITH_AES_128_CBC_SHA),
    "tls10-id": dict(version=(3, 1), cache=True, tickets=False,
                     suite=CS.TLS_RSA_WITH_AES_128_CBC_SHA),
    "tls13-psk": dict(version=(3, 4), cache=False, tickets=True,
                      suite=CS.TLS_AES_128_GCM_SHA256),
    "tls12-id-clientauth": dict(version=(3, 3), cache=True, tickets=False,
                                suite=CS.TLS_ECDHE_RSA_WITH_AES_128_CBC_SHA,
                                client_cred="c_rsa", req_cert=True),
    # a ticket that also carries the client's certificate chain; CBC suite,
    # so that encrypt-then-MAC is part of what the ticket must preserve
    "tls12-ticket-clientauth": dict(
        version=(3, 3), cache=False, tickets=True,
        suite=CS.TLS_ECDHE_RSA_WITH_AES_128_CBC_SHA,
        client_cred="c_rsa", req_cert=True),
    "tls13-psk-clientauth": dict(version=(3, 4), cache=False, tickets=True,
                                 suite=CS.TLS_AES_128_GCM_SHA256,
                                 client_cred="c_rsa", req_cert=True),
}


class ServerCfg(object):
    def __init__(self, mech, sid):
        self.keys = [bytearray([0x40 + sid] * 32)] if mech["tickets"] else []
        self.cache = SessionCache(maxEntries=4, maxAge=MAXAGE) \
            if mech["cache"] else None
        self.sid = sid
        self.key_epoch = 0

    def settings(self, sc):
        st = sc.server_settings()
        # the server also accepts the suites of the "other suite" offers
        for extra in ("aes128gcm", "aes256gcm", "chacha20-poly1305",
                      "aes128", "aes256"):
            if extra not in st.cipherNames:
                st.cipherNames = list(st.cipherNames) + [extra]
        st.ticketKeys = list(self.keys)
        st.ticketLifetime = LIFETIME
        if not self.keys:
            st.ticket_count = 0
        else:
            st.ticket_count = 1
        return st


class State(object):
    """Everything that survives between connections."""

    def __init__(self, mech_name):
        self.mech_name = mech_name
        self.mech = MECHS[mech_name]
        self.servers = [ServerCfg(self.mech, 0), ServerCfg(self.mech, 1)]
        self.held = None            # client's Session from the last connect
        self.meta = None            # model of `held`
        self.now = 1700000000.0
        self.last = None            # (pair) of last connection, if open
        self.n_conn = 0


# mechanisms explored one event deeper in the thorough tier
DEPTH4 = {"tls12-both": 4, "tls13-psk": 4, "tls12-ticket-clientauth": 4}


def scen_of(mech):
    return S.Scen("c13", version=mech["version"], suite=mech["suite"],
                  cred="rsa", client_cred=mech.get("client_cred"),
                  req_cert=mech.get("req_cert", False),
                  ckw={"serverName": "host.example",
                       "alpn": [b"h2", b"http/1.1"]},
                  skw={"alpn": [b"h2", b"http/1.1"]})


OFFERS = ["none", "none-noems", "held", "held-noems", "held-noetm",
          "ticket-flip-first",
          "ticket-flip-mid", "ticket-flip-last", "unknown-id", "foreign",
          "held-refreshed-clock", "held-other-hash", "held-same-hash",
          "held-copy", "held-no-alpn", "held-other-alpn", "held-other-sni",
          "held-no-sni", "held-renamed-sni", "held-nocert",
          "held-nocert-stale"]
# suite the client offers instead of the session's: (other PRF hash / other
# suite, same hash) per original cipher name
OTHER = {"aes128gcm": ("aes256gcm", "chacha20-poly1305"),
         "chacha20-poly1305": ("aes256gcm", "aes128gcm"),
         "aes256gcm": ("aes128gcm", None),
         "aes128": ("aes256", None), "aes256": ("aes128", None)}
CLOSES = ["clean", "fatal", "abrupt"]


def events(tier):
    ev = [("connect", o) for o in OFFERS]
    ev += [("close", c) for c in CLOSES]
    ev += [("tick", 1), ("tick", LIFETIME + 1), ("tick", MAXAGE + 1),
           ("tick", 7 * 86400 + 1)]
    ev += [("rotate", "prepend"), ("rotate", "replace"), ("evict",)]
    return ev


def flip(b, where):
    b = bytearray(b)
    if not b:
        return b
    i = {"first": 0, "mid": len(b) // 2, "last": len(b) - 1}[where]
    b[i] ^= 1
    return b


def apply_offer(st, offer):
    """Returns (session to offer or None, client settings overrides,
    server index, altered: bool, inconsistent: bool)."""
    sess = st.held
    cset = {}
    srv = 0
    altered = False
    inconsistent = False
    if offer == "none-noems":
        # a fresh handshake by a client without extended_master_secret: the
        # session it leaves behind lacks EMS, and every later offer of it by
        # the default client carries the extension (RFC 7627 5.3: the server
        # must then do a full handshake)
        return None, {"useExtendedMasterSecret": False}, srv, False, False
    if offer == "none" or sess is None:
        return None, cset, srv, False, False
    # offers that alter the session work on a copy; the others hand over
    # the very object the client holds, so that a later fatal error on the
    # resumed connection marks *that* object (stateless tickets can only be
    # invalidated on the client)
    if offer.startswith("ticket-flip") or offer in ("unknown-id",
                                                    "held-copy",
                                                    "held-renamed-sni"):
        # "held-copy": a client that stored the session elsewhere (or is
        # not this library): a fatal error seen on another connection of
        # the session does not mark its copy, only the server can refuse
        sess = copy.deepcopy(sess)
    tls13 = st.mech["version"] >= (3, 4)
    if offer == "held":
        pass
    elif offer == "held-noems":
        cset["useExtendedMasterSecret"] = False
        inconsistent = True
    elif offer == "held-noetm":
        cset["useEncryptThenMAC"] = False
        inconsistent = True
    elif offer.startswith("ticket-flip"):
        where = offer.split("-")[-1]
        if tls13:
            if not sess.tickets:
                return None, cset, srv, False, False
            sess.tickets[0].ticket = flip(sess.tickets[0].ticket, where)
        elif sess.tls_1_0_tickets:
            sess.tls_1_0_tickets[0].ticket = flip(
                sess.tls_1_0_tickets[0].ticket, where)
        else:
            return None, cset, srv, False, False
        altered = True
    elif offer == "unknown-id":
        if tls13 or not sess.sessionID:
            return None, cset, srv, False, False
        sess.sessionID = bytearray(b"\x77" * len(sess.sessionID))
        if sess.tls_1_0_tickets:
            del sess.tls_1_0_tickets[:]
        altered = True
    elif offer == "foreign":
        srv = 1
        altered = True
    elif offer in ("held-other-hash", "held-same-hash"):
        # the session is offered together with another cipher suite only:
        # TLS 1.3 may resume iff the PRF hash is the same, TLS <= 1.2 only
        # with the very same suite
        info = S.ALL_INFOS[st.meta["suite"] if st.meta else
                           st.mech["suite"]]
        if not tls13 and info.mode != "CBC":
            return None, cset, srv, False, False
        alt = OTHER.get(info.setting_cipher())
        alt = alt and alt[0 if offer == "held-other-hash" else 1]
        if alt is None:
            return None, cset, srv, False, False
        cset["cipherNames"] = [alt]
        # RFC 5246 7.4.1.2: a TLS <= 1.2 ClientHello that asks for
        # resumption must list the session's suite; one that does not is
        # inconsistent with the session and may be refused outright
        inconsistent = not tls13
    elif offer == "held-no-alpn":
        # ALPN is negotiated afresh on every connection
        cset["_alpn"] = None
    elif offer == "held-other-alpn":
        cset["_alpn"] = [b"http/1.1"]
    elif offer == "held-other-sni":
        # the session belongs to another server name: it must not be
        # resumed under this one
        cset["_sni"] = "other.example"
    elif offer == "held-no-sni":
        cset["_sni"] = None
    elif offer == "held-renamed-sni":
        # a client that does not keep the server name with the session (the
        # library's own client refuses "held-other-sni" locally): only the
        # server can refuse.  Refusing by aborting is allowed (TLS <= 1.2
        # servers do), resuming is not
        sess.serverName = "other.example"
        cset["_sni"] = "other.example"
        inconsistent = True
    elif offer == "held-nocert":
        # the session is offered by a client that has no certificate (any
        # more): resumed, the original identity stands; declined, the full
        # handshake is an unauthenticated one
        cset["_nocert"] = True
    elif offer == "held-nocert-stale":
        # the same from a client that also keeps offering the ticket after
        # its lifetime (the server sees, decrypts and declines it)
        cset["_nocert"] = True
        if tls13:
            for t in sess.tickets:
                t.time = SEAMS.now
        else:
            for t in sess.tls_1_0_tickets:
                t.time_received = SEAMS.now
    elif offer == "held-refreshed-clock":
        # a client whose notion of the ticket's receipt time is wrong keeps
        # offering it after the lifetime
        if tls13:
            for t in sess.tickets:
                t.time = SEAMS.now
        else:
            for t in sess.tls_1_0_tickets:
                t.time_received = SEAMS.now
    return sess, cset, srv, altered, inconsistent


def eligible(st, meta, srv_index, offer_sess, offer="held"):
    """Reference model: may this session be resumed now at that server?
    Returns (bool, reason)."""
    if meta is None or offer_sess is None:
        return False, "no session"
    if not meta["completed"]:
        return False, "not completed"
    if meta.get("client_flagged") and offer != "held-copy":
        return False, "invalidated by fatal error / abrupt close"
    if meta["server"] != srv_index:
        return False, "foreign server"
    srv = st.servers[srv_index]
    age = st.now - meta["issued"]
    mech = st.mech
    if offer == "held-other-hash" or (offer == "held-same-hash" and
                                      mech["version"] < (3, 4)):
        return False, "session's suite (hash) not offered"
    offered_sni = {"held-other-sni": "other.example",
                   "held-renamed-sni": "other.example",
                   "held-no-sni": None}.get(offer, "host.example")
    if offered_sni != meta["sni"]:
        return False, "offered under another server name"
    ok_ticket = mech["tickets"] and meta["has_ticket"] and \
        age <= LIFETIME and meta["key_epoch"] in srv_live_epochs(srv) and \
        not offer.startswith("ticket-flip") and offer != "unknown-id"
    # (a stateless ticket cannot be invalidated by the server; a cached
    # session can and must be)
    ok_id = mech["cache"] and age <= MAXAGE and not meta["evicted"] and \
        offer != "unknown-id" and not meta["invalidated"]
    if ok_ticket or ok_id:
        return True, "ticket" if ok_ticket else "id"
    return False, "expired / rotated / evicted / altered"


def srv_live_epochs(srv):
    return getattr(srv, "live_epochs", {0})


def do_connect(st, offer, seed):
    """Execute one connection; returns (record for the oracle)."""
    mech = st.mech
    sc = scen_of(mech)
    SEAMS.now = st.now
    sess, cset, srv_i, altered, inconsistent = apply_offer(st, offer)
    srv = st.servers[srv_i]
    for k, v in cset.items():
        if k == "_alpn":
            if v is None:
                sc.ckw.pop("alpn", None)
            else:
                sc.ckw["alpn"] = v
        elif k == "_sni":
            if v is None:
                sc.ckw.pop("serverName", None)
            else:
                sc.ckw["serverName"] = v
        elif k == "_nocert":
            sc.client_cred = None
        else:
            sc.cset[k] = v
    if sess is not None and st.meta is not None and \
            "cipherNames" not in cset:
        # the client keeps offering what it offered when the held session
        # was made (a session made under an "other suite" offer is later
        # offered with that suite in the list)
        sc.cset["cipherNames"] = [
            S.ALL_INFOS[st.meta["suite"]].setting_cipher()]
    want_alpn = (sc.ckw.get("alpn") or [None])[0] if not \
        (sc.ckw.get("alpn") and b"h2" in sc.ckw["alpn"]) else b"h2"
    st.n_conn += 1
    SEAMS.reset(seed, "c13-%d" % st.n_conn, now=st.now)
    pair = Pair(World())
    SEAMS.current = "C"
    try:
        cg = sc.client_gen(pair.c, session=sess)
    except ValueError as e:
        return {"local_error": str(e)}
    SEAMS.current = "S"
    sg = sc.server_gen(pair.s, cache=srv.cache, settings=srv.settings(sc))
    SEAMS.current = "main"
    try:
        out = pair.handshake(cg, sg, max_steps=60000)
    except ValueError as e:
        return {"local_error": str(e)}
    c_ok = out["C"].status == "ok"
    s_ok = out["S"].status == "ok"
    rec = {"c_ok": c_ok, "s_ok": s_ok, "out": (out["C"].sig()[:3],
                                              out["S"].sig()[:3]),
           "offered": sess is not None, "altered": altered,
           "inconsistent": inconsistent, "srv": srv_i, "offer": offer}
    if isinstance(out["C"].exc, ValueError) or isinstance(out["S"].exc,
                                                          ValueError):
        rec["local_error"] = repr(out["C"].exc or out["S"].exc)
    if c_ok and s_ok:
        # data + let TLS 1.3 tickets arrive
        pair.write("C", b"ping")
        r = pair.read("S", None, 4)
        pair.write("S", b"pong")
        r2 = pair.read("C", None, 4)
        rec["data_ok"] = (r.status == "ok" and bytes(r.value) == b"ping" and
                          r2.status == "ok" and bytes(r2.value) == b"pong")
        rec["resumed_flag"] = bool(pair.c.resumed)
        # wire evidence: abbreviated flight (no Certificate from server)
        sm = []
        from .c20 import plaintext_handshake
        for t, b in plaintext_handshake(pair.world.s2c.log):
            sm.append(t)
        if mech["version"] >= (3, 4):
            # pre_shared_key (41) in ServerHello extensions
            from .c04 import split_hello
            shb = [b for t, b in plaintext_handshake(pair.world.s2c.log)
                   if t == 2]
            wire_res = False
            if shb:
                msg = bytes([2]) + len(shb[-1]).to_bytes(3, "big") + shb[-1]
                _, exts = split_hello(msg)
                wire_res = any(t == 41 for t, _ in exts)
            rec["resumed"] = wire_res
        else:
            rec["resumed"] = 11 not in sm and 12 not in sm and 14 not in sm
        rec["view_c"] = W.view(pair.c, exporter=False)
        rec["view_s"] = W.view(pair.s, exporter=False)
        rec["want_alpn"] = want_alpn
        rec["client_has_cert"] = bool(sc.client_cred)
        # both ends of every completed connection (resumed or not) agree,
        # including exported keying material
        full_c, full_s = W.view(pair.c), W.view(pair.s)
        rec["view_diff"] = [k for (k, a, b) in W.views_equal(
            full_c, full_s, keys=("version", "suite", "etm", "ems", "ms",
                                  "appProto", "ekm"))]
        rec["pair"] = pair
    return rec


def step(st, ev, seed):
    """Apply one event; returns list of failure strings."""
    fails = []
    kind = ev[0]
    if kind == "tick":
        st.now += ev[1]
        return fails
    if kind == "rotate":
        for s in st.servers[:1]:
            if not s.keys:
                continue
            old_first = s.key_epoch
            s.key_epoch += 1
            newk = bytearray([0x60 + s.key_epoch] * 32)
            if ev[1] == "prepend":
                s.keys = [newk] + s.keys[:1]
                s.live_epochs = {s.key_epoch, old_first}
            else:
                s.keys = [newk]
                s.live_epochs = {s.key_epoch}
        return fails
    if kind == "evict":
        s = st.servers[0]
        if s.cache is not None:
            SEAMS.now = st.now
            for i in range(6):
                x = Session()
                x.sessionID = bytearray(b"filler-%d" % i)
                x.resumable = True
                s.cache[x.sessionID] = x
            if st.meta is not None and st.meta["server"] == 0:
                st.meta["evicted"] = True
        return fails
    if kind == "close":
        if st.last is None:
            return fails
        pair = st.last
        st.last = None
        if ev[1] == "clean":
            pair.close("C")
            pair.read("S", None, 1)
            pair.close("S")
        elif ev[1] == "fatal":
            # garbage record towards the server provokes a fatal alert
            pair.world.c2s.inject(b"\x17\x03\x03\x00\x20" + b"\xa5" * 32)
            r = pair.read("S", None, 1)
            pair.read("C", None, 1)
            if st.meta is not None:
                st.meta["invalidated"] = True
                if getattr(st, "last_resumed_how", None) == "ticket":
                    st.meta["fatal_on_ticket_conn"] = True
                # the client's own object is marked only if that object
                # (not a copy of it) was used on the failed connection
                if not getattr(st, "last_used_copy", False):
                    st.meta["client_flagged"] = True
        elif ev[1] == "abrupt":
            pair.world.csock.close()
            pair.world.ssock.close()
            r1 = pair.read("S", None, 1)
            r2 = pair.read("C", None, 1)
            if st.meta is not None:
                st.meta["invalidated"] = True
                if getattr(st, "last_resumed_how", None) == "ticket":
                    st.meta["fatal_on_ticket_conn"] = True
                # the client's own object is marked only if that object
                # (not a copy of it) was used on the failed connection
                if not getattr(st, "last_used_copy", False):
                    st.meta["client_flagged"] = True
        # the client keeps the same Session object: flags travel with it
        return fails
    # connect
    if st.last is not None:
        # previous connection still open: close it cleanly first
        step(st, ("close", "clean"), seed)
    rec = do_connect(st, ev[1], seed)
    st.last_used_copy = ev[1].startswith("ticket-flip") or ev[1] in (
        "unknown-id", "held-copy", "held-renamed-sni")
    if "local_error" in rec:
        return fails
    mech = st.mech
    el, why = eligible(st, st.meta, rec["srv"], st.held if rec["offered"]
                       else None, rec["offer"])
    tls13 = mech["version"] >= (3, 4)
    # an offer is inconsistent only if it drops something the session had
    if rec["inconsistent"] and st.meta is not None:
        if rec["offer"] == "held-renamed-sni":
            # (the held session may itself be one made as "other.example")
            rec["inconsistent"] = st.meta["sni"] != "other.example"
        elif tls13:
            rec["inconsistent"] = False
        elif rec["offer"] == "held-noems" and not st.meta["ems"]:
            rec["inconsistent"] = False
        elif rec["offer"] == "held-noetm" and not st.meta["etm"]:
            rec["inconsistent"] = False
    if not tls13 and st.meta is not None and rec["offered"] and \
            not st.meta["ems"] and rec["offer"] != "held-noems":
        # the session has no EMS, this hello offers it
        rec["inconsistent"] = True
    declined_ticket12 = (not tls13 and mech["tickets"] and rec["offered"]
                         and st.held is not None and
                         bool(st.held.tls_1_0_tickets))
    both = rec["c_ok"] and rec["s_ok"]
    resumed = both and rec.get("resumed")
    if both and rec["resumed_flag"] != rec["resumed"] and \
            mech["version"] < (3, 4):
        fails.append("client.resumed=%s but the wire shows %s" % (
            rec["resumed_flag"], "an abbreviated handshake" if rec["resumed"]
            else "a full handshake"))
    if both and rec.get("view_diff"):
        fails.append("%s connection: client and server disagree on %r" % (
            "resumed" if resumed else "full", rec["view_diff"]))
    if both:
        wa = rec.get("want_alpn")
        got = rec["view_c"].get("appProto")
        got = bytes.fromhex(got) if got else None
        if got != wa:
            fails.append("ALPN on this connection is %r, this connection's "
                         "offer and the server's list give %r" % (got, wa))
    if resumed:
        if not el:
            tag = ""
            m0 = st.meta or {}
            if m0.get("fatal_on_ticket_conn") and mech["cache"] and \
                    st.now - m0["issued"] <= MAXAGE and \
                    not m0["evicted"] and m0["server"] == rec["srv"] and \
                    rec["offer"] not in (
                        "unknown-id", "foreign", "held-other-hash",
                        "held-same-hash", "held-other-sni", "held-no-sni",
                        "held-renamed-sni", "held-noems", "held-noetm"):
                # the only thing against this resumption is a fatal error on
                # a connection that had been resumed *by ticket*
                tag = "[id-after-fatal-on-ticket-conn] "
            fails.append(tag + "resumed although the session is not "
                         "eligible (%s)" % why)
        if rec["inconsistent"]:
            fails.append("resumed although the offer is inconsistent with "
                         "the session (%s)" % rec["offer"])
        vc, vs = rec["view_c"], rec["view_s"]
        m = st.meta
        for who, v in (("client", vc), ("server", vs)):
            if tls13:
                if S.ALL_INFOS[v["suite"]].prf != S.ALL_INFOS[m["suite"]].prf:
                    fails.append("%s: resumed under a suite with another "
                                 "hash (%04x after %04x)" % (who, v["suite"],
                                                             m["suite"]))
            elif v["suite"] != m["suite"]:
                fails.append("%s: resumed with another suite" % who)
            if v["ems"] != m["ems"] and mech["version"] < (3, 4):
                fails.append("%s: EMS flag changed on resumption" % who)
            if v["etm"] != m["etm"]:
                fails.append("%s: EtM changed on resumption" % who)
            if v["serverName"] != m["sni"]:
                fails.append("%s: server name changed on resumption: %r" % (
                    who, v["serverName"]))
        if vs["clientChain"] != m["client_chain"]:
            fails.append("server: client identity after resumption %r, "
                         "originally %r" % (vs["clientChain"],
                                            m["client_chain"]))
    else:
        # not resumed: a full handshake must have completed, unless the
        # offer was inconsistent (abort allowed by RFC 7627)
        if not both and not rec["inconsistent"]:
            tag = ""
            if declined_ticket12 and rec["out"][0][:3] == (
                    "exc", "TLSLocalAlert", 10):
                tag = "[tls12-ticket-declined] "
            fails.append(tag + "offer %r (%s): no resumption and no full "
                         "handshake either: %r" % (rec["offer"], why,
                                                   rec["out"]))
        if both and not rec.get("data_ok"):
            fails.append("data exchange failed after fallback")
        if both and not rec.get("client_has_cert", True) and \
                rec["view_s"]["clientChain"]:
            fails.append("full handshake without a client certificate, "
                         "server attributes %r to the client" % (
                             rec["view_s"]["clientChain"],))
    if both:
        if rec["resumed"] and mech["version"] < (3, 4):
            # resumed connection: the held session (and its model) stay
            st.last = rec["pair"]
        else:
            pair = rec["pair"]
            st.held = pair.c.session
            srv = st.servers[rec["srv"]]
            vs = rec["view_s"]
            has_ticket = bool(pair.c.session.tickets) if \
                mech["version"] >= (3, 4) else \
                bool(pair.c.session.tls_1_0_tickets)
            st.meta = {"completed": True, "invalidated": False,
                       "issued": st.now, "server": rec["srv"],
                       "suite": vs["suite"], "ems": vs["ems"],
                       "etm": vs["etm"], "sni": vs["serverName"],
                       "client_chain": vs["clientChain"]
                       if not rec["resumed"] else st.meta["client_chain"]
                       if st.meta else vs["clientChain"],
                       "has_ticket": has_ticket,
                       "key_epoch": srv.key_epoch, "evicted": False}
            st.last = pair
    else:
        st.last = None
    st.last_rec = {"resumed": bool(resumed), "both": both, "el": el}
    st.last_resumed_how = why if (resumed and el) else None
    return fails


def search(item):
    mech_name, first, depth, seed, tier = item
    evs = events(tier)
    stats = {"mech": mech_name, "first": first, "states": 0,
             "transitions": 0, "fails": [], "resumptions": 0,
             "fallbacks": 0, "sigs": set()}

    def rec(st, hist, d):
        stats["states"] += 1
        if d == 0:
            return
        for ev in evs:
            if not hist and ev != first:
                continue
            # pruning of no-ops keeps the alphabet effective
            if ev[0] == "close" and st.last is None:
                continue
            if ev[0] == "connect" and ev[1] != "none" and st.held is None:
                continue
            if ev[1:] == ("none-noems",) and st.mech["version"] >= (3, 4):
                continue
            if ev[0] == "rotate" and not st.servers[0].keys:
                continue
            if ev[0] == "evict" and st.servers[0].cache is None:
                continue
            if ev[0] == "tick" and hist and hist[-1][0] == "tick":
                continue
            st2 = copy.deepcopy(st)
            try:
                fails = step(st2, ev, seed)
            except Exception as e:  # noqa
                import traceback
                fails = ["harness/impl exception %s: %s" % (
                    type(e).__name__, traceback.format_exc()[-300:])]
            stats["transitions"] += 1
            h2 = hist + [ev]
            lr = getattr(st2, "last_rec", None)
            if ev[0] == "connect" and lr:
                if lr["resumed"]:
                    stats["resumptions"] += 1
                elif lr["both"]:
                    stats["fallbacks"] += 1
                stats["sigs"].add((ev[1], lr["resumed"], lr["both"],
                                   lr["el"]))
                st2.last_rec = None
            for f in fails:
                pc = stats.setdefault("per_class", {})
                pc[f[:40]] = pc.get(f[:40], 0) + 1
                if pc[f[:40]] <= 8:
                    stats["fails"].append({"history": h2, "fail": f})
            if not fails:
                rec(st2, h2, d - 1)

    st0 = State(mech_name)
    rec(st0, [], depth)
    stats["sigs"] = sorted(stats["sigs"], key=repr)
    return stats


def run(res, tier, seed):
    res.coverage["rule"] = (
        "every history of events {connect(10 offer variants), close(clean / "
        "fatal alert / abrupt), tick(1, ticketLifetime+1, cache maxAge+1, "
        "7d+1), ticket-key rotation (prepend / replace), cache eviction} up "
        "to depth d (3; thorough: 4 for TLS1.2 ID+ticket, TLS1.3 PSK and "
        "ticket+client-auth, 3 for the others) starting with an initial full "
        "handshake, for each resumption mechanism (TLS1.2 session ID, "
        "TLS1.2 ticket, both, TLS1.0 ID, TLS1.3 PSK, with client "
        "certificates); each connect is two live endpoints; states = "
        "distinct history prefixes executed, transitions = events applied")
    depth = 3 if tier == "quick" else 4
    mechs = list(MECHS) if tier == "thorough" else \
        ["tls12-id", "tls12-ticket", "tls12-both", "tls10-id", "tls13-psk",
         "tls12-ticket-clientauth", "tls13-psk-clientauth"]
    items = []
    for m in mechs:
        # every history starts with a fresh full handshake, then the first
        # explored event
        for ev in events(tier):
            items.append((m, ev, DEPTH4.get(m, 3) if tier == "thorough"
                          else depth, seed, tier))
            if MECHS[m]["cache"] and (tier == "thorough" or m in (
                    "tls12-id", "tls10-id")):
                # the same from a server whose session cache already wrapped
                items.append((m, ev, 3, seed, tier, ("evict",)))
    # histories start from connect(none): wrap
    states = trans = 0
    resum = fb = 0
    for st in pmap(search_from_initial, items, chunksize=1):
        states += st["states"]
        trans += st["transitions"]
        resum += st["resumptions"]
        fb += st["fallbacks"]
        res.count(st["transitions"])
        for s in st["sigs"]:
            res.outcome((st["mech"],) + tuple(s))
        for f in st["fails"]:
            hist = f["history"]
            key = {"mech": st["mech"], "what": f["fail"][:60]}
            if f["fail"].startswith("[tls12-ticket-declined]"):
                key = {"tls12_ticket_declined_breaks_client": True}
            if f["fail"].startswith("[id-after-fatal-on-ticket-conn]"):
                key = {"mech": st["mech"],
                       "id_resumed_after_fatal_on_ticket_connection": True}
            res.violation(key, f, {"mech": st["mech"], "history": hist})
        if st["resumptions"] and len(res.coverage["samples"]) < 5:
            res.sample({"mechanism": st["mech"], "second_event": st["first"],
                        "resumptions": st["resumptions"],
                        "fallbacks": st["fallbacks"]})
    res.coverage["states"] = states
    res.coverage["transitions"] = trans
    res.coverage["traces_validated_against_impl"] = trans
    res.section("histories", mechanisms=mechs,
                depth=dict((m, DEPTH4.get(m, 3) if tier == "thorough"
                            else depth) for m in mechs), states=states,
                transitions=trans, resumed_connections=resum,
                full_handshake_fallbacks=fb)
    res.coverage["distinct_nontrivial"] = states
    if resum == 0:
        res.violation({"part": "vacuity"}, {"why": "no history resumed"},
                      None)
    res.assumptions += [
        "'resumed' is read from the wire (abbreviated flight / "
        "pre_shared_key in ServerHello)",
        "inconsistent offers (EMS or EtM dropped) may abort or fall back, "
        "but never resume"]


def search_from_initial(item):
    """History = connect(none) followed by the explored events."""
    mech_name, first, depth, seed, tier = item[:5]
    pre = item[5] if len(item) > 5 else None
    evs = events(tier)
    stats = {"mech": mech_name, "first": first, "states": 0,
             "transitions": 0, "fails": [], "resumptions": 0,
             "fallbacks": 0, "sigs": set()}
    st0 = State(mech_name)
    prefix = []
    if pre is not None:
        # start from a non-initial server state (e.g. a session cache whose
        # ring has already wrapped)
        step(st0, pre, seed)
        prefix = [pre]
    fails = step(st0, ("connect", "none"), seed)
    st0.last_rec = None
    stats["transitions"] += 1
    if fails or st0.held is None:
        stats["fails"].append({"history": prefix + [("connect", "none")],
                               "fail": "initial handshake: %r" % (fails,)})
        stats["sigs"] = []
        return stats
    sub = search_core(st0, prefix + [("connect", "none")], first, depth, seed,
                      evs, stats)
    stats["sigs"] = sorted(stats["sigs"], key=repr)
    stats.pop("per_class", None)
    return stats


def search_core(st, hist, first, d, seed, evs, stats):
    stats["states"] += 1
    if d == 0:
        return
    for ev in evs:
        if hist[-1] == ("connect", "none") and len(hist) <= 2 and \
                ev != first and not any(h[0] != "evict" for h in hist[:-1]):
            continue
        if ev[0] == "close" and st.last is None:
            continue
        if ev[0] == "connect" and ev[1] != "none" and st.held is None:
            continue
        if ev[1:] == ("none-noems",) and st.mech["version"] >= (3, 4):
            continue
        if ev[0] == "rotate" and not st.servers[0].keys:
            continue
        if ev[0] == "evict" and st.servers[0].cache is None:
            continue
        if ev[0] == "tick" and hist[-1][0] == "tick":
            continue
        if ev[0] == "connect" and ev[1].startswith("ticket-flip") and \
                not st.mech["tickets"]:
            continue
        st2 = copy.deepcopy(st)
        try:
            fails = step(st2, ev, seed)
        except Exception as e:  # noqa
            import traceback
            fails = ["exception %s: %s" % (type(e).__name__,
                                           traceback.format_exc()[-400:])]
        stats["transitions"] += 1
        h2 = hist + [ev]
        lr = getattr(st2, "last_rec", None)
        if ev[0] == "connect" and lr:
            if lr["resumed"]:
                stats["resumptions"] += 1
            elif lr["both"]:
                stats["fallbacks"] += 1
            stats["sigs"].add((ev[1], lr["resumed"], lr["both"], lr["el"]))
            st2.last_rec = None
        for f in fails:
            pc = stats.setdefault("per_class", {})
            pc[f[:40]] = pc.get(f[:40], 0) + 1
            if pc[f[:40]] <= 8:
                stats["fails"].append({"history": h2, "fail": f})
        if not fails:
            search_core(st2, h2, first, d - 1, seed, evs, stats)


def replay(case_, seed):
    st = State(case_["mech"])
    out = []
    for ev in case_["history"]:
        ev = tuple(ev)
        out.append((ev, step(st, ev, seed)))
    return {"steps": out}
