"""C16 - post-handshake control traffic never disturbs the data stream or
key sync.

Deciding method: explicit-state search from the post-handshake snapshot of a
live connection (deep copies of the connected pair): every sequence up to a
depth over the operation alphabet {write, read, key-update (requested / not
requested), request-client-auth, heartbeat (payload, padding), close} issued
by either endpoint, with a FIFO reference model on both directions, traffic
secret agreement and a probe exchange after draining; plus adversarial
control messages sealed with the current keys.
"""
import copy

from .. import world as W
from .. import scen as S
from ..core import pmap
from ..puppet import RawMsg
from ..world import SEAMS, Pair, World
from .c01 import stream, Model, DIR_OF_WRITER, DIR_OF_READER
from tlslite import errors as E
from tlslite.constants import CipherSuite as CS, KeyUpdateMessageType as KU
from tlslite.constants import AlertDescription as AD
from tlslite.messages import Message

LEVEL = "model_checking"


class HBLog(object):
    def __init__(self):
        self.responses = []

    def cb(self, msg):
        self.responses.append((bytes(msg.payload), len(msg.padding)))


def configs(tier):
    L = [("tls13-pha", dict(version=(3, 4), cred="rsa", client_cred="c_rsa",
                            tickets=True,
                            suite=CS.TLS_AES_128_GCM_SHA256)),
         ("tls13-chacha-nopha", dict(version=(3, 4), cred="ecdsa",
                                     suite=CS.TLS_CHACHA20_POLY1305_SHA256)),
         ("tls12-gcm", dict(version=(3, 3), cred="rsa", tickets=True,
                            suite=CS.TLS_ECDHE_RSA_WITH_AES_128_GCM_SHA256)),
         ("tls10-cbc", dict(version=(3, 1), cred="rsa",
                            suite=CS.TLS_RSA_WITH_AES_128_CBC_SHA))]
    if tier == "thorough":
        L += [("tls13-hrr-aes256", dict(version=(3, 4), cred="rsa",
                                        client_cred="c_rsa",
                                        cset={"keyShares": []},
                                        suite=CS.TLS_AES_256_GCM_SHA384)),
              ("tls13-psk", dict(version=(3, 4), flavour="psk", cred=None,
                                 suite=CS.TLS_AES_128_GCM_SHA256))]
    return L


class St(object):
    """Search state: the live pair + the reference model."""

    def __init__(self, pair, hb_c, hb_s):
        self.pair = pair
        self.hb = {"C": hb_c, "S": hb_s}
        self.model = Model()
        self.hb_sent = {"C": [], "S": []}
        self.pha_requested = 0
        self.closed = {"C": False, "S": False}
        self.chain_before = None


def setup(cfg, seed):
    name, kw = cfg
    sc = S.Scen("c16/" + name, **kw)
    hb_c, hb_s = HBLog(), HBLog()
    sc.cset["heartbeat_response_callback"] = hb_c.cb
    sc.sset["heartbeat_response_callback"] = hb_s.cb
    pair, out = S.connect(sc, seed=seed)
    if out["C"].status != "ok" or out["S"].status != "ok":
        return None, sc, out
    if sc.version >= (3, 4):
        pair.drain()
    st = St(pair, hb_c, hb_s)
    st.chain_before = W.chain_fp(pair.s.session.clientCertChain)
    return st, sc, out


def ops_for(st, sc):
    tls13 = sc.version >= (3, 4)
    ops = []
    for who in ("C", "S"):
        ops.append(("w", who, 1))
        ops.append(("w", who, 40))
        ops.append(("r", who))
        if tls13:
            ops.append(("ku", who, True))
            ops.append(("ku", who, False))
        ep = st.pair.ep(who)
        if ep.heartbeat_supported and ep.heartbeat_can_send:
            ops.append(("hb", who, b"", 16))
            ops.append(("hb", who, b"pay!", 16))
        ops.append(("close", who))
    if tls13 and st.pair.s._pha_supported:
        ops.append(("pha", "S"))
    return ops


def pump_read(st, who, fails, hist):
    """Read everything that is available to `who` (min=0 reads until the
    transport would block)."""
    pair = st.pair
    ep = pair.ep(who)
    d = DIR_OF_READER[who]
    for _ in range(40):
        if ep.closed:
            break
        pipe = pair.world.s2c if who == "C" else pair.world.c2s
        if not pipe.buf and not ep.sock._read_buffer and \
                not ep._readBuffer and ep._defragmenter.is_empty():
            break
        o = pair.read(who, None, 0)
        if o.status == "ok":
            got = bytes(o.value or b"")
            exp = stream(d, st.model.rcvd[d], len(got))
            if got != exp or st.model.rcvd[d] + len(got) > st.model.sent[d]:
                fails.append("read returned wrong bytes: %r (expected next "
                             "%r)" % (got[:20], exp[:20]))
                return False
            st.model.rcvd[d] += len(got)
        elif o.status == "exc":
            if isinstance(o.exc, E.TLSRemoteAlert) and ep.closed:
                break
            fails.append("%s read raised %r" % (who, o.exc))
            return False
        else:
            break
    return True


def apply_op(st, op, fails, hist):
    pair = st.pair
    kind, who = op[0], op[1]
    ep = pair.ep(who)
    peer_who = "S" if who == "C" else "C"
    if kind == "w":
        d = DIR_OF_WRITER[who]
        data = stream(d, st.model.sent[d], op[2])
        o = pair.write(who, data)
        if ep.closed or st.closed[who]:
            if o.status != "exc":
                fails.append("write on closed connection did not raise")
            return
        if o.status != "ok":
            # writing towards a peer that closed its socket may fail
            if st.closed[peer_who]:
                st.closed[who] = True
                return
            fails.append("write failed: %r" % (o,))
            return
        st.model.sent[d] += op[2]
    elif kind == "r":
        pump_read(st, who, fails, hist)
    elif kind == "ku":
        if ep.closed:
            return
        o = W.run_gen(pair.world, who, ep.send_keyupdate_request(
            KU.update_requested if op[2] else KU.update_not_requested))
        if o.status != "ok" and not st.closed[peer_who]:
            fails.append("send_keyupdate_request: %r" % (o,))
    elif kind == "pha":
        if ep.closed:
            return
        o = W.run_gen(pair.world, "S", pair.s.request_post_handshake_auth(
            None))
        if o.status != "ok" and not st.closed["C"]:
            fails.append("request_post_handshake_auth: %r" % (o,))
        else:
            st.pha_requested += 1
    elif kind == "hb":
        if ep.closed:
            return
        o = W.run_gen(pair.world, who, ep.write_heartbeat(
            bytearray(op[2]), op[3]))
        if o.status != "ok" and not st.closed[peer_who]:
            fails.append("write_heartbeat: %r" % (o,))
        else:
            st.hb_sent[who].append((op[2], op[3]))
    elif kind == "close":
        if ep.closed:
            return
        o = pair.close(who)
        st.closed[who] = True
        if o.status != "ok":
            fails.append("close: %r" % (o,))


def final_checks(st, sc, fails):
    """Drain, then the end-state oracle."""
    pair = st.pair
    tls13 = sc.version >= (3, 4)
    for _ in range(6):
        before = (st.model.rcvd["c2s"], st.model.rcvd["s2c"],
                  len(pair.world.c2s.buf), len(pair.world.s2c.buf))
        if not pump_read(st, "C", fails, None):
            return
        if not pump_read(st, "S", fails, None):
            return
        after = (st.model.rcvd["c2s"], st.model.rcvd["s2c"],
                 len(pair.world.c2s.buf), len(pair.world.s2c.buf))
        if before == after:
            break
    any_closed = st.closed["C"] or st.closed["S"] or pair.c.closed or \
        pair.s.closed
    # everything written while both were open must have arrived, unless a
    # close cut it off
    if not any_closed:
        for d in ("c2s", "s2c"):
            if st.model.rcvd[d] != st.model.sent[d]:
                fails.append("%s: %d bytes written, %d delivered after "
                             "drain" % (d, st.model.sent[d],
                                        st.model.rcvd[d]))
        if tls13:
            cs, ss = pair.c.session, pair.s.session
            if bytes(cs.cl_app_secret) != bytes(ss.cl_app_secret) or \
                    bytes(cs.sr_app_secret) != bytes(ss.sr_app_secret):
                fails.append("traffic secrets out of step after drain")
        # probe both ways
        for who, peer in (("C", "S"), ("S", "C")):
            d = DIR_OF_WRITER[who]
            data = stream(d, st.model.sent[d], 3)
            o = pair.write(who, data)
            if o.status != "ok":
                fails.append("probe write %s: %r" % (who, o))
                return
            st.model.sent[d] += 3
            if not pump_read(st, peer, fails, None):
                return
            if st.model.rcvd[d] != st.model.sent[d]:
                fails.append("probe from %s not delivered" % who)
    # heartbeat responses echo exactly the request payload
    for who in ("C", "S"):
        got = st.hb[who].responses
        sent = st.hb_sent[who]
        if not any_closed and len(got) != len(sent):
            fails.append("%s: %d heartbeat requests, %d responses" % (
                who, len(sent), len(got)))
        for (p, padlen), (sp, spad) in zip(got, sent):
            if p != bytes(sp):
                fails.append("heartbeat response payload %r for request "
                             "%r" % (p, sp))
            if padlen < 16:
                fails.append("heartbeat response padding %d" % padlen)
    # client chain only after a verified PHA
    chain = W.chain_fp(pair.s.session.clientCertChain)
    if chain != st.chain_before:
        if st.pha_requested == 0:
            fails.append("client chain changed without PHA")
        elif chain != W.chain_fp(W.load_cred("c_rsa")[0]):
            fails.append("client chain after PHA is not the client's")


def search(item):
    ci, first, depth, seed, tier = item
    cfg = configs(tier)[ci]
    stats = {"cfg": cfg[0], "states": 0, "transitions": 0, "fails": [],
             "sigs": set()}
    st0, sc, out = setup(cfg, seed)
    if st0 is None:
        stats["fails"].append({"history": [], "fail": "handshake failed %r"
                               % (out,)})
        return stats
    all_ops = ops_for(st0, sc)
    if first >= len(all_ops):
        return stats

    def rec(st, hist, d):
        stats["states"] += 1
        # every reached state is checked on a copy (drain + probes)
        stf = copy.deepcopy(st)
        fails = []
        final_checks(stf, sc, fails)
        stats["sigs"].add((len(hist), bool(fails),
                           stf.closed["C"] or stf.closed["S"]))
        for f in fails:
            if len(stats["fails"]) < 20:
                stats["fails"].append({"history": hist, "fail": f})
        if d == 0 or fails:
            return
        for i, op in enumerate(ops_for(st, sc)):
            if not hist and i != first:
                continue
            if op[0] == "close" and st.closed[op[1]]:
                continue
            st2 = copy.deepcopy(st)
            f2 = []
            apply_op(st2, op, f2, hist)
            stats["transitions"] += 1
            h2 = hist + [op]
            for f in f2:
                if len(stats["fails"]) < 20:
                    stats["fails"].append({"history": h2, "fail": f})
            if not f2:
                rec(st2, h2, d - 1)
    rec(st0, [], depth)
    stats["sigs"] = sorted(stats["sigs"], key=repr)
    stats["sample"] = None
    return stats


# ---------------------------------------------------------------- adversarial
def hb_close_case(item):
    """A peer that asks for a heartbeat, writes its last data, sends
    close_notify and closes its socket has done everything right: the other
    side reads all the data and then end-of-data, although its heartbeat
    answer can no longer be delivered."""
    cfg, who, n, seed = item
    st, sc, out = setup(cfg, seed)
    name = "%s/%s/%d" % (cfg[0], who, n)
    if st is None:
        return name, None, []
    pair = st.pair
    pair.world.epipe_after_peer_close = True
    other = "S" if who == "C" else "C"
    ep = pair.ep(who)
    if not (ep.heartbeat_supported and ep.heartbeat_can_send):
        return name, None, []
    fails = []
    o = W.run_gen(pair.world, who, ep.write_heartbeat(bytearray(b"last"), 16))
    data = bytes((i * 13 + 7) & 0xff for i in range(n))
    w = pair.write(who, data)
    c = pair.close(who)
    if o.status != "ok" or w.status != "ok" or c.status != "ok":
        return name, ("sender-failed",), []
    got = b""
    last = None
    for _ in range(n + 5):
        last = pair.read(other, None, 1)
        if last.status != "ok" or not last.value:
            break
        got += bytes(last.value)
    if got != data:
        fails.append("%d of %d bytes delivered before %r" % (
            len(got), n, last.sig()[:3]))
    elif last.status != "ok":
        fails.append("data delivered, then %r instead of end-of-data" % (
            last.sig()[:3],))
    sess = pair.ep(other).session
    if sess is not None and not sess.resumable and \
            pair.ep(other).session.sessionID:
        fails.append("orderly close of the peer left the session "
                     "non-resumable")
    return name, ("ok" if not fails else "fail",), fails


def hb_exact_case(item):
    """Heartbeat requests whose encoding is exactly / one less / one more
    than the sender's record size (user-set): one record each, answered,
    and the data that follows flows."""
    cfg, who, rs, delta, seed = item[:5]
    responder = len(item) > 5 and item[5] == "responder"
    st, sc, out = setup(cfg, seed)
    name = "%s/%s/rs%d%+d%s" % (cfg[0], who, rs, delta,
                                "/responder-limited" if responder else "")
    if st is None:
        return name, None, []
    pair = st.pair
    other = "S" if who == "C" else "C"
    ep = pair.ep(who)
    if not (ep.heartbeat_supported and ep.heartbeat_can_send):
        return name, None, []
    fails = []
    if responder:
        # the *answering* side has the small record size: a response that
        # does not fit one record cannot be sent, nothing bogus comes back
        pair.ep(other).recordSize = rs
    else:
        ep.recordSize = rs
    payload = bytes((i * 5 + 1) & 0xff for i in range(rs - 3 - 16 + delta))
    o = W.run_gen(pair.world, who, ep.write_heartbeat(bytearray(payload), 16))
    refused = False
    if o.status != "ok":
        if delta > 0 and isinstance(o.exc, E.TLSInternalError):
            # a message that does not fit one record is refused locally
            # (it cannot be split); the connection stays usable
            refused = True
        else:
            fails.append("write_heartbeat: %r" % (o.sig()[:3],))
    w = pair.write(who, b"ping")
    r = pair.read(other, None, 4)
    if w.status != "ok" or r.status != "ok" or bytes(r.value) != b"ping":
        fails.append("data after the heartbeat request: write %r read %r" % (
            w.sig()[:3], r.sig()[:3]))
    w2 = pair.write(other, b"pong")
    r2 = pair.read(who, None, 4)
    if w2.status != "ok" or r2.status != "ok" or bytes(r2.value) != b"pong":
        fails.append("data back: write %r read %r" % (w2.sig()[:3],
                                                      r2.sig()[:3]))
    got = [p for (p, _) in st.hb[who].responses]
    if [p for p in got if p != payload]:
        fails.append("a heartbeat response with another payload than the "
                     "request's reached the requester")
    if responder and delta > 0:
        refused = True      # (no answer is the right answer)
    if payload not in got and not fails and not refused:
        fails.append("no heartbeat response with the request's payload "
                     "reached the requester (%d responses)" % len(got))
    return name, ("ok" if not fails else "fail",), fails


def adversarial_cases():
    ku0 = b"\x18\x00\x00\x01\x00"
    ku1 = b"\x18\x00\x00\x01\x01"
    nst = b"\x04\x00\x00\x15" + b"\x00\x00\x0e\x10" + b"\x00\x00\x00\x00" + \
        b"\x01n" + b"\x00\x08ticket!!" + b"\x00\x00"
    return [
        ("ku-value-2", "tls13", "both", 22, b"\x18\x00\x00\x01\x02", None),
        ("ku-value-255", "tls13", "both", 22, b"\x18\x00\x00\x01\xff", None),
        ("ku-empty", "tls13", "both", 22, b"\x18\x00\x00\x00", None),
        ("ku-two-bytes", "tls13", "both", 22, b"\x18\x00\x00\x02\x00\x00",
         None),
        # (a KeyUpdate split over several records that ends its last record
        # is legal, RFC 8446 5.1: it used to be listed here and "passed"
        # because the data written after it no longer decrypted)
        ("ku-plus-ku-in-one-record", "tls13", "both", 22, ku0 + ku0, None),
        ("ku-plus-nst-in-one-record", "tls13", "toC", 22, ku0 + nst, None),
        ("nst-plus-ku-in-one-record", "tls13", "toC", 22, nst + ku1, None),
        # a KeyUpdate that does not end its record, followed by the *start*
        # of another message only (nothing complete is left in the buffer)
        ("ku-plus-ku-header-in-one-record", "tls13", "both", 22,
         ku0 + ku0[:3], None),
        ("ku-plus-one-octet-in-one-record", "tls13", "both", 22,
         ku0 + b"\x18", None),
        ("ku-plus-ku-less-one-octet-in-one-record", "tls13", "both", 22,
         ku0 + ku0[:4], None),
        ("ku-plus-partial-nst-in-one-record", "tls13", "toC", 22,
         ku0 + nst[:9], None),
        ("ku-on-tls12", "tls12", "both", 22, ku0, None),
        ("cr-to-client-without-pha", "tls13-nopha", "toC", 22,
         b"\x0d\x00\x00\x0b\x01c\x00\x08\x00\x0d\x00\x04\x00\x02\x08\x04",
         None),
        ("client-cert-unsolicited", "tls13", "toS", 22,
         b"\x0b\x00\x00\x04\x00\x00\x00\x00", None),
        ("client-cert-unknown-context", "tls13-pha-pending", "toS", 22,
         b"\x0b\x00\x00\x07\x03ctx\x00\x00\x00", None),
        ("nst-to-server", "tls13", "toS", 22, nst, None),
        ("nst-to-server-tls12", "tls12", "toS", 22,
         b"\x04\x00\x00\x0a\x00\x00\x0e\x10\x00\x04tick", None),
        ("ccs-after-handshake", "tls13", "both", 20, b"\x01", None),
        ("ccs-after-handshake-tls12", "tls12", "both", 20, b"\x01", None),
        ("finished-after-handshake", "tls13", "both", 22,
         b"\x14\x00\x00\x20" + bytes(32), None),
        ("server-hello-after-handshake", "tls13", "toC", 22,
         b"\x02\x00\x00\x02\x03\x03", None),
        ("hello-request-tls13", "tls13", "toC", 22, b"\x00\x00\x00\x00",
         None),
        ("unknown-handshake-type", "tls13", "both", 22,
         b"\x63\x00\x00\x00", None),
        ("empty-handshake-record", "tls13", "both", 22, b"", None),
        ("empty-alert-record", "tls13", "both", 21, b"", None),
        ("unknown-content-type", "tls13", "both", 99, b"zz", None),
    ] + [
        # heartbeat messages although the extension was not negotiated:
        # one side has it switched off (it neither offers nor acknowledges)
        ("hb-%s-%s-%s" % (kind, off, ver), "%s-hb-%s-off" % (ver, off),
         "both", 24, body, None)
        for ver in ("tls13", "tls12")
        for off in ("server", "client", "both")
        for (kind, body) in (
            ("request", b"\x01\x00\x04ping" + bytes(16)),
            ("response", b"\x02\x00\x04ping" + bytes(16)))]


def adversarial_case(item):
    ai, seed = item
    name, where, direction, ctype, body, recsize = adversarial_cases()[ai]
    res = {"name": name, "n": 0, "fails": [], "sigs": set()}
    CSs = CS
    if "-hb-" in where:
        ver, _, off, _ = where.split("-")
        kw = dict(version=(3, 4) if ver == "tls13" else (3, 3), cred="rsa",
                  suite=CSs.TLS_AES_128_GCM_SHA256 if ver == "tls13" else
                  CSs.TLS_ECDHE_RSA_WITH_AES_128_GCM_SHA256)
        if off in ("server", "both"):
            kw["sset"] = {"use_heartbeat_extension": False}
        if off in ("client", "both"):
            kw["cset"] = {"use_heartbeat_extension": False}
    elif where.startswith("tls13"):
        kw = dict(version=(3, 4), cred="rsa", tickets=False,
                  suite=CSs.TLS_AES_128_GCM_SHA256)
        if where != "tls13-nopha":
            kw["client_cred"] = "c_rsa"
    else:
        kw = dict(version=(3, 3), cred="rsa",
                  suite=CSs.TLS_ECDHE_RSA_WITH_AES_128_GCM_SHA256)
    dirs = {"both": ("C", "S"), "toC": ("S",), "toS": ("C",)}[direction]
    for sender in dirs:
        sc = S.Scen("c16/adv", **kw)
        pair, out = S.connect(sc, seed=seed)
        if out["C"].status != "ok" or out["S"].status != "ok":
            res["fails"].append("handshake failed")
            continue
        pair.drain()
        victim = "S" if sender == "C" else "C"
        if where == "tls13-pha-pending":
            W.run_gen(pair.world, "S", pair.s.request_post_handshake_auth(
                None))
            # the real answer is never delivered: drop it
        snd = pair.ep(sender)
        pair.write(sender, b"before")
        if recsize:
            snd.recordSize = recsize
        if ctype == 99:
            # unknown outer type cannot go through the record layer API of
            # TLS 1.3 (type is inside); send as RawMsg with that type
            W.run_gen(pair.world, sender, snd._sendMsg(RawMsg(99, body)))
        else:
            W.run_gen(pair.world, sender, snd._sendMsg(
                RawMsg(ctype, body), update_hashes=False))
        snd.recordSize = 2 ** 14
        got = b""
        result = None
        vic = pair.ep(victim)
        secrets_before = None
        # the bad message has to be refused on its own account: the data
        # that follows it is written only once the victim has read all there
        # is (a victim that, say, rolled its key would refuse the *later*
        # record with bad_record_mac, which proves nothing)
        for phase in ("alone", "followed"):
            if phase == "followed":
                if result != ("ok",):
                    break
                result = None
                pair.write(sender, b"after")
            for _ in range(8):
                o = pair.read(victim, None, 0)
                if o.status == "ok":
                    got += bytes(o.value or b"")
                    pipe = pair.world.s2c if victim == "C" else \
                        pair.world.c2s
                    if not pipe.buf and not vic.sock._read_buffer:
                        result = ("ok",)
                        break
                elif o.status == "exc":
                    result = ("exc",) + W.exc_sig(o.exc)
                    if phase == "followed":
                        result = ("late",) + result
                    break
                else:
                    result = (o.status,)
                    break
        if result and result[0] == "exc":
            # refused: whatever is written afterwards must not come out
            pair.write(sender, b"after")
            o = pair.read(victim, None, 0)
            if o.status == "ok":
                got += bytes(o.value or b"")
        res["n"] += 1
        res["sigs"].add((sender, result))
        ok_alert = result and result[0] == "exc" and \
            result[1] == "TLSLocalAlert" and result[3] == 2
        if not got.startswith(b"before"):
            res["fails"].append("%s->%s: data before the message lost: %r" %
                                (sender, victim, got))
        if not ok_alert:
            res["fails"].append("%s->%s: not answered with a fatal alert: "
                                "%r (delivered %r)" % (sender, victim,
                                                       result, got))
        else:
            if b"after" in got:
                res["fails"].append("data after the bad message delivered")
            if not vic.closed:
                res["fails"].append("not closed")
    res["sigs"] = sorted(res["sigs"], key=repr)
    return res


def run(res, tier, seed):
    res.coverage["rule"] = (
        "every operation sequence up to depth d (3 quick, 4 thorough) over "
        "{write 1/40 bytes, read-all, key-update requested/not requested, "
        "request-client-auth, heartbeat (empty / 4-byte payload), close} by "
        "either endpoint from the post-handshake snapshot of TLS 1.3 "
        "connections (with/without PHA, two AEADs; HRR and PSK in thorough) "
        "and TLS 1.2 / 1.0 connections (heartbeat, tickets); every reached "
        "state is drained on a copy and checked (FIFO both directions, "
        "secret agreement, probe exchange, heartbeat echo, client chain); "
        "26 adversarial control messages sealed with the live keys")
    depth = 3 if tier == "quick" else 4
    cfgs = configs(tier)
    items = []
    for ci in range(len(cfgs)):
        for first in range(20):
            items.append((ci, first, depth, seed, tier))
    states = trans = 0
    for st in pmap(search, items, chunksize=1):
        states += st["states"]
        trans += st["transitions"]
        res.count(st["transitions"])
        for s in st["sigs"]:
            res.outcome((st["cfg"],) + tuple(s))
        for f in st["fails"]:
            res.violation({"cfg": st["cfg"], "what": f["fail"][:50]}, f,
                          {"cfg": st["cfg"], "history": f["history"]})
    res.sample({"config": "tls13-pha", "history": [
        ("w", "C", 40), ("ku", "S", True), ("r", "C"), ("pha", "S")]})
    res.coverage["states"] = states
    res.coverage["transitions"] = trans
    res.coverage["traces_validated_against_impl"] = trans
    res.section("search", configs=[c[0] for c in cfgs], depth=depth,
                states=states, transitions=trans)
    na = 0
    adv = adversarial_cases()
    for r in pmap(adversarial_case, [(i, seed) for i in range(len(adv))]):
        na += r["n"]
        res.count(r["n"])
        for s in r["sigs"]:
            res.outcome(("adv",) + tuple(s))
        for f in r["fails"]:
            res.violation({"adversarial": r["name"], "what": f[:40]},
                          {"case": r["name"], "fail": f},
                          {"adversarial": r["name"]})
    res.section("adversarial", cases=len(adv), executions=na)
    hitems = [(cfg, who, n, seed) for cfg in cfgs for who in ("C", "S")
              for n in (0, 1, 760)]
    nh = 0
    for (name, sig, fails) in pmap(hb_close_case, hitems):
        if sig is None:
            continue
        nh += 1
        res.count()
        res.outcome(("hb-close",) + tuple(sig))
        for f in fails:
            res.violation({"part": "heartbeat-then-close", "what": f[:40]},
                          {"case": name, "fail": f}, {"hb_close": name})
    res.section("heartbeat_then_close", executions=nh)
    xitems = [(cfg, who, rs, d, seed) for cfg in cfgs for who in ("C", "S")
              for rs in (64, 100) for d in (-1, 0, 1)]
    xitems += [(cfg, who, rs, d, seed, "responder") for cfg in cfgs
               for who in ("C", "S") for rs in (64, 100)
               for d in (-1, 0, 1, 40)]
    nx = 0
    for (name, sig, fails) in pmap(hb_exact_case, xitems):
        if sig is None:
            continue
        nx += 1
        res.count()
        res.outcome(("hb-exact",) + tuple(sig))
        for f in fails:
            res.violation({"part": "heartbeat-record-size", "what": f[:40]},
                          {"case": name, "fail": f}, {"hb_exact": name})
    res.section("heartbeat_at_record_size", executions=nx)
    # post-handshake authentication: the chain is recorded only after the
    # client's CertificateVerify *and* Finished verify (corruption of each
    # message of the client's flight, CertificateVerify omitted)
    from . import c05
    r = c05.pha_case((tier, seed))
    res.count(r["n"])
    for sg in r["sigs"]:
        res.outcome(("pha-proof",) + tuple(sg))
    for (lab, f) in r["fails"]:
        res.violation({"part": "pha-proof", "class": lab.split("[")[0]},
                      {"corruption": lab, "fail": f}, {"pha": lab})
    res.section("post_handshake_auth_proof", executions=r["n"])
    na += r["n"]
    res.coverage["distinct_nontrivial"] = states + na
    res.assumptions += [
        "state abstraction: none (every history is executed); payload bytes "
        "from one counter stream per direction"]


def replay(case_, seed):
    return {"note": "re-run ./check C16", "case": case_}
