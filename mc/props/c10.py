"""C10 - signatures and key agreement are sound, strict and never emitted
when faulty.

Deciding method: fault enumeration / exhaustive shape enumeration:
(1) every (fixture key, scheme, message pattern): the signature verifies
under its own public key and under the openssl command line, and fails under
every other key of the type, for every single-bit (thorough) / byte-level
(quick) change, other scheme / hash / salt length, length +-1 and empty;
(2) structural forgeries produced with the private operation on chosen
encodings; (3) key agreement over every group with every degenerate peer
value; (4) a computation fault injected at each private-key operation of
every handshake flavour, with the wire checked for an invalid signature.
"""
import hashlib
import os
import shutil
import struct
import subprocess
import tempfile

from .. import world as W
from .. import scen as S
from ..core import pmap
from ..puppet import Puppet
from .. import msgstruct
from ..world import SEAMS, Pair, World, load_cred, CRED_FILES, TESTS
from tlslite import errors as E
from tlslite.constants import CipherSuite as CS, GroupName
from tlslite.keyexchange import FFDHKeyExchange, ECDHKeyExchange
from tlslite.utils.cryptomath import numBytes, numberToByteArray, \
    bytesToNumber

LEVEL = "fault_enumeration"

MSGS = [b"", b"a", b"The quick brown fox", bytes(range(256)), b"\xff" * 65]

RSA_KEYS = ["rsa", "c_rsa", "rsa_nonca"]
PSS_KEYS = ["rsapss"]
ECDSA_KEYS = [("ecdsa", "sha256"), ("ecdsa384", "sha384"),
              ("ecdsa521", "sha512"), ("bp256", "sha256"),
              ("bp384", "sha384"), ("bp512", "sha512"), ("c_ecdsa",
                                                          "sha256")]
EDDSA_KEYS = ["ed25519", "ed448", "c_ed25519"]
DSA_KEYS = ["dsa", "c_dsa"]


def pubkey_of(cred):
    chain, key = load_cred(cred)
    return chain.getEndEntityPublicKey()


class OpenSSL(object):
    """Independent verifier: the openssl command line."""

    def __init__(self):
        self.dir = tempfile.mkdtemp(prefix="c10-")
        self.pubs = {}

    def close(self):
        shutil.rmtree(self.dir, ignore_errors=True)

    def pub(self, cred):
        if cred not in self.pubs:
            certf = os.path.join(TESTS, CRED_FILES[cred][0])
            out = os.path.join(self.dir, cred + ".pub")
            p = subprocess.run(["openssl", "x509", "-in", certf, "-pubkey",
                                "-noout"], stdout=subprocess.PIPE,
                               stderr=subprocess.PIPE)
            with open(out, "wb") as f:
                f.write(p.stdout)
            self.pubs[cred] = out
        return self.pubs[cred]

    def verify(self, cred, kind, h, data, sig, saltlen=None):
        d = os.path.join(self.dir, "d")
        s = os.path.join(self.dir, "s")
        with open(d, "wb") as f:
            f.write(data)
        with open(s, "wb") as f:
            f.write(sig)
        if kind == "eddsa":
            cmd = ["openssl", "pkeyutl", "-verify", "-pubin", "-inkey",
                   self.pub(cred), "-rawin", "-in", d, "-sigfile", s]
        else:
            cmd = ["openssl", "dgst", "-" + h, "-verify", self.pub(cred),
                   "-signature", s]
            if kind == "pss":
                cmd += ["-sigopt", "rsa_padding_mode:pss", "-sigopt",
                        "rsa_pss_saltlen:%d" % saltlen]
            cmd.append(d)
        p = subprocess.run(cmd, stdout=subprocess.PIPE,
                           stderr=subprocess.PIPE)
        return p.returncode == 0 and (b"Verified OK" in p.stdout or
                                      b"Signature Verified Successfully"
                                      in p.stdout)


def flips(sig, tier):
    """Single-bit (thorough) or two-masks-per-byte (quick) changes."""
    masks = (1, 2, 4, 8, 16, 32, 64, 128) if tier == "thorough" else (1,
                                                                       0x80)
    step = 1 if tier == "thorough" or len(sig) <= 80 else 5
    for pos in list(range(0, len(sig), step)) + [len(sig) - 1]:
        for m in masks:
            b = bytearray(sig)
            b[pos] ^= m
            yield "flip[%d]^%02x" % (pos, m), bytes(b)


def sig_case(item):
    kind, cred, h, tier, seed = item
    chain, key = load_cred(cred)
    pub = pubkey_of(cred)
    ossl = OpenSSL()
    n = 0
    fails = []
    outcomes = set()

    def sign(msg, hh=h, pad=None, salt=None):
        if kind == "pkcs1":
            return key.hashAndSign(bytearray(msg), "PKCS1", hh)
        if kind == "pss":
            return key.hashAndSign(bytearray(msg), "PSS", hh, salt)
        if kind == "ecdsa":
            # as the protocol code does (keyexchange.py): a digest longer
            # than the curve is truncated by the caller of sign()
            dg = bytearray(hashlib.new(hh, bytes(msg)).digest())
            return key.sign(dg[:key.private_key.curve.baselen], hashAlg=hh)
        if kind == "eddsa":
            return key.hashAndSign(bytearray(msg))
        if kind == "dsa":
            return key.hashAndSign(bytearray(msg), hh)

    def verify(k, sig, msg, hh=h, salt=None, scheme=None):
        sc = scheme or kind
        try:
            if sc == "pkcs1":
                return bool(k.hashAndVerify(bytearray(sig), bytearray(msg),
                                            "PKCS1", hh))
            if sc == "pss":
                return bool(k.hashAndVerify(bytearray(sig), bytearray(msg),
                                            "PSS", hh, salt))
            if sc == "ecdsa":
                return bool(k.hashAndVerify(bytearray(sig), bytearray(msg),
                                            hAlg=hh))
            if sc == "eddsa":
                return bool(k.hashAndVerify(bytearray(sig), bytearray(msg)))
            if sc == "dsa":
                return bool(k.hashAndVerify(bytearray(sig), bytearray(msg),
                                            hh))
        except BaseException as e:  # noqa
            return "raised %s" % type(e).__name__

    def expect(label, got, want):
        nonlocal n
        n += 1
        outcomes.add((label.split("[")[0].split("=")[0], got))
        if got != want and len(fails) < 30:
            fails.append({"kind": kind, "cred": cred, "hash": h,
                          "case": label, "got": got, "want": want})
    hl = hashlib.new(h).digest_size if h else 0
    salts = [None]
    if kind == "pss":
        salts = [0, hl, 2048 // 8 - hl - 2]
    others = {"pkcs1": RSA_KEYS, "pss": PSS_KEYS + ["rsa"],
              "ecdsa": [c for c, _ in ECDSA_KEYS],
              "eddsa": EDDSA_KEYS, "dsa": DSA_KEYS}[kind]
    SEAMS.reset(seed, "c10-%s-%s" % (kind, cred))
    if kind in ("pkcs1", "pss") and cred == "rsa" and h == "sha256":
        # a signature whose first octet is zero (1 in 256; messages are
        # tried in a fixed order until one turns up) with that octet dropped
        # is a shorter string, not the same signature
        for i in range(4000):
            m0 = b"leading zero search %d" % i
            s0 = bytes(sign(m0, salt=salts[-1] if kind == "pss" else None))
            if s0[0] == 0:
                sl = salts[-1] if kind == "pss" else None
                expect("leading-zero-own-key", verify(pub, s0, m0, salt=sl),
                       True)
                expect("leading-zero-dropped", verify(pub, s0[1:], m0,
                                                      salt=sl), False)
                break
        else:
            expect("leading-zero-search", "not found", "found")
    for mi, msg in enumerate(MSGS):
        for salt in salts:
            sig = bytes(sign(msg, salt=salt))
            expect("own-key", verify(pub, sig, msg, salt=salt), True)
            if mi in (1, 3):
                expect("openssl", ossl.verify(cred, kind, h, msg, sig,
                                              saltlen=salt), True)
            for oc in others:
                if oc == cred:
                    continue
                try:
                    opub = pubkey_of(oc)
                except Exception:
                    continue
                if type(opub) is not type(pub):
                    continue
                if kind == "ecdsa" and opub.curve_name != pub.curve_name:
                    r = verify(opub, sig, msg, salt=salt)
                    expect("other-key-other-curve", r is True, False)
                    continue
                expect("other-key", verify(opub, sig, msg, salt=salt), False)
            # message change
            expect("other-message", verify(pub, sig, msg + b"x", salt=salt),
                   False)
            # structural
            expect("empty", verify(pub, b"", msg, salt=salt), False)
            expect("short-by-1", verify(pub, sig[:-1], msg, salt=salt),
                   False)
            expect("long-by-1", verify(pub, sig + b"\x00", msg, salt=salt),
                   False)
            expect("prefixed-zero", verify(pub, b"\x00" + sig, msg,
                                           salt=salt), False)
            # other hash / scheme / salt
            if kind in ("pkcs1", "pss", "ecdsa", "dsa"):
                for oh in ("sha1", "sha256", "sha384", "sha512", "md5"):
                    if oh != h and not (kind == "dsa" and oh == "md5"):
                        expect("other-hash=" + oh,
                               verify(pub, sig, msg, hh=oh,
                                      salt=(hashlib.new(oh).digest_size
                                            if kind == "pss" else None)),
                               False)
            if kind == "pkcs1":
                expect("as-pss", verify(pub, sig, msg, salt=hl,
                                        scheme="pss"), False)
            if kind == "pss":
                if cred == "rsa":
                    expect("as-pkcs1", verify(pub, sig, msg,
                                              scheme="pkcs1"), False)
                for os_ in salts:
                    if os_ != salt:
                        expect("other-salt-len", verify(pub, sig, msg,
                                                        salt=os_), False)
            if mi == 2 or (mi == 0 and tier == "thorough"):
                for (lab, s2) in flips(sig, tier):
                    expect(lab, verify(pub, s2, msg, salt=salt), False)
    # digests of particular shapes (leading zero byte(s), top bit set, all
    # but the last byte zero is not reachable): the truncation / conversion
    # of the hash to an integer must agree with the independent verifier
    if kind in ("dsa", "ecdsa", "pkcs1", "pss") and h:
        shapes = {}
        for i in range(200000):
            m = b"digest-shape-%d" % i
            dg = hashlib.new(h, m).digest()
            for nm, ok in (("lead-00", dg[0] == 0),
                           ("lead-0000", dg[:2] == b"\x00\x00"),
                           ("lead-ff", dg[0] == 0xff),
                           ("lead-01", dg[0] == 1),
                           ("last-00", dg[-1] == 0)):
                if ok and nm not in shapes:
                    shapes[nm] = m
            if len(shapes) == 5 or (i > 3000 and len(shapes) >= 4):
                break
        for nm, m in sorted(shapes.items()):
            salt = hl if kind == "pss" else None
            sig = bytes(sign(m, salt=salt))
            expect("shape-%s-own-key" % nm, verify(pub, sig, m, salt=salt),
                   True)
            expect("shape-%s-openssl" % nm,
                   ossl.verify(cred, kind, h, m, sig, saltlen=salt), True)
    ossl.close()
    return n, fails, sorted(outcomes, key=repr)


# ---------------------------------------------------------------- odd sizes
def oddkey_case(item):
    """RSA keys whose modulus length is not a multiple of 8 bits (made with
    the openssl command line at run time): signatures made by the library
    verify under the library and under OpenSSL and vice versa.  The key
    values are fresh on every run; the verdicts do not depend on them."""
    bits, seed = item
    from tlslite.utils.keyfactory import parsePEMKey
    n = 0
    fails = []
    outcomes = set()
    d = tempfile.mkdtemp(prefix="c10-odd-")
    try:
        kf, pf = os.path.join(d, "k.pem"), os.path.join(d, "k.pub")
        subprocess.run(["openssl", "genrsa", "-out", kf, str(bits)],
                       stdout=subprocess.PIPE, stderr=subprocess.PIPE)
        subprocess.run(["openssl", "rsa", "-in", kf, "-pubout", "-out", pf],
                       stdout=subprocess.PIPE, stderr=subprocess.PIPE)
        key = parsePEMKey(open(kf).read(), private=True,
                          implementations=["python"])
        msg = b"odd modulus message"
        mf, sf = os.path.join(d, "m"), os.path.join(d, "s")
        with open(mf, "wb") as f:
            f.write(msg)

        def expect(label, got, want=True):
            nonlocal n
            n += 1
            outcomes.add((label.split("@")[0], got))
            if got != want:
                fails.append({"kind": "odd-modulus", "bits": bits,
                              "case": label, "got": got, "want": want})
        for scheme, h, salt in (("PSS", "sha256", 32), ("PSS", "sha256", 0),
                                ("PSS", "sha1", 20), ("PKCS1", "sha256",
                                                      None)):
            opts = [] if scheme == "PKCS1" else [
                "-sigopt", "rsa_padding_mode:pss", "-sigopt",
                "rsa_pss_saltlen:%d" % salt]
            lab = "%s-%s-salt%s@%d" % (scheme, h, salt, bits)
            try:
                sig = bytes(key.hashAndSign(bytearray(msg), scheme, h, salt)
                            if scheme == "PSS" else
                            key.hashAndSign(bytearray(msg), scheme, h))
            except BaseException as e:  # noqa
                expect("sign-" + lab, "raised %s" % type(e).__name__)
                sig = None
            if sig is not None:
                try:
                    ok = bool(key.hashAndVerify(
                        bytearray(sig), bytearray(msg), scheme, h, salt)
                        if scheme == "PSS" else key.hashAndVerify(
                            bytearray(sig), bytearray(msg), scheme, h))
                except BaseException as e:  # noqa
                    ok = "raised %s" % type(e).__name__
                expect("own-verify-" + lab, ok)
                with open(sf, "wb") as f:
                    f.write(sig)
                pr = subprocess.run(["openssl", "dgst", "-" + h, "-verify",
                                     pf, "-signature", sf] + opts + [mf],
                                    stdout=subprocess.PIPE,
                                    stderr=subprocess.PIPE)
                expect("openssl-verify-" + lab, b"Verified OK" in pr.stdout)
            pr = subprocess.run(["openssl", "dgst", "-" + h, "-sign", kf,
                                 "-out", sf] + opts + [mf],
                                stdout=subprocess.PIPE, stderr=subprocess.PIPE)
            if pr.returncode == 0:
                osig = open(sf, "rb").read()
                try:
                    ok = bool(key.hashAndVerify(
                        bytearray(osig), bytearray(msg), scheme, h, salt)
                        if scheme == "PSS" else key.hashAndVerify(
                            bytearray(osig), bytearray(msg), scheme, h))
                except BaseException as e:  # noqa
                    ok = "raised %s" % type(e).__name__
                expect("verify-openssl-made-" + lab, ok)
    finally:
        shutil.rmtree(d, ignore_errors=True)
    return n, fails, sorted(outcomes, key=repr)


# ---------------------------------------------------------------- forgeries
DI = {"sha1": bytes.fromhex("3021300906052b0e03021a05000414"),
      "sha256": bytes.fromhex("3031300d060960864801650304020105000420"),
      "sha384": bytes.fromhex("3041300d060960864801650304020205000430")}
DI_NONULL = {"sha1": bytes.fromhex("301f300706052b0e03021a0414"),
             "sha256": bytes.fromhex("302f300b06096086480165030402010420")}


def mgf1(seed, n, h):
    out = b""
    c = 0
    while len(out) < n:
        out += hashlib.new(h, seed + struct.pack(">I", c)).digest()
        c += 1
    return out[:n]


def pss_encode(mhash, embits, salt, h, trailer=0xbc, sep=1, top=0, ps=None):
    hl = len(mhash)
    emlen = (embits + 7) // 8
    hh = hashlib.new(h, bytes(8) + mhash + salt).digest()
    if ps is None:
        ps = bytes(emlen - len(salt) - hl - 2)
    assert len(ps) == emlen - len(salt) - hl - 2
    db = ps + bytes([sep]) + salt
    mask = mgf1(hh, len(db), h)
    mdb = bytearray(x ^ y for x, y in zip(db, mask))
    mdb[0] &= 0xff >> (8 * emlen - embits)
    mdb[0] |= top
    return bytes(mdb) + hh + bytes([trailer])


def forgery_case(item):
    kind, tier, seed = item
    n = 0
    fails = []
    outcomes = set()

    def expect(label, got, want):
        nonlocal n
        n += 1
        outcomes.add((kind, label.split("=")[0], got))
        if want is not None and got != want and len(fails) < 30:
            fails.append({"kind": kind, "case": label, "got": got,
                          "want": want})
    msg = b"forgery target message"
    if kind == "pkcs1":
        for cred in ("rsa", "c_rsa"):
            chain, key = load_cred(cred)
            pub = pubkey_of(cred)
            k = numBytes(key.n)

            def try_em(label, em, h, want=False):
                if len(em) != k:
                    return
                sig = key._raw_private_key_op_bytes(bytearray(em))
                try:
                    got = bool(pub.hashAndVerify(sig, bytearray(msg),
                                                 "PKCS1", h))
                except BaseException as e:  # noqa
                    got = "raised %s" % type(e).__name__
                expect(cred + ":" + label + "=" + h, got, want)
            for h in ("sha1", "sha256", "sha384"):
                hv = hashlib.new(h, msg).digest()
                t = DI[h] + hv
                good = b"\x00\x01" + b"\xff" * (k - 3 - len(t)) + b"\x00" + t
                try_em("canonical", good, h, True)
                # short padding + garbage after the hash
                for npad in (8, 1, 0, k - 3 - len(t) - 1):
                    g = k - 3 - npad - len(t)
                    if g <= 0:
                        continue
                    try_em("short-padding-%d+garbage" % npad,
                           b"\x00\x01" + b"\xff" * npad + b"\x00" + t +
                           b"\x5a" * g, h)
                # garbage hidden inside the padding
                for pos in (2, k // 2, k - len(t) - 2):
                    e = bytearray(good)
                    if e[pos] == 0xff:
                        e[pos] = 0xfe
                        try_em("ff-run-interrupted@%d" % pos, bytes(e), h)
                try_em("block-type-02", b"\x00\x02" + good[2:], h)
                try_em("block-type-00", b"\x00\x00" + good[2:], h)
                try_em("leading-byte-01", b"\x01" + good[1:], h)
                e = bytearray(good)
                e[k - len(t) - 1] = 0x01
                try_em("separator-01", bytes(e), h)
                # DigestInfo variations
                if h in DI_NONULL:
                    t2 = DI_NONULL[h] + hv
                    try_em("digestinfo-no-null", b"\x00\x01" + b"\xff" * (
                        k - 3 - len(t2)) + b"\x00" + t2, h,
                        None)       # tolerated on purpose by the library
                # long-form length in the outer SEQUENCE
                t3 = bytes([0x30, 0x81, t[1]]) + t[2:]
                try_em("digestinfo-long-form-length", b"\x00\x01" + b"\xff"
                       * (k - 3 - len(t3)) + b"\x00" + t3, h)
                # trailing byte inside DigestInfo
                t4 = bytes([0x30, t[1] + 1]) + t[2:] + b"\x00"
                try_em("digestinfo-trailing-byte", b"\x00\x01" + b"\xff" * (
                    k - 3 - len(t4)) + b"\x00" + t4, h)
                # hash of another algorithm under this OID
                oh = "sha1" if h != "sha1" else "sha256"
                t5 = DI[h][:-1] + bytes([len(hashlib.new(oh, msg).digest())
                                         ]) + hashlib.new(oh, msg).digest()
                em5 = b"\x00\x01" + b"\xff" * (k - 3 - len(t5)) + b"\x00" + \
                    t5
                try_em("wrong-hash-length-under-oid", em5, h)
    elif kind == "pss":
        for cred in ("rsapss", "rsa"):
            chain, key = load_cred(cred)
            pub = pubkey_of(cred)
            k = numBytes(key.n)
            embits = int(key.n).bit_length() - 1
            for h in ("sha256", "sha384"):
                hl = hashlib.new(h).digest_size
                mh = hashlib.new(h, msg).digest()
                salt = bytes((i * 3 + 1) & 0xff for i in range(hl))

                def try_em(label, em, want=False, sl=hl):
                    em = bytes(k - len(em)) + em
                    sig = key._raw_private_key_op_bytes(bytearray(em))
                    try:
                        got = bool(pub.hashAndVerify(sig, bytearray(msg),
                                                     "PSS", h, sl))
                    except BaseException as e:  # noqa
                        got = "raised %s" % type(e).__name__
                    expect(cred + ":" + label + "=" + h, got, want)
                try_em("canonical", pss_encode(mh, embits, salt, h), True)
                try_em("trailer-bd", pss_encode(mh, embits, salt, h,
                                                trailer=0xbd))
                try_em("trailer-cc", pss_encode(mh, embits, salt, h,
                                                trailer=0xcc))
                try_em("top-bit-set", pss_encode(mh, embits, salt, h,
                                                 top=0x80))
                try_em("separator-02", pss_encode(mh, embits, salt, h,
                                                  sep=2))
                try_em("separator-00", pss_encode(mh, embits, salt, h,
                                                  sep=0))
                try_em("salt-shorter", pss_encode(mh, embits, salt[:-1], h))
                try_em("salt-longer", pss_encode(mh, embits, salt + b"\x01",
                                                 h))
                try_em("salt-empty-claimed-hl", pss_encode(mh, embits, b"",
                                                           h))
                try_em("salt-empty-sl0", pss_encode(mh, embits, b"", h),
                       True, 0)
                try_em("other-message-hash", pss_encode(
                    hashlib.new(h, msg + b"!").digest(), embits, salt, h))
                # non-canonical padding string: PS must be all zero
                pl = (embits + 7) // 8 - hl - hl - 2
                for pos in sorted(set((0, 1, 2, pl // 2, pl - 2, pl - 1))):
                    for val in (0x01, 0x02, 0x40, 0x80, 0xff):
                        if pos == 0 and val & ~(0xff >> (
                                8 * ((embits + 7) // 8) - embits)):
                            continue    # those bits are cleared by the mask
                        ps = bytearray(pl)
                        ps[pos] = val
                        try_em("ps[%d]=%02x" % (pos, val), pss_encode(
                            mh, embits, salt, h, ps=bytes(ps)))
                try_em("ps-all-ff", pss_encode(
                    mh, embits, salt, h, ps=b"\x7f" + b"\xff" * (pl - 1)))
                try_em("ps-all-02", pss_encode(
                    mh, embits, salt, h, ps=b"\x02" * pl))
                try_em("ps-nonzero-sep-00", pss_encode(
                    mh, embits, salt, h, sep=0, ps=b"\x00" * (pl - 1) +
                    b"\x01"))
    elif kind == "ecdsa":
        from ecdsa.util import sigdecode_der
        for cred, h in ECDSA_KEYS[:4]:
            chain, key = load_cred(cred)
            pub = pubkey_of(cred)
            order = int(pub.public_key.curve.order)
            hv = hashlib.new(h, msg).digest()
            sig = bytes(key.sign(bytearray(hv), hashAlg=h))
            r, s = sigdecode_der(sig, order)

            def der_int(v, extra_zero=0, raw=None):
                b = raw if raw is not None else v.to_bytes(
                    max(1, (v.bit_length() + 8) // 8), "big")
                if raw is None:
                    b = b.lstrip(b"\x00") or b"\x00"
                    if b[0] & 0x80:
                        b = b"\x00" + b
                b = b"\x00" * extra_zero + b
                return b"\x02" + bytes([len(b)]) + b

            def seq(body, long_form=False):
                if long_form or len(body) > 127:
                    return b"\x30\x81" + bytes([len(body)]) + body
                return b"\x30" + bytes([len(body)]) + body

            def tryv(label, sg, want=False):
                try:
                    got = bool(pub.verify(bytearray(sg), bytearray(hv),
                                          hashAlg=h))
                except BaseException as e:  # noqa
                    got = "raised %s" % type(e).__name__
                expect(cred + ":" + label, got, want)
            tryv("canonical", seq(der_int(r) + der_int(s)), True)
            tryv("r-extra-leading-zero", seq(der_int(r, 1) + der_int(s)))
            tryv("s-extra-leading-zero", seq(der_int(r) + der_int(s, 2)))
            if len(der_int(r) + der_int(s)) <= 127:
                tryv("sequence-long-form-length",
                     seq(der_int(r) + der_int(s), True))
            tryv("trailing-byte-after-sequence",
                 seq(der_int(r) + der_int(s)) + b"\x00")
            tryv("trailing-byte-in-sequence",
                 seq(der_int(r) + der_int(s) + b"\x00"))
            rb = r.to_bytes((r.bit_length() + 7) // 8, "big")
            if rb[0] & 0x80:
                tryv("r-negative-encoding", seq(der_int(0, raw=rb) +
                                                der_int(s)))
            tryv("r=0", seq(der_int(0) + der_int(s)))
            tryv("s=0", seq(der_int(r) + der_int(0)))
            tryv("r=n", seq(der_int(order) + der_int(s)))
            tryv("s=n", seq(der_int(r) + der_int(order)))
            tryv("r=r+n", seq(der_int(r + order) + der_int(s)))
            tryv("s=s+n", seq(der_int(r) + der_int(s + order)))
            tryv("s=n-s (malleable twin)", seq(der_int(r) +
                                               der_int(order - s)), None)
            tryv("swapped-r-s", seq(der_int(s) + der_int(r)))
            tryv("only-r", seq(der_int(r)))
            tryv("empty-sequence", seq(b""))
            tryv("raw-concatenation", r.to_bytes(66, "big")[-32:] +
                 s.to_bytes(66, "big")[-32:])
    elif kind == "eddsa":
        for cred, L, blen in (("ed25519", 2 ** 252 +
                               27742317777372353535851937790883648493, 32),
                              ("ed448", 2 ** 446 - int(
                                  "13818066809895115352007386748515426880336"
                                  "692474882178609894547503885"), 57)):
            chain, key = load_cred(cred)
            pub = pubkey_of(cred)
            sig = bytes(key.hashAndSign(bytearray(msg)))

            def tryv(label, sg, want=False):
                try:
                    got = bool(pub.hashAndVerify(bytearray(sg),
                                                 bytearray(msg)))
                except BaseException as e:  # noqa
                    got = "raised %s" % type(e).__name__
                expect(cred + ":" + label, got, want)
            tryv("canonical", sig, True)
            R, Sb = sig[:blen], sig[blen:]
            sv = int.from_bytes(Sb, "little")
            if sv + L < 1 << (8 * blen):
                tryv("S+L (non-canonical scalar)",
                     R + (sv + L).to_bytes(blen, "little"))
            tryv("S=0", R + bytes(blen))
            tryv("S=L", R + L.to_bytes(blen, "little"))
            tryv("R=identity", (1).to_bytes(blen, "little") + Sb)
            tryv("R=zero", bytes(blen) + Sb)
            tryv("truncated", sig[:-1])
            tryv("extended", sig + b"\x00")
            tryv("R-S-swapped", Sb + R)
            tryv("all-zero", bytes(2 * blen))
    elif kind == "dsa":
        from ecdsa.der import encode_sequence, encode_integer
        chain, key = load_cred("dsa")
        pub = pubkey_of("dsa")
        hv = hashlib.sha1(msg).digest()
        sig = bytes(key.sign(bytearray(hv)))
        from ecdsa.der import remove_sequence, remove_integer
        body, _ = remove_sequence(sig)
        r, rest = remove_integer(body)
        s, _ = remove_integer(rest)
        q = int(key.q)

        def tryv(label, sg, want=False):
            try:
                got = bool(pub.verify(bytearray(sg), bytearray(hv)))
            except BaseException as e:  # noqa
                got = "raised %s" % type(e).__name__
            expect("dsa:" + label, got, want)
        tryv("canonical", encode_sequence(encode_integer(r),
                                          encode_integer(s)), True)
        tryv("r=0", encode_sequence(encode_integer(0), encode_integer(s)))
        tryv("s=0", encode_sequence(encode_integer(r), encode_integer(0)))
        tryv("r=q", encode_sequence(encode_integer(q), encode_integer(s)))
        tryv("s=q", encode_sequence(encode_integer(r), encode_integer(q)))
        tryv("r=r+q", encode_sequence(encode_integer(r + q),
                                      encode_integer(s)))
        for rv in (0, 1, 2, q - 1, q, q + 1):
            for sv in (0, 1, q - 1, q, q + 1):
                tryv("r=%s,s=%s" % (
                    rv if rv < 3 else "q%+d" % (rv - q),
                    sv if sv < 3 else "q%+d" % (sv - q)),
                    encode_sequence(encode_integer(rv), encode_integer(sv)))
        tryv("trailing", encode_sequence(encode_integer(r),
                                         encode_integer(s)) + b"\x00")
        tryv("trailing-in-seq", encode_sequence(encode_integer(r),
                                                encode_integer(s), b"\x00"))
        tryv("only-r", encode_sequence(encode_integer(r)))
        tryv("empty", b"")
    return n, fails, sorted(outcomes, key=repr)


# ---------------------------------------------------------------- agreement
X25519_SMALL = [bytes(32), b"\x01" + bytes(31),
                bytes.fromhex("e0eb7a7c3b41b8ae1656e3faf19fc46ada098deb9c32b"
                              "1fd866205165f49b800"),
                bytes.fromhex("5f9c95bca3508c24b1d0b1559c83ef5b04445cc4581c8"
                              "e86d8224eddd09f1157"),
                bytes.fromhex("ecffffffffffffffffffffffffffffffffffffffffffff"
                              "ffffffffffffffff7f"),
                bytes.fromhex("edffffffffffffffffffffffffffffffffffffffffffff"
                              "ffffffffffffffff7f"),
                bytes.fromhex("eeffffffffffffffffffffffffffffffffffffffffffff"
                              "ffffffffffffffff7f")]
X448_SMALL = [bytes(56), b"\x01" + bytes(55),
              bytes.fromhex("fe" + "ff" * 27 + "fe" + "ff" * 27),
              bytes.fromhex("ff" * 28 + "fe" + "ff" * 27),
              bytes.fromhex("00" * 28 + "ff" * 28)[:56]]


def agree_case(item):
    group, tier, seed = item
    SEAMS.reset(seed, "c10-agree-%s" % group)
    gid = getattr(GroupName, group)
    n = 0
    fails = []
    outcomes = set()

    def expect(label, got, want):
        nonlocal n
        n += 1
        outcomes.add((label.split("=")[0], got if isinstance(got, (bool, str))
                      else "value"))
        if got != want and len(fails) < 20:
            fails.append({"group": group, "case": label, "got": repr(got)[
                :60], "want": repr(want)[:60]})
    for version in ((3, 3), (3, 4)):
        if group.startswith("ffdhe"):
            kex = FFDHKeyExchange(gid, version)
            p = kex.prime
        else:
            kex = ECDHKeyExchange(gid, version)
        a = kex.get_random_private_key()
        b = kex.get_random_private_key()
        A = kex.calc_public_value(a)
        B = kex.calc_public_value(b)
        try:
            s1 = kex.calc_shared_key(a, B)
            s2 = kex.calc_shared_key(b, A)
            expect("both-parties-equal/%d.%d" % version, bytes(s1) ==
                   bytes(s2), True)
            expect("secret-not-trivial/%d.%d" % version,
                   any(bytes(s1)), True)
        except BaseException as e:  # noqa
            expect("honest/%d.%d" % version, "raised %s" % type(e).__name__,
                   "ok")

        def refused(label, share, accept_ok=False):
            try:
                r = kex.calc_shared_key(a, share)
                got = "accepted"
            except (E.TLSIllegalParameterException, E.TLSDecodeError):
                got = "refused"
            except BaseException as e:  # noqa
                got = "raised %s" % type(e).__name__
            expect(label + "/%d.%d" % version, got,
                   "accepted" if accept_ok else "refused")
        if group.startswith("ffdhe"):
            nb = numBytes(p)

            def enc(v):
                return v if version < (3, 4) else numberToByteArray(v, nb)
            for lab, v, ok in (("peer=0", 0, False), ("peer=1", 1, False),
                               ("peer=2", 2, True),
                               ("peer=p-2", p - 2, True),
                               ("peer=p-1", p - 1, False),
                               ("peer=p", p, False),
                               ("peer=p+1", p + 1, False)):
                if v >= 1 << (8 * nb) and version == (3, 4):
                    continue
                refused(lab, enc(v), ok)
            # encoding of the shared secret: RFC 5246 8.1.2 strips leading
            # zero bytes, RFC 8446 7.4.1 pads to the length of the prime
            for z in (5, 1 << 8 * (nb - 2), (1 << 8 * (nb - 1)) - 1,
                      1 << 8 * (nb - 1), p - 2):
                try:
                    got = bytes(kex.calc_shared_key(1, enc(z)))
                except BaseException as e:  # noqa
                    got = "raised %s" % type(e).__name__
                want = z.to_bytes((z.bit_length() + 7) // 8, "big") \
                    if version < (3, 4) else z.to_bytes(nb, "big")
                expect("secret-encoding-z~2^%d/%d.%d" % (
                    z.bit_length() - 1, version[0], version[1]),
                    got == want, True)
            if version == (3, 4):
                refused("peer-short", numberToByteArray(2, nb - 1))
                refused("peer-long", numberToByteArray(2, nb + 1))
        elif group in ("x25519", "x448"):
            small = X25519_SMALL if group == "x25519" else X448_SMALL
            for i, pt in enumerate(small):
                refused("small-order-%d" % i, bytearray(pt))
            size = 32 if group == "x25519" else 56
            refused("short", bytearray(size - 1))
            refused("long", bytearray(b"\x09" * (size + 1)))
            refused("empty", bytearray(0))
        else:
            from ecdsa.curves import curve_by_name  # noqa
            blen = len(bytes(B))
            co = (blen - 1) // 2
            Bb = bytes(B)
            refused("infinity", bytearray(b"\x00"))
            refused("empty", bytearray(0))
            refused("short", bytearray(Bb[:-1]))
            refused("long", bytearray(Bb + b"\x00"))
            off = bytearray(Bb)
            off[-1] ^= 1
            refused("off-curve", off)
            refused("x-all-ff", bytearray(b"\x04" + b"\xff" * (2 * co)))
            refused("zero-zero", bytearray(b"\x04" + bytes(2 * co)))
            refused("compressed-not-negotiated",
                    bytearray(bytes([2 + (Bb[-1] & 1)]) + Bb[1:1 + co]))
            refused("hybrid", bytearray(bytes([6 + (Bb[-1] & 1)]) + Bb[1:]))
            refused("wrong-prefix", bytearray(b"\x05" + Bb[1:]))
    # RFC 7748 vectors
    if group == "x25519":
        from tlslite.utils.x25519 import x25519
        k = bytes.fromhex("a546e36bf0527c9d3b16154b82465edd62144c0ac1fc5a185"
                          "06a2244ba449ac4")
        u = bytes.fromhex("e6db6867583030db3594c1a424b15f7c726624ec26b3353b1"
                          "0a903a6d0ab1c4c")
        expect("rfc7748-vector", bytes(x25519(bytearray(k), bytearray(u))),
               bytes.fromhex("c3da55379de9c6908e94ea4df28d084f32eccf03491c7"
                             "1f754b4075577a28552"))
    if group == "x448":
        from tlslite.utils.x25519 import x448
        k = bytes.fromhex("3d262fddf9ec8e88495266fea19a34d28882acef045104d0d"
                          "1aae121700a779c984c24f8cdd78fbff44943eba368f54b29"
                          "259a4f1c600ad3")
        u = bytes.fromhex("06fce640fa3487bfda5f6cf2d5263f8aad88334cbd07437f0"
                          "20f08f9814dc031ddbdc38c19c6da2583fa5429db94ada18a"
                          "a7a7fb4ef8a086")
        expect("rfc7748-vector", bytes(x448(bytearray(k), bytearray(u))),
               bytes.fromhex("ce3e4ff95a60dc6697da1db1d85e6afbdf79b50a2412d"
                             "7546d5f239fe14fbaadeb445fc66a01b0779d98223961"
                             "111e21766282f73dd96b6f"))
    return n, fails, sorted(outcomes, key=repr)


# ---------------------------------------------------------------- faults
def fault_scenarios(tier):
    L = []

    def add(name, signer, **kw):
        L.append((name, signer, S.Scen("c10/" + name, **kw)))
    for v in ((3, 1), (3, 3)):
        vn = S.VNAME[v]
        gcm = v == (3, 3)
        add(vn + "-ecdhe-rsa", "S", version=v, cred="rsa",
            suite=CS.TLS_ECDHE_RSA_WITH_AES_128_GCM_SHA256 if gcm else
            CS.TLS_ECDHE_RSA_WITH_AES_128_CBC_SHA)
        add(vn + "-dhe-rsa", "S", version=v, cred="rsa",
            suite=CS.TLS_DHE_RSA_WITH_AES_128_CBC_SHA)
        add(vn + "-ecdhe-ecdsa", "S", version=v, cred="ecdsa",
            suite=CS.TLS_ECDHE_ECDSA_WITH_AES_128_CBC_SHA)
        add(vn + "-rsa-kex", "S", version=v, cred="rsa",
            suite=CS.TLS_RSA_WITH_AES_128_CBC_SHA)
        add(vn + "-client-rsa", "C", version=v, cred="rsa",
            client_cred="c_rsa", req_cert=True,
            suite=CS.TLS_RSA_WITH_AES_128_CBC_SHA)
        add(vn + "-client-ecdsa", "C", version=v, cred="rsa",
            client_cred="c_ecdsa", req_cert=True,
            suite=CS.TLS_RSA_WITH_AES_128_CBC_SHA)
        add(vn + "-dhe-dsa", "S", version=v, cred="dsa",
            suite=CS.TLS_DHE_DSS_WITH_AES_128_CBC_SHA)
    add("TLS1.2-ed25519", "S", version=(3, 3), cred="ed25519",
        suite=CS.TLS_ECDHE_ECDSA_WITH_AES_128_GCM_SHA256)
    add("TLS1.2-rsapss", "S", version=(3, 3), cred="rsapss",
        suite=CS.TLS_ECDHE_RSA_WITH_AES_128_GCM_SHA256)
    add("TLS1.2-srp-rsa", "S", version=(3, 3), flavour="srpcert", cred="rsa",
        suite=CS.TLS_SRP_SHA_RSA_WITH_AES_128_CBC_SHA)
    for cred in ("rsa", "rsapss", "ecdsa", "ecdsa384", "ed25519", "ed448"):
        add("TLS1.3-server-" + cred, "S", version=(3, 4), cred=cred,
            suite=CS.TLS_AES_128_GCM_SHA256)
    for ccred in ("c_rsa", "c_ecdsa", "c_ed25519"):
        add("TLS1.3-client-" + ccred, "C", version=(3, 4), cred="rsa",
            client_cred=ccred, req_cert=True,
            suite=CS.TLS_AES_128_GCM_SHA256)
    return L


class FaultyKey(object):
    """Proxy for a private key: the k-th private operation returns a wrong
    value; verification stays real."""

    def __init__(self, key, fault_at):
        self.__dict__["_k"] = key
        self.__dict__["_at"] = fault_at
        self.__dict__["_n"] = 0
        self.__dict__["_hit"] = False

    def _tick(self):
        i = self.__dict__["_n"]
        self.__dict__["_n"] = i + 1
        hit = (i == self.__dict__["_at"])
        if hit:
            self.__dict__["_hit"] = True
        return hit

    def __getattr__(self, name):
        v = getattr(self.__dict__["_k"], name)
        if name in ("sign", "hashAndSign", "_hashAndSign", "decrypt") and \
                callable(v):
            def wrapped(*a, **kw):
                r = v(*a, **kw)
                if self._tick() and r is not None:
                    b = bytearray(r)
                    if len(b):
                        b[len(b) // 2] ^= 0x04
                    return b
                return r
            return wrapped
        return v

    def __setattr__(self, name, value):
        setattr(self.__dict__["_k"], name, value)

    def __len__(self):
        return len(self.__dict__["_k"])


def fault_case(item):
    fi, tier, seed = item
    name, signer, sc = fault_scenarios(tier)[fi]
    res = {"scenario": name, "n": 0, "fails": [], "sigs": set(), "ops": 0}

    def run(fault_at, warm=0, shared=None):
        """warm: number of complete fault-free handshakes made before with
        the *same* key object (the fault index keeps counting across them)"""
        if shared is None:
            shared = {}
            for w in range(warm):
                run(fault_at, 0, shared)
        SEAMS.reset(seed, sc.name)
        pair = Pair(World())
        cap = {}

        def mk_cap(i):
            def f(d):
                cap[i] = d
                return None
            return f
        signer_conn = pair.s if signer == "S" else pair.c
        pup = Puppet(signer_conn, {})

        class AllCap(dict):
            def get(self, i, default=None):
                return ("mutate", mk_cap(i))
        pup.script = AllCap()
        st_c, st_s = sc.client_settings(), sc.server_settings()
        fk = None
        SEAMS.current = "C"
        if signer == "C":
            if "fk" not in shared:
                chain, key = load_cred(sc.client_cred, fresh=True)
                shared["chain"], shared["fk"] = chain, FaultyKey(key,
                                                                 fault_at)
            chain, fk = shared["chain"], shared["fk"]
            cg = pair.c.handshakeClientCert(chain, fk, settings=st_c,
                                            async_=True)
        else:
            cg = sc.client_gen(pair.c)
        SEAMS.current = "S"
        if signer == "S":
            if "fk" not in shared:
                chain, key = load_cred(sc.cred, fresh=True)
                shared["chain"], shared["fk"] = chain, FaultyKey(key,
                                                                 fault_at)
            chain, fk = shared["chain"], shared["fk"]
            kw = {}
            if sc.flavour == "srpcert":
                kw["verifierDB"] = W.srp_db()
            sg = pair.s.handshakeServerAsync(certChain=chain, privateKey=fk,
                                             settings=st_s, **kw)
        else:
            sg = sc.server_gen(pair.s)
        SEAMS.current = "main"
        out = pair.handshake(cg, sg, max_steps=60000)
        return pair, pup, out, cap, fk
    pair, pup, out, cap, fk = run(-1)
    if out["C"].status != "ok" or out["S"].status != "ok":
        res["fails"].append("honest run failed %r" % (out,))
        return res
    nops = fk.__dict__["_n"]
    res["ops"] = nops
    pubcred = sc.cred if signer == "S" else sc.client_cred
    pub = pubkey_of(pubcred)
    # cold: the fault hits a key object that has never signed; warm: the
    # same key object has completed one fault-free handshake before
    pw, _, outw, capw, fkw = run(-1, warm=1)
    plans = [(k, 0, cap) for k in range(nops)]
    if outw["C"].status == "ok" and outw["S"].status == "ok":
        plans += [(k, 1, capw) for k in range(nops, fkw.__dict__["_n"])]
    else:
        res["fails"].append("second handshake with the same key object "
                            "failed: %r" % (outw,))
    for (k, warm, cap) in plans:
        pair2, pup2, out2, cap2, fk2 = run(k, warm=warm)
        res["n"] += 1
        res["sigs"].add((out2[signer].sig()[:3]))
        # every signature-bearing message the signer put on the wire must
        # verify: compare with the honest run's message at the same index
        toks = dict(pup2.honest)
        for i, d in cap2.items():
            tok = toks.get(i)
            if tok not in ("SKE", "CV"):
                continue
            if i in cap and cap[i] != d:
                # the message differs from the honest one: since all other
                # inputs are identical (deterministic world) the signature
                # is the faulty one and it went out
                res["fails"].append(
                    "fault at private operation %d: %s with a corrupted "
                    "signature was placed on the wire (signer outcome %r)"
                    % (k, tok, out2[signer].sig()[:3]))
        if warm and not fk2.__dict__["_hit"]:
            res["fails"].append("harness: warm fault %d not reached" % k)
        if out2["C"].status == "ok" and out2["S"].status == "ok" and \
                fk2.__dict__["_hit"]:
            # tolerated only if the faulty result was not a signature that
            # reached the wire (e.g. RSA decryption of the premaster with
            # implicit rejection would have failed the handshake)
            res["fails"].append("handshake completed although private "
                                "operation %d was faulty" % k)
        o = out2[signer]
        if o.status == "exc" and not isinstance(
                o.exc, (E.BaseTLSException, OSError)):
            res["fails"].append("signer raised %s after fault %d" % (
                type(o.exc).__name__, k))
    res["sigs"] = sorted(res["sigs"], key=repr)
    return res


def run(res, tier, seed):
    res.coverage["rule"] = (
        "signatures: every fixture key x scheme (PKCS#1 v1.5 x 5 hashes, PSS "
        "x hashes x 3 salt lengths, ECDSA on 6 curves, Ed25519/Ed448, DSA) "
        "x 5 message patterns: own key, openssl CLI, every other key of the "
        "type, other message / hash / scheme / salt, empty, +-1 byte, every "
        "byte x 2 masks (quick) / every bit (thorough); structural forgeries "
        "made with the private operation; key agreement over 5 FFDHE groups, "
        "6 NIST/brainpool curves, X25519, X448 with degenerate peer values; "
        "a fault at each private-key operation of 27 handshake flavours")
    items = []
    for cred in RSA_KEYS:
        for h in ("sha1", "sha256", "sha384", "sha512", "md5"):
            if tier == "quick" and (cred != "rsa" and h not in ("sha256",)):
                continue
            items.append(("pkcs1", cred, h, tier, seed))
    for cred in PSS_KEYS + ["rsa"]:
        for h in ("sha256", "sha384", "sha512"):
            if tier == "quick" and cred == "rsa" and h != "sha256":
                continue
            items.append(("pss", cred, h, tier, seed))
    for cred, h in ECDSA_KEYS:
        items.append(("ecdsa", cred, h, tier, seed))
        if tier == "thorough":
            for h2 in ("sha1", "sha256", "sha512"):
                if h2 != h:
                    items.append(("ecdsa", cred, h2, tier, seed))
    for cred in EDDSA_KEYS:
        items.append(("eddsa", cred, None, tier, seed))
    for cred in DSA_KEYS:
        for h in ("sha1", "sha256"):
            items.append(("dsa", cred, h, tier, seed))
    ns = 0
    for (n, fails, outcomes) in pmap(sig_case, items, chunksize=1):
        ns += n
        res.count(n)
        for o in outcomes:
            res.outcome(("sig",) + tuple(o))
        for f in fails:
            res.violation({"part": "signature", "kind": f["kind"],
                           "case": f["case"].split("[")[0]}, f,
                          {"signature": f})
    res.sample({"kind": "pss", "key": "rsapss", "hash": "sha256",
                "checks": ["own-key", "openssl", "other-key",
                           "other-salt-len", "flip[17]^80", "long-by-1"]})
    res.section("signatures", key_scheme_pairs=len(items), evaluations=ns)
    nf = 0
    for (n, fails, outcomes) in pmap(forgery_case, [
            (k, tier, seed) for k in ("pkcs1", "pss", "ecdsa", "eddsa",
                                      "dsa")], chunksize=1):
        nf += n
        res.count(n)
        for o in outcomes:
            res.outcome(("forgery",) + tuple(o))
        for f in fails:
            res.violation({"part": "forgery", "kind": f["kind"],
                           "case": f["case"].split(":")[-1].split("=")[0]},
                          f, {"forgery": f})
    res.section("forgeries", evaluations=nf)
    obits = [1024, 1025, 1026, 1031, 1033, 2049] if tier == "quick" else \
        list(range(1024, 1041)) + [2047, 2049, 3073]
    no = 0
    for (n, fails, outcomes) in pmap(oddkey_case, [(b, seed) for b in obits],
                                     chunksize=1):
        no += n
        res.count(n)
        for o in outcomes:
            res.outcome(("odd",) + tuple(o))
        for f in fails:
            res.violation({"part": "odd-modulus", "bits_mod_8": f["bits"] % 8,
                           "case": f["case"].split("@")[0]}, f,
                          {"odd_modulus": f})
    res.section("odd_modulus_keys", modulus_bits=obits, evaluations=no)
    nf += no
    groups = ["ffdhe2048", "ffdhe3072", "ffdhe4096", "ffdhe6144",
              "ffdhe8192", "secp256r1", "secp384r1", "secp521r1",
              "brainpoolP256r1", "brainpoolP384r1", "brainpoolP512r1",
              "x25519", "x448"]
    if tier == "quick":
        groups.remove("ffdhe6144")
        groups.remove("ffdhe8192")
    na = 0
    for (n, fails, outcomes) in pmap(agree_case, [(g, tier, seed)
                                                  for g in groups],
                                     chunksize=1):
        na += n
        res.count(n)
        for o in outcomes:
            res.outcome(("agree",) + tuple(o))
        for f in fails:
            res.violation({"part": "agreement", "group": f["group"],
                           "case": f["case"].split("/")[0]}, f,
                          {"agreement": f})
    res.section("key_agreement", groups=groups, evaluations=na)
    fs = fault_scenarios(tier)
    nfa = 0
    ops = 0
    for r in pmap(fault_case, [(i, tier, seed) for i in range(len(fs))],
                  chunksize=1):
        nfa += r["n"]
        ops += r["ops"]
        res.count(r["n"])
        for s in r["sigs"]:
            res.outcome(("fault", s))
        for f in r["fails"]:
            res.violation({"part": "fault", "scenario": r["scenario"],
                           "what": f[:50]}, {"fail": f},
                          {"fault": r["scenario"]})
    res.section("faults", scenarios=len(fs), private_operations=ops,
                executions=nfa)
    res.coverage["distinct_nontrivial"] = ns + nf + na + nfa
    res.assumptions += [
        "SHA-1/SHA-256 DigestInfo without NULL parameters and the "
        "malleable ECDSA twin (r, n-s) are accepted either way",
        "faults are injected at the key object's sign/decrypt entry points "
        "(the value returned to the protocol code is corrupted); "
        "verification stays real"]


def replay(case_, seed):
    return {"note": "re-run ./check C10", "case": case_}
