"""C15 - every message and extension codec round-trips and enforces its
framing exactly.

Deciding method: exhaustive enumeration over a corpus of well-formed
encodings (every handshake message of every handshake flavour and the
post-handshake messages, captured from live runs; every extension seen in
every context; synthesised boundary values for every class) and, for each
encoding, every truncation, every length-field perturbation, every stray or
trailing byte - each candidate is parsed through the library's own dispatch
and must either be reported as a decode error or re-serialise to exactly the
bytes that were parsed.
"""
import copy
import struct

from .. import world as W
from .. import scen as S
from .. import msgstruct
from ..core import pmap
from ..puppet import Puppet
from ..world import SEAMS, Pair, World
from tlslite import errors as E
from tlslite import messages as M
from tlslite import extensions as X
from tlslite.utils.codec import Parser, Writer
from tlslite.constants import CertificateType, ContentType, ExtensionType

LEVEL = "exploration"

OK_EXC = (SyntaxError, E.BaseTLSException)


def parse_handshake(data, version, suite, tls13_finlen=32):
    """Replicates TLSRecordLayer._getMsg's dispatch for one serialised
    handshake message.  Returns the message object."""
    p = Parser(bytearray(data))
    t = p.get(1)
    if t == 1:
        return M.ClientHello().parse(p)
    if t == 2:
        return M.ServerHello().parse(p)
    if t == 11:
        return M.Certificate(CertificateType.x509, version).parse(p)
    if t == 25:
        return M.CompressedCertificate(CertificateType.x509,
                                       version).parse(p)
    if t == 13:
        return M.CertificateRequest(version).parse(p)
    if t == 15:
        return M.CertificateVerify(version).parse(p)
    if t == 12:
        return M.ServerKeyExchange(suite, version).parse(p)
    if t == 14:
        return M.ServerHelloDone().parse(p)
    if t == 16:
        return M.ClientKeyExchange(suite, version).parse(p)
    if t == 20:
        hl = None
        if version >= (3, 4):
            hl = tls13_finlen
        return M.Finished(version, hl).parse(p)
    if t == 67:
        return M.NextProtocol().parse(p)
    if t == 8:
        return M.EncryptedExtensions().parse(p)
    if t == 4:
        if version < (3, 4):
            return M.NewSessionTicket1_0().parse(p)
        return M.NewSessionTicket().parse(p)
    if t == 24:
        return M.KeyUpdate().parse(p)
    if t == 0:
        return M.HelloRequest().parse(p)
    raise SyntaxError("unknown handshake type")


def judge_parse(fn, data):
    """('rejected', exc name) | ('roundtrip',) | ('FAIL', text)"""
    try:
        m = fn(data)
    except OK_EXC as e:
        return ("rejected", type(e).__name__)
    except BaseException as e:  # noqa
        return ("FAIL", "raised %s: %s" % (type(e).__name__, str(e)[:60]))
    try:
        out = bytes(m.write())
    except OK_EXC as e:
        return ("FAIL", "parsed but write() raised %s" % type(e).__name__)
    except BaseException as e:  # noqa
        return ("FAIL", "parsed but write() raised %s: %s" % (
            type(e).__name__, str(e)[:60]))
    if out != bytes(data):
        return ("FAIL", "accepted but re-serialises differently (%d -> %d "
                "bytes, first difference at %d)" % (
                    len(data), len(out),
                    next((i for i in range(min(len(out), len(data)))
                          if out[i] != data[i]), min(len(out), len(data)))))
    return ("roundtrip",)


def corpus_case(item):
    """Capture every handshake message of one flavour (both directions)."""
    idx, seed = item
    scs = S.flavours("thorough")
    sc = scs[idx]
    out = []
    for victim in ("C", "S"):
        SEAMS.reset(seed, sc.name)
        pair = Pair(World())
        pup_conn = pair.s if victim == "C" else pair.c
        cap = {}

        class AllCap(dict):
            def get(self, i, default=None):
                def f(d, i=i):
                    cap[i] = d
                    return None
                return ("mutate", f)
        pup = Puppet(pup_conn, {})
        pup.script = AllCap()
        SEAMS.current = "C"
        cg = sc.client_gen(pair.c)
        SEAMS.current = "S"
        sg = sc.server_gen(pair.s, cache=W.SessionCache() if sc.cache
                           else None)
        SEAMS.current = "main"
        o = pair.handshake(cg, sg)
        if o["C"].status != "ok" or o["S"].status != "ok":
            # an honest handshake that fails means a message did not survive
            # its own serialisation (or the harness is broken): never drop
            # it silently
            out.append((sc.name, "FAILED", sc.version, sc.suite, 0,
                        repr((o["C"].sig(), o["S"].sig())).encode()))
            continue
        finlen = 48 if (sc.version >= (3, 4) and sc.suite in (
            0x1302,)) else 32
        toks = dict(pup.honest)
        for i, d in cap.items():
            if toks.get(i) in ("CCS", "ALERT", "APP", None):
                continue
            out.append((sc.name, toks[i], sc.version, sc.suite, finlen,
                        bytes(d)))
    return out


def msg_case(item):
    name, tok, version, suite, finlen, data, tier = item
    n = 0
    fails = []
    sigs = set()

    def fn(d):
        return parse_handshake(d, version, suite, finlen)

    def check(label, d, must_roundtrip=False):
        nonlocal n
        n += 1
        r = judge_parse(fn, d)
        if r[0] == "FAIL" and tok == "CCERT" and \
                "re-serialises differently" in r[1]:
            # a compressed certificate has many encodings (any deflate
            # stream of the same content): the serialiser need not reproduce
            # the peer's, but must be stable on its own output
            try:
                import zlib
                dd = bytes(d)
                alg = int.from_bytes(dd[4:6], "big")
                ulen = int.from_bytes(dd[6:9], "big")
                clen = int.from_bytes(dd[9:12], "big")
                payload = dd[12:12 + clen]
                dco = zlib.decompressobj()
                plain = dco.decompress(payload)
                # (only a complete stream of exactly the declared content
                # with nothing after it is "another encoding")
                if alg == 1 and 12 + clen == len(dd) and dco.eof and \
                        not dco.unused_data and len(plain) == ulen:
                    w1 = bytes(fn(d).write())
                    if bytes(fn(w1).write()) == w1:
                        r = ("roundtrip-recompressed",)
            except BaseException:  # noqa
                pass
        sigs.add((tok, label.split("@")[0].split("=")[0].split("[")[0],
                  r[0]))
        if r[0] == "FAIL":
            if len(fails) < 12:
                fails.append({"msg": tok, "scenario": name,
                              "mutation": label, "why": r[1]})
        elif must_roundtrip and r[0] not in ("roundtrip",
                                             "roundtrip-recompressed"):
            fails.append({"msg": tok, "scenario": name, "mutation": label,
                          "why": "well-formed encoding rejected: %r" % (r,)})
    check("identity", data, True)
    fields = msgstruct.describe(data, version, _kex(suite))
    # every truncation (header corrected) - not only field boundaries
    step = 1 if len(data) <= 300 or tier == "thorough" else 3
    for cut in range(4, len(data), step):
        d = bytearray(data[:cut])
        d[1:4] = (cut - 4).to_bytes(3, "big")
        check("truncate@%d" % cut, bytes(d))
    for (label, nb) in msgstruct.mutations(data, fields, tier):
        if label.startswith("truncate@") and label.endswith("/fixed"):
            continue
        if "/unfixed" in label:
            continue       # header disagrees with the data: framing of the
            #                handshake layer, not of the message codec
        if label.startswith("msg_type="):
            continue       # selects another codec: dispatch, not framing
        if tok in ("SKE", "CKE") and ".bytes[0]^" in label and \
                label.split(".")[0] in ("dh_p", "dh_g", "dh_Ys", "N", "g",
                                        "B", "value"):
            # big integers: a leading zero byte is another encoding of the
            # same value and is legitimately normalised on output
            continue
        check(label, nb)
    return n, fails, sorted(sigs, key=repr)


def _kex(suite):
    info = S.ALL_INFOS.get(suite)
    if info is None or info.tls13:
        return None
    return {"RSA": "rsa", "DHE": "dh", "DH": "dh", "ECDHE": "ecdh",
            "ECDH": "ecdh", "SRP": "srp"}[info.kex]


# ---------------------------------------------------------------- extensions
def split_exts(data):
    """[(type, body)] of the extension block of a hello / EE / CR / NST /
    certificate-entry message (via the harness descriptors)."""
    out = []
    fs = msgstruct.describe(data, (3, 4) if data[0] in (8, 13, 4) else
                            (3, 3))
    for f in fs:
        if f.kind == "len" and f.name.endswith(")") and ".ext" in f.name \
                and f.name.count(".") == 1:
            t = int(f.name[f.name.index("(") + 1:-1])
            out.append((t, bytes(data[f.off + f.width:f.end])))
    return out


CTX_KW = {"client": {}, "server": {"server": True}, "hrr": {"hrr": True},
          "cert": {"cert": True}, "enc": {"encExt": True}}


def ext_case(item):
    ctx, etype, bodies, tier = item
    n = 0
    fails = []
    sigs = set()

    def fn(d):
        return X.TLSExtension(**CTX_KW[ctx]).parse(Parser(bytearray(d)))

    def enc(body):
        return struct.pack(">HH", etype, len(body)) + body
    cands = {}
    generic = [b"", b"\x00", b"\x01", b"\xff", b"\x00\x00", b"\x00\x01",
               b"\x00\x01\x00", b"\x01\x00", b"\x02\x00\x17",
               b"\x00\x02\x00\x17", b"\x00\x03\x00\x17\x00",
               b"\x00\x02\x03\x04", b"\x02\x03\x04", b"\x03\x04",
               b"\x00\x17\x00\x01\x04", b"\x00\x17", b"\x40\x00",
               b"\x00\x04\x00\x17\x00\x00", b"\x00\x03\x02h2",
               b"\x00\x05\x00\x00\x02ab", b"\x00" * 7, b"\xff" * 5]
    for b in generic:
        cands[("generic", b)] = b
    for body in bodies:
        cands[("real", body)] = body
        for cut in range(len(body)):
            cands[("real-truncated@%d" % cut, body[:cut])] = body[:cut]
        cands[("real+trailing", body + b"\x00")] = body + b"\x00"
        for pos in range(min(len(body), 8 if tier == "quick" else 24)):
            for delta in (1, -1):
                b2 = bytearray(body)
                b2[pos] = (b2[pos] + delta) & 0xff
                cands[("real[%d]%+d" % (pos, delta), bytes(b2))] = bytes(b2)
    for (label, _k), body in sorted(cands.items(), key=repr):
        n += 1
        r = judge_parse(fn, enc(body))
        sigs.add((ctx, etype, label.split("@")[0].split("[")[0], r[0]))
        if r[0] == "FAIL" and len(fails) < 10:
            fails.append({"ctx": ctx, "ext": etype, "case": label,
                          "body": body[:24].hex(), "why": r[1]})
        if label == "real" and r[0] != "roundtrip" and len(fails) < 10:
            fails.append({"ctx": ctx, "ext": etype, "case": label,
                          "body": body[:24].hex(),
                          "why": "extension seen in a live handshake does "
                          "not round-trip: %r" % (r,)})
    # histories: an object that already parsed and serialised one value is
    # given another value through its public attributes; it must then
    # serialise like a fresh object given that value (differential oracle:
    # state reached from elsewhere vs from the initial state)
    good = []
    for (label, _k), body in sorted(cands.items(), key=repr):
        if judge_parse(fn, enc(body))[0] == "roundtrip" and body not in good:
            good.append(body)
    good = good[:10 if tier == "quick" else 24]
    for a in good:
        for b in good:
            if a == b:
                continue
            r = history_check(fn, enc(a), enc(b))
            if r is None:
                continue
            n += 1
            sigs.add((ctx, etype, "history", r[0]))
            if r[0] == "FAIL" and len(fails) < 10:
                fails.append({"ctx": ctx, "ext": etype, "case": "history",
                              "body": b[:24].hex(), "first": a[:24].hex(),
                              "why": r[1]})
    return n, fails, sorted(sigs, key=repr)


def public_names(obj):
    names = [k for k in vars(obj) if not k.startswith("_")]
    fn_ = vars(obj).get("_field_name")
    if fn_:
        names.append(fn_)
    for k in dir(type(obj)):
        pr = getattr(type(obj), k, None)
        if isinstance(pr, property) and pr.fset is not None and \
                not k.startswith("_") and k not in names:
            names.append(k)
    return names


def transfer(src, dst):
    for k in public_names(src):
        setattr(dst, k, copy.deepcopy(getattr(src, k)))


def history_check(fn, enc_a, enc_b):
    """None when the class' serialisation is not determined by its public
    attributes (nothing to compare), else ('same',) / ('FAIL', text)."""
    try:
        obj_a = fn(enc_a)
        obj_b = fn(enc_b)
        if type(obj_a) is not type(obj_b):
            return None
        # both values must be reproduced by a fresh object given their
        # public attributes (the generic TLSExtension keeps its payload
        # private: nothing to compare there)
        for (o, e) in ((obj_a, enc_a), (obj_b, enc_b)):
            fresh = type(o)()
            transfer(o, fresh)
            if bytes(fresh.write()) != bytes(e):
                return None
    except BaseException:  # noqa
        return None
    first = bytes(obj_a.write())
    transfer(obj_b, obj_a)
    try:
        again = bytes(obj_a.write())
    except BaseException as e:  # noqa
        return ("FAIL", "write() after assigning new values raised %s" %
                type(e).__name__)
    if again != bytes(enc_b):
        return ("FAIL", "%s: after serialising one value and being assigned "
                "another through its attributes, write() gives %s (a fresh "
                "object with the same attributes gives the new value's "
                "encoding)" % (type(obj_a).__name__, "the OLD encoding"
                               if again == first else "something else"))
    return ("same",)


# ---------------------------------------------------------------- misc
def misc_case(item):
    kind, tier = item
    n = 0
    fails = []
    sigs = set()

    def check(label, fn, d, must=False):
        nonlocal n
        n += 1
        r = judge_parse(fn, d)
        sigs.add((kind, label.split("@")[0].split("=")[0], r[0]))
        if r[0] == "FAIL":
            fails.append({"class": kind, "case": label, "why": r[1]})
        elif must and r[0] != "roundtrip":
            fails.append({"class": kind, "case": label,
                          "why": "well-formed value rejected %r" % (r,)})
    if kind == "RecordHeader3":
        def fn(d):
            return M.RecordHeader3().parse(Parser(bytearray(d)))
        for t in (20, 21, 22, 23, 24, 0, 255):
            for v in ((3, 0), (3, 3), (3, 4), (0, 0), (255, 255)):
                for ln in (0, 1, 2 ** 14, 2 ** 14 + 2048, 65535):
                    d = bytes([t, v[0], v[1]]) + struct.pack(">H", ln)
                    check("value", fn, d, True)
                    h = M.RecordHeader3().create(v, t, ln)
                    if bytes(h.write()) != d:
                        fails.append({"class": kind, "case": "create",
                                      "why": "create().write() differs"})
        for cut in range(5):
            check("truncate@%d" % cut, fn, b"\x16\x03\x03\x00\x05"[:cut])
        for ln in (65536, -1, 2 ** 24):
            try:
                M.RecordHeader3().create((3, 3), 22, ln).write()
                fails.append({"class": kind, "case": "length=%d" % ln,
                              "why": "oversized length serialised"})
            except (ValueError, OverflowError, struct.error, TypeError):
                pass
            n += 1
    elif kind == "Alert":
        def fn(d):
            return M.Alert().parse(Parser(bytearray(d)))
        for lvl in (0, 1, 2, 3, 255):
            for desc in (0, 10, 20, 40, 80, 90, 120, 255):
                check("value", fn, bytes([lvl, desc]), True)
        check("truncate@0", fn, b"")
        check("truncate@1", fn, b"\x02")
    elif kind == "ChangeCipherSpec":
        def fn(d):
            return M.ChangeCipherSpec().parse(Parser(bytearray(d)))
        for v in (0, 1, 2, 255):
            check("value", fn, bytes([v]), True)
        check("empty", fn, b"")
        check("trailing", fn, b"\x01\x01")
    elif kind == "Heartbeat":
        def fn(d):
            return M.Heartbeat().parse(Parser(bytearray(d)))
        for t in (1, 2, 0, 3):
            for pl in (0, 1, 16, 300):
                for pad in (0, 16, 17):
                    d = bytes([t]) + struct.pack(">H", pl) + b"p" * pl + \
                        b"\x00" * pad
                    check("value", fn, d, True)
        d = b"\x01\x00\x04abcd" + bytes(16)
        for cut in range(len(d)):
            check("truncate@%d" % cut, fn, d[:cut])
        check("payload-length-beyond-message", fn, b"\x01\x40\x00ab")
        for pl in (65536, 70000):
            try:
                M.Heartbeat().create(1, bytearray(pl), 16).write()
                fails.append({"class": kind, "case": "payload=%d" % pl,
                              "why": "oversized payload serialised"})
            except (ValueError, OverflowError, struct.error):
                pass
            n += 1
    elif kind == "ClientHelloSSL2":
        # SSLv2-framed ClientHello (after its type byte): three declared
        # lengths, cipher specs of three bytes each
        def fn(d):
            class _M(object):
                def __init__(self, m):
                    self.m = m

                def write(self):
                    return self.m.write()[1:]       # (type byte added)
            return _M(M.ClientHello(ssl2=True).parse(Parser(bytearray(d))))

        def enc(nspec_bytes, specs, sid, chal, ver=(3, 3)):
            return bytes(ver) + struct.pack(">HHH", nspec_bytes, len(sid),
                                            len(chal)) + specs + sid + chal
        specs = bytes.fromhex("00002f0000350700c0")
        chal = bytes(range(32))
        check("value", fn, enc(9, specs, b"", chal), True)
        check("value-with-session-id", fn, enc(9, specs, b"s" * 16, chal),
              True)
        for n in (0, 1, 2, 4, 5, 7, 8, 10, 11):
            # the declared length with exactly that many bytes of specs
            body = (specs + specs)[:n]
            r = judge_parse(fn, enc(n, body, b"", chal))
            sigs.add((kind, "specs-length", r[0]))
            if n % 3 and r[0] != "rejected":
                fails.append({"class": kind, "case": "specs-length=%d" % n,
                              "why": "cipher specs length that is not a "
                              "multiple of 3 accepted: %r" % (r,)})
        d0 = enc(9, specs, b"", chal)
        for delta in (-2, -1, 1, 2, 3):
            for off in (2, 4, 6):       # each of the three length fields
                b = bytearray(d0)
                v = int.from_bytes(b[off:off + 2], "big") + delta
                if v < 0:
                    continue
                b[off:off + 2] = v.to_bytes(2, "big")
                check("len@%d%+d" % (off, delta), fn, bytes(b))
        for cut in range(len(d0)):
            check("truncate@%d" % cut, fn, d0[:cut])
        check("trailing", fn, d0 + b"\x00")
    elif kind == "SessionTicketPayload":
        from tlslite.messages import SessionTicketPayload

        def fn(d):
            try:
                return SessionTicketPayload().parse(Parser(bytearray(d)))
            except ValueError as e:
                # the documented rejection of this class
                raise SyntaxError(str(e))
        from tlslite.x509certchain import X509CertChain
        chain, _ = W.load_cred("c_rsa")
        other, _ = W.load_cred("rsa")
        third, _ = W.load_cred("c_ecdsa")
        chain2 = X509CertChain(list(chain.x509List) + list(other.x509List))
        chain3 = X509CertChain(list(chain2.x509List) + list(third.x509List))
        vals = []
        for cc in (None, X509CertChain([]), chain, chain2, chain3):
            for sni in (bytearray(), bytearray(b"host.example")):
                for etm in (False, True):
                    for ems in (False, True):
                        t = SessionTicketPayload()
                        t.create(bytearray(48), (3, 3), 0xc02f, 1700000000,
                                 bytearray(b"n" * 32),
                                 client_cert_chain=cc, encrypt_then_mac=etm,
                                 extended_master_secret=ems,
                                 server_name=sni)
                        vals.append(bytes(t.write()))
        for d in vals:
            check("value", fn, d, True)
        d = vals[-1]
        step = 1 if tier == "thorough" else 5
        for cut in range(0, len(d), step):
            check("truncate@%d" % cut, fn, d[:cut])
        check("trailing", fn, d + b"\x00")
        # every byte of the framing region nudged (length fields of the
        # certificate list and its entries among them), chains of 1-3
        for d3 in vals:
            if len(d3) < 600:
                continue
            for pos in range(0, 140):
                for delta in (1, -1, 7):
                    b = bytearray(d3)
                    b[pos] = (b[pos] + delta) & 0xff
                    check("byte[%d]%+d" % (pos, delta), fn, bytes(b))
        for ver in (0, 1, 2, 3, 255):
            d2 = bytes([ver]) + d[1:] if d[0] in (0, 1, 2) else d
            check("version=%d" % ver, fn, d2)
    elif kind == "writer":
        # serialisation never wraps a value that does not fit
        for w in (1, 2, 3, 4):
            for v in (2 ** (8 * w) - 1, 2 ** (8 * w), 2 ** (8 * w) + 1, -1):
                wr = Writer()
                n += 1
                try:
                    wr.add(v, w)
                    ok = (0 <= v < 2 ** (8 * w)) and \
                        int.from_bytes(wr.bytes, "big") == v
                    if not ok:
                        fails.append({"class": kind, "case": "add(%d,%d)" % (
                            v, w), "why": "wrote %s" % bytes(wr.bytes).hex()})
                except (ValueError, OverflowError, struct.error):
                    if 0 <= v < 2 ** (8 * w):
                        fails.append({"class": kind, "case": "add(%d,%d)" % (
                            v, w), "why": "fitting value refused"})
        for lw in (1, 2):
            for count in (2 ** (8 * lw) - 1, 2 ** (8 * lw)):
                wr = Writer()
                n += 1
                try:
                    wr.addVarSeq([1] * count, 1, lw)
                    if count >= 2 ** (8 * lw):
                        fails.append({"class": kind,
                                      "case": "addVarSeq(%d items, lw=%d)" % (
                                          count, lw),
                                      "why": "oversized vector serialised"})
                except (ValueError, OverflowError, struct.error):
                    if count < 2 ** (8 * lw):
                        fails.append({"class": kind, "case": "addVarSeq",
                                      "why": "fitting vector refused"})
    elif kind == "oversize-create":
        from tlslite.extensions import (SNIExtension, ALPNExtension,
                                        SupportedGroupsExtension,
                                        ECPointFormatsExtension,
                                        SupportedVersionsExtension,
                                        CookieExtension, SRPExtension,
                                        NPNExtension, SessionTicketExtension,
                                        ClientKeyShareExtension,
                                        KeyShareEntry, PreSharedKeyExtension,
                                        PskIdentity)
        cases = [
            ("sni-hostname-65536", lambda: SNIExtension().create(
                bytearray(b"a" * 65536))),
            ("alpn-name-256", lambda: ALPNExtension().create(
                [bytearray(b"x" * 256)])),
            ("alpn-list-65536", lambda: ALPNExtension().create(
                [bytearray(b"x" * 255)] * 257)),
            ("groups-32768", lambda: SupportedGroupsExtension().create(
                [23] * 32768)),
            ("ecpf-256", lambda: ECPointFormatsExtension().create(
                [0] * 256)),
            ("versions-128", lambda: SupportedVersionsExtension().create(
                [(3, 3)] * 128)),
            ("cookie-65536", lambda: CookieExtension().create(
                bytearray(65536))),
            ("srp-256", lambda: SRPExtension().create(bytearray(256))),
            ("npn-name-256", lambda: NPNExtension().create(
                [bytearray(256)])),
            ("ticket-65536", lambda: SessionTicketExtension().create(
                bytearray(65536))),
            ("keyshare-65536", lambda: ClientKeyShareExtension().create(
                [KeyShareEntry().create(23, bytearray(65536))])),
            ("psk-identity-65536", lambda: PreSharedKeyExtension().create(
                [PskIdentity().create(bytearray(65536), 0)],
                [bytearray(32)])),
            ("psk-binder-256", lambda: PreSharedKeyExtension().create(
                [PskIdentity().create(bytearray(b"id"), 0)],
                [bytearray(256)])),
            ("clienthello-sid-256", lambda: M.ClientHello().create(
                (3, 3), bytearray(32), bytearray(256), [0x2f])),
            ("clienthello-suites-32768", lambda: M.ClientHello().create(
                (3, 3), bytearray(32), bytearray(0), [0x2f] * 32768)),
            ("finished-verify-data-2^24-1", lambda: M.Finished(
                (3, 3), 12).create(bytearray(2 ** 24 - 1))),
            ("finished-verify-data-2^24", lambda: M.Finished(
                (3, 3), 12).create(bytearray(2 ** 24))),
            ("finished-verify-data-2^24+3", lambda: M.Finished(
                (3, 3), 12).create(bytearray(2 ** 24 + 3))),
            ("certstatus-ocsp-2^24-4", lambda: M.CertificateStatus().create(
                1, bytearray(2 ** 24 - 4))),
            ("certstatus-ocsp-2^24", lambda: M.CertificateStatus().create(
                1, bytearray(2 ** 24))),
            ("nst-ticket-65536", lambda: M.NewSessionTicket().create(
                1, 2, bytearray(1), bytearray(65536), [])),
            ("nst-nonce-256", lambda: M.NewSessionTicket().create(
                1, 2, bytearray(256), bytearray(8), [])),
            ("nst10-ticket-65536", lambda: M.NewSessionTicket1_0().create(
                1, bytearray(65536))),
            ("certverify-sig-65536", lambda: M.CertificateVerify(
                (3, 3)).create(bytearray(65536), (4, 1))),
            ("keyupdate-256", lambda: M.KeyUpdate().create(256)),
            ("alert-256", lambda: M.Alert().create(256, 2)),
        ]
        for (label, mk) in cases:
            if mk is None:
                continue
            n += 1
            try:
                obj = mk()
                data = bytes(obj.write())
            except (ValueError, OverflowError, struct.error, TypeError,
                    AssertionError, E.BaseTLSException) as e:
                sigs.add((kind, "refused", type(e).__name__))
                continue
            except BaseException as e:  # noqa
                fails.append({"class": kind, "case": label,
                              "why": "raised %s" % type(e).__name__})
                continue
            # it serialised: then parsing must give the same value back
            sigs.add((kind, "serialised", label))
            if isinstance(obj, M.HandshakeMsg):
                if int.from_bytes(data[1:4], "big") != len(data) - 4:
                    fails.append({"class": kind, "case": label,
                                  "why": "handshake header declares %d bytes "
                                  "for a body of %d (length wrapped)" % (
                                      int.from_bytes(data[1:4], "big"),
                                      len(data) - 4)})
            try:
                if isinstance(obj, X.TLSExtension):
                    back = X.TLSExtension().parse(Parser(bytearray(data)))
                else:
                    back = None
                if back is not None and bytes(back.write()) != data:
                    fails.append({"class": kind, "case": label,
                                  "why": "oversized value serialised to "
                                  "bytes that parse to another value"})
            except OK_EXC:
                fails.append({"class": kind, "case": label,
                              "why": "oversized value serialised to bytes "
                              "the parser rejects (silent truncation / "
                              "wrap)"})
    return n, fails, sorted(sigs, key=repr)


def run(res, tier, seed):
    res.coverage["rule"] = (
        "corpus: every handshake message sent in either direction of every "
        "handshake flavour (captured from live runs); for each: identity "
        "round-trip, truncation at every byte (header corrected), every "
        "located length prefix / scalar perturbed (0, +-1, +2, half, max), "
        "stray byte in every length-delimited structure, trailing byte; "
        "every extension (type, body) seen in every context plus 22 generic "
        "bodies per (context, type): all truncations, +-1 on leading bytes, "
        "trailing byte; every ordered pair of accepted bodies of one type as "
        "a parse-write-assign-write history against a fresh object; record "
        "headers, alerts, CCS, heartbeat, session-"
        "ticket payloads; Writer and create() with values that do not fit; "
        "a candidate passes iff it is rejected with a decode/TLS error or "
        "re-serialises to exactly the parsed bytes")
    scs = S.flavours("thorough")
    corpus = []
    for part in pmap(corpus_case, [(i, seed) for i in range(len(scs))]):
        corpus.extend(part)
    # deduplicate by (token, version, suite family, length)
    seen = set()
    items = []
    ext_bodies = {}
    for (name, tok, version, suite, finlen, data) in corpus:
        if tok == "FAILED":
            res.violation({"part": "corpus", "scenario": name},
                          {"scenario": name, "outcome": data.decode(),
                           "fail": "honest handshake of the corpus failed"},
                          {"corpus": name})
            continue
        key = (tok, version, _kex(suite), len(data) // 16,
               name.split("-")[1] if "-" in name else name)
        if key in seen and tier == "quick":
            continue
        seen.add(key)
        items.append((name, tok, version, suite, finlen, data, tier))
        if tok in ("CH", "SH", "HRR", "EE", "CR", "NST", "CERT"):
            ctx = {"CH": "client", "SH": "server", "HRR": "hrr",
                   "EE": "enc", "CR": "client", "NST": "client",
                   "CERT": "cert"}[tok]
            if tok in ("CR", "NST", "CERT") and version < (3, 4):
                continue
            for (t, body) in split_exts(data):
                ext_bodies.setdefault((ctx, t), set()).add(body)
    nm = 0
    for (n, fails, sigs) in pmap(msg_case, items):
        nm += n
        res.count(n)
        for s in sigs:
            res.outcome(tuple(s))
        for f in fails:
            res.violation({"part": "message", "msg": f["msg"],
                           "mutation": f["mutation"].split("@")[0].split(
                               "=")[0].split("[")[0],
                           "why": f["why"][:45]}, f, {"message": f})
    res.sample({"message": items[0][1], "scenario": items[0][0],
                "len": len(items[0][5]),
                "candidates": "identity, truncate@4..len-1, field "
                "perturbations, stray/trailing bytes"})
    res.section("messages", corpus=len(corpus), distinct_used=len(items),
                candidates=nm)
    # extensions: every type in every dispatch table x context, plus seen
    tables = {"client": X.TLSExtension._universalExtensions,
              "server": X.TLSExtension._serverExtensions,
              "hrr": X.TLSExtension._hrrExtensions,
              "cert": X.TLSExtension._certificateExtensions,
              "enc": X.TLSExtension._universalExtensions}
    eitems = []
    for ctx, table in tables.items():
        types = set(table) | set(t for (c, t) in ext_bodies if c == ctx) | \
            set(X.TLSExtension._universalExtensions) | {0xfafa}
        for t in sorted(types):
            eitems.append((ctx, t, sorted(ext_bodies.get((ctx, t), set())),
                           tier))
    ne = 0
    nh = 0
    for (n, fails, sigs) in pmap(ext_case, eitems):
        ne += n
        nh += sum(1 for x in sigs if x[2] == "history")
        res.count(n)
        for s in sigs:
            res.outcome(("ext",) + tuple(s)[2:])
        for f in fails:
            res.violation({"part": "extension", "ctx": f["ctx"],
                           "ext": f["ext"],
                           "case": f["case"].split("@")[0].split("[")[0],
                           "why": f["why"][:40]}, f, {"extension": f})
    res.section("extensions", context_type_pairs=len(eitems), candidates=ne,
                real_bodies=sum(len(v) for v in ext_bodies.values()),
                context_type_pairs_with_history_comparisons=nh)
    nx = 0
    for (n, fails, sigs) in pmap(misc_case, [(k, tier) for k in (
            "RecordHeader3", "Alert", "ChangeCipherSpec", "Heartbeat",
            "SessionTicketPayload", "ClientHelloSSL2", "writer",
            "oversize-create")],
            chunksize=1):
        nx += n
        res.count(n)
        for s in sigs:
            res.outcome(tuple(s))
        for f in fails:
            res.violation({"part": "misc", "class": f["class"],
                           "case": f["case"].split("@")[0],
                           "why": f["why"][:40]}, f, {"misc": f})
    res.section("other_codecs", candidates=nx)
    res.coverage["distinct_nontrivial"] = nm + ne + nx
    res.assumptions += [
        "accepted candidates are required to re-serialise to the parsed "
        "bytes (canonical acceptance); rejection must be a SyntaxError "
        "(DecodeError) or a TLS exception",
        "values with 2^24-byte fields are not built"]


def replay(case_, seed):
    return {"note": "re-run ./check C15", "case": case_}
