"""C09 - symmetric primitives and key derivation compute the standard
functions.

Deciding method: exhaustive enumeration of input *shapes* (every length in a
range, every split of a streaming call into 1-3 calls, AAD-length encoding
boundaries, counter carries) with values from a small fixed alphabet, each
result compared with an independent reference implementation
(mc.refcrypto: hashlib/hmac only, self-tested against published vectors at
start-up and cross-checked against the openssl command line).
"""
import hashlib
import hmac as std_hmac
import itertools

from .. import world as W
from .. import refcrypto as R
from ..core import pmap, room

from tlslite.utils import cipherfactory as CF
from tlslite.utils import tlshashlib
from tlslite import mathtls as M
from tlslite.utils import cryptomath as CM
from tlslite.handshakehashes import HandshakeHashes
from tlslite.constants import CipherSuite as CS

LEVEL = "exploration"
IMPL = ["python"]


def vals(n, seed, which):
    """Value alphabet: zeros, ones, counting, two DRBG streams."""
    if which == 0:
        return bytes(n)
    if which == 1:
        return b"\xff" * n
    if which == 2:
        return bytes((i * 7 + 1) & 0xff for i in range(n))
    d = W.DRBG(seed, "c09-%d" % which)
    return d.read(n)


def compositions(total, unit, maxparts):
    """All ways to cut `total` (multiple of unit) into 1..maxparts calls."""
    n = total // unit
    out = []
    for k in range(1, maxparts + 1):
        if k == 1:
            out.append([total])
            continue
        for cuts in itertools.combinations(range(0, n + 1), k - 1):
            pts = [0] + list(cuts) + [n]
            parts = [(pts[i + 1] - pts[i]) * unit for i in range(k)]
            out.append(parts)
    return out


class Acc(object):
    def __init__(self):
        self.n = 0
        self.fails = []
        self.kinds = {}
        self.pc = {}

    def eq(self, kind, case, got, want):
        self.n += 1
        self.kinds[kind] = self.kinds.get(kind, 0) + 1
        g = None if got is None else bytes(got)
        w = None if want is None else bytes(want)
        if g != w and room(self.pc, kind, 6):
            self.fails.append({"kind": kind, "case": case,
                               "got": None if g is None else g[:32].hex(),
                               "want": None if w is None else w[:32].hex()})


def t_block(a, seed, tier):
    for kl in (16, 24, 32):
        for wk in range(5):
            key = vals(kl, seed, wk)
            for wp in range(5):
                pt = vals(16, seed, (wp + 1) % 5)
                # raw block through CBC with zero IV
                c = CF.createAES(bytearray(key), bytearray(16), IMPL)
                a.eq("aes-block", [kl, wk, wp],
                     c.encrypt(bytearray(pt)),
                     R.AES(key).encrypt_block(pt))


def t_cbc(a, seed, tier):
    maxb = 4 if tier == "quick" else 6
    for name, kl, bs, mk, ref in (
            ("aes128-cbc", 16, 16, CF.createAES, R.AES),
            ("aes256-cbc", 32, 16, CF.createAES, R.AES),
            ("3des-cbc", 24, 8, CF.createTripleDES, R.TripleDES)):
        for nb in range(0, maxb + 1):
            for parts in compositions(nb * bs, bs, 3):
                for w in (2, 3):
                    key = vals(kl, seed, w)
                    iv = vals(bs, seed, w + 1)
                    pt = vals(nb * bs, seed, w)
                    want = R.cbc_encrypt(ref(key), iv, pt)
                    enc = mk(bytearray(key), bytearray(iv), IMPL)
                    dec = mk(bytearray(key), bytearray(iv), IMPL)
                    got = b""
                    back = b""
                    o = 0
                    for p in parts:
                        if p == 0 and name == "3des-cbc":
                            continue
                        got += bytes(enc.encrypt(bytearray(pt[o:o + p])))
                        back += bytes(dec.decrypt(bytearray(want[o:o + p])))
                        o += p
                    a.eq(name + "-enc", [nb, parts, w], got, want)
                    a.eq(name + "-dec", [nb, parts, w], back, pt)


def t_stream(a, seed, tier):
    maxl = 40 if tier == "quick" else 70
    for ln in range(0, maxl + 1):
        cuts = [[ln]] + [[i, ln - i] for i in range(0, ln + 1,
                                                      1 if ln < 20 else 7)]
        if tier == "thorough" and ln <= 24:
            cuts += [[i, j - i, ln - j] for i in range(ln + 1)
                     for j in range(i, ln + 1)]
        for parts in cuts:
            key = vals(16, seed, 3)
            pt = vals(ln, seed, 2)
            want = R.rc4(key, pt)
            e = CF.createRC4(bytearray(key), bytearray(0), IMPL)
            got = b""
            o = 0
            for p in parts:
                got += bytes(e.encrypt(bytearray(pt[o:o + p])))
                o += p
            a.eq("rc4", [ln, parts], got, want)
            # AES-CTR with counters that carry
            for ctr in (bytes(16), b"\x00" * 8 + b"\xff" * 8,
                        b"\xff" * 16, vals(12, seed, 3) + b"\xff\xff\xff\xfe"):
                k = vals(16, seed, 4)
                want = R.xor(pt, R.ctr_keystream(R.AES(k), ctr, ln))
                try:
                    e = CF.createAESCTR(bytearray(k), bytearray(ctr), IMPL)
                except Exception as ex:  # noqa
                    a.eq("aes-ctr", [ln, parts, ctr.hex()],
                         repr(ex).encode(), want)
                    continue
                got = b""
                o = 0
                for p in parts:
                    got += bytes(e.encrypt(bytearray(pt[o:o + p])))
                    o += p
                aligned = all(p % 16 == 0 for p in parts[:-1])
                a.eq("aes-ctr" if aligned else "aes-ctr-unaligned-split",
                     [ln, parts, ctr.hex()], got, want)


def aead_list():
    return [
        ("aes128gcm", 16, lambda k: CF.createAESGCM(bytearray(k), IMPL),
         lambda k, n, p, ad: R.gcm_seal(k, n, p, ad),
         lambda k, n, c, ad: R.gcm_open(k, n, c, ad), 16),
        ("aes256gcm", 32, lambda k: CF.createAESGCM(bytearray(k), IMPL),
         lambda k, n, p, ad: R.gcm_seal(k, n, p, ad),
         lambda k, n, c, ad: R.gcm_open(k, n, c, ad), 16),
        ("aes128ccm", 16, lambda k: CF.createAESCCM(bytearray(k), IMPL),
         lambda k, n, p, ad: R.ccm_seal(k, n, p, ad, 16),
         lambda k, n, c, ad: R.ccm_open(k, n, c, ad, 16), 16),
        ("aes256ccm", 32, lambda k: CF.createAESCCM(bytearray(k), IMPL),
         lambda k, n, p, ad: R.ccm_seal(k, n, p, ad, 16),
         lambda k, n, c, ad: R.ccm_open(k, n, c, ad, 16), 16),
        ("aes128ccm_8", 16, lambda k: CF.createAESCCM_8(bytearray(k), IMPL),
         lambda k, n, p, ad: R.ccm_seal(k, n, p, ad, 8),
         lambda k, n, c, ad: R.ccm_open(k, n, c, ad, 8), 8),
        ("aes256ccm_8", 32, lambda k: CF.createAESCCM_8(bytearray(k), IMPL),
         lambda k, n, p, ad: R.ccm_seal(k, n, p, ad, 8),
         lambda k, n, c, ad: R.ccm_open(k, n, c, ad, 8), 8),
        ("chacha20-poly1305", 32,
         lambda k: CF.createCHACHA20(bytearray(k), IMPL),
         lambda k, n, p, ad: R.chacha20poly1305_seal(k, n, p, ad),
         lambda k, n, c, ad: R.chacha20poly1305_open(k, n, c, ad), 16)]


def t_aead_one(item):
    idx, tier, seed = item
    a = Acc()
    name, kl, mk, rseal, ropen, tl = aead_list()[idx]
    maxp, maxa = (34, 18) if tier == "quick" else (66, 34)
    nonces = [bytes(12), b"\xff" * 12, vals(12, seed, 3)]
    for pl in range(0, maxp + 1):
        for al in range(0, maxa + 1):
            if tier == "quick" and pl > 18 and al > 2 and (pl + al) % 3:
                continue
            w = 2 + (pl + al) % 3
            key = vals(kl, seed, w)
            n = nonces[(pl * 3 + al) % 3]
            pt = vals(pl, seed, w)
            ad = vals(al, seed, (w + 1) % 5)
            c = mk(key)
            got = c.seal(bytearray(n), bytearray(pt), bytearray(ad))
            want = rseal(key, n, pt, ad)
            a.eq(name + "-seal", [pl, al], got, want)
            back = c.open(bytearray(n), bytearray(want), bytearray(ad))
            a.eq(name + "-open", [pl, al], back, pt)
    # AAD length-encoding boundaries (CCM switches at 2^16-2^8)
    for al in (65279, 65280, 65281, 65536):
        key = vals(kl, seed, 3)
        n = vals(12, seed, 4)
        pt = vals(5, seed, 2)
        ad = vals(al, seed, 2)
        c = mk(key)
        a.eq(name + "-seal-bigaad", [al],
             c.seal(bytearray(n), bytearray(pt), bytearray(ad)),
             rseal(key, n, pt, ad))
    # open() refuses every single-bit change
    for pl in (0, 1, 16, 20):
        key = vals(kl, seed, 3)
        n = vals(12, seed, 4)
        pt = vals(pl, seed, 2)
        ad = vals(13, seed, 3)
        sealed = rseal(key, n, pt, ad)
        c = mk(key)
        for what, buf in (("ct", sealed), ("nonce", n), ("aad", ad)):
            for pos in range(len(buf)):
                for bit in (range(8) if tier == "thorough" or pos < 2 or
                            pos >= len(buf) - 2 else (0, 7)):
                    b2 = bytearray(buf)
                    b2[pos] ^= 1 << bit
                    args = {"ct": sealed, "nonce": n, "aad": ad}
                    args[what] = bytes(b2)
                    r = c.open(bytearray(args["nonce"]),
                               bytearray(args["ct"]), bytearray(args["aad"]))
                    a.eq(name + "-open-rejects", [pl, what, pos, bit], r,
                         None)
        for cut in range(0, len(sealed)):
            r = c.open(bytearray(n), bytearray(sealed[:cut]), bytearray(ad))
            a.eq(name + "-open-rejects-truncated", [pl, cut], r, None)
    return a.n, a.fails, a.kinds


def t_chacha_poly(a, seed, tier):
    from tlslite.utils.chacha import ChaCha
    from tlslite.utils.poly1305 import Poly1305
    key = vals(32, seed, 3)
    nonce = vals(12, seed, 4)
    for counter in (0, 1, 2 ** 32 - 1):
        for ln in (0, 1, 63, 64, 65, 130):
            if counter == 2 ** 32 - 1 and ln > 64:
                continue
            pt = vals(ln, seed, 2)
            got = ChaCha(bytearray(key), bytearray(nonce),
                         counter=counter).encrypt(bytearray(pt))
            a.eq("chacha20", [counter, ln], got,
                 R.chacha20(key, counter, nonce, pt))
    for ln in range(0, 50):
        for w in (1, 2, 3):
            k = vals(32, seed, 1 if w == 1 else 3)
            msg = vals(ln, seed, w)
            a.eq("poly1305", [ln, w],
                 Poly1305(bytearray(k)).create_tag(bytearray(msg)),
                 R.poly1305(k, msg))


def t_hmac(a, seed, tier):
    from tlslite.utils import tlshmac
    for h in ("md5", "sha1", "sha256", "sha384"):
        bs = hashlib.new(h).block_size
        for kl in (0, 1, bs - 1, bs, bs + 1, 200):
            key = vals(kl, seed, 3)
            for ml in range(0, 131 if tier == "thorough" else 70):
                msg = vals(ml, seed, 2)
                m = tlshmac.new(key, digestmod=h)
                half = ml // 2
                m.update(msg[:half])
                m2 = m.copy()
                m.update(msg[half:])
                m2.update(msg[half:])
                want = std_hmac.new(key, msg, h).digest()
                a.eq("hmac-" + h, [kl, ml], m.digest(), want)
                a.eq("hmac-copy-" + h, [kl, ml], m2.digest(), want)
        for ml in (0, 1, 55, 56, 64, 100):
            for h2 in ("md5", "sha1"):
                key = vals(16 if h2 == "md5" else 20, seed, 3)
                mac = M.createMAC_SSL(bytearray(key),
                                      digestmod=getattr(tlshashlib, h2))
                seq = vals(8, seed, 2)
                data = vals(ml, seed, 3)
                mac.update(seq)
                mac.update(bytearray([23]))
                mac.update(bytearray([ml >> 8, ml & 0xff]))
                mac.update(data)
                a.eq("ssl3-mac-" + h2, [ml], mac.digest(),
                     R.ssl3_mac(key, h2, seq, 23, data))


def t_prf(a, seed, tier):
    for sl in range(0, 66 if tier == "thorough" else 34):
        secret = vals(sl, seed, 3)
        for ll, sdl, ol in ((0, 0, 0), (13, 64, 48), (5, 1, 12), (40, 40,
                                                                 200),
                            (1, 0, 17), (13, 64, 104)):
            label = vals(ll, seed, 2)
            sd = vals(sdl, seed, 4)
            a.eq("prf-tls10", [sl, ll, sdl, ol],
                 M.PRF(bytearray(secret), bytearray(label), bytearray(sd),
                       ol), R.prf_tls10(secret, label, sd, ol))
            a.eq("prf-tls12-sha256", [sl, ll, sdl, ol],
                 M.PRF_1_2(bytearray(secret), bytearray(label),
                           bytearray(sd), ol),
                 R.prf_tls12(secret, label, sd, ol, "sha256"))
            a.eq("prf-tls12-sha384", [sl, ll, sdl, ol],
                 M.PRF_1_2_SHA384(bytearray(secret), bytearray(label),
                                  bytearray(sd), ol),
                 R.prf_tls12(secret, label, sd, ol, "sha384"))
            a.eq("prf-ssl3", [sl, sdl, ol],
                 M.PRF_SSL(bytearray(secret), bytearray(sd), ol),
                 R.prf_ssl3(secret, sd, ol))
    for ol in range(0, 201 if tier == "thorough" else 70):
        secret = vals(48, seed, 3)
        a.eq("prf-tls12-outlen", [ol],
             M.PRF_1_2(bytearray(secret), bytearray(b"key expansion"),
                       bytearray(64), ol),
             R.prf_tls12(secret, b"key expansion", bytes(64), ol))
        a.eq("prf-tls10-outlen", [ol],
             M.PRF(bytearray(secret), bytearray(b"key expansion"),
                   bytearray(64), ol),
             R.prf_tls10(secret, b"key expansion", bytes(64), ol))


def t_hkdf(a, seed, tier):
    for h, hl in (("sha256", 32), ("sha384", 48)):
        for sl in (0, 1, hl, hl + 1):
            for il in (0, 1, hl, 100):
                salt = vals(sl, seed, 3)
                ikm = vals(il, seed, 2)
                if sl == 0 or il == 0:
                    continue
                a.eq("hkdf-extract-" + h, [sl, il],
                     CM.secureHMAC(bytearray(salt), bytearray(ikm), h),
                     R.hmac_(salt, ikm, h))
        prk = vals(hl, seed, 3)
        for ol in list(range(0, 70)) + [hl * 2, hl * 3 + 1, 255, 255 * hl]:
            for ll in (0, 1, 12, 60):
                for cl in (0, hl, 60):
                    if tier == "quick" and ol > 40 and (ll, cl) != (12, hl):
                        continue
                    lab = vals(ll, seed, 2)
                    ctx = vals(cl, seed, 4)
                    if 6 + ll > 255 or cl > 255 or ol > 65535:
                        continue
                    a.eq("hkdf-expand-label-" + h, [ol, ll, cl],
                         CM.HKDF_expand_label(bytearray(prk), bytearray(lab),
                                              bytearray(ctx), ol, h),
                         R.hkdf_expand_label(prk, lab, ctx, ol, h))
        for ll in (0, 7, 12):
            lab = vals(ll, seed, 2)
            a.eq("derive-secret-none-" + h, [ll],
                 CM.derive_secret(bytearray(prk), bytearray(lab), None, h),
                 R.derive_secret(prk, lab, None, h))
            hh = HandshakeHashes()
            msgs = vals(300, seed, 3)
            hh.update(bytearray(msgs))
            a.eq("derive-secret-transcript-" + h, [ll],
                 CM.derive_secret(bytearray(prk), bytearray(lab), hh, h),
                 R.derive_secret(prk, lab, hashlib.new(h, msgs).digest(), h))


def t_calc_key(a, seed, tier):
    ms = vals(48, seed, 3)
    pms = vals(48, seed, 4)
    cr, sr = vals(32, seed, 2), vals(32, seed, 3)
    tr = vals(777, seed, 4)
    hh = HandshakeHashes()
    hh.update(bytearray(tr))
    suites = {"sha256": CS.TLS_RSA_WITH_AES_128_GCM_SHA256,
              "sha384": CS.TLS_RSA_WITH_AES_256_GCM_SHA384,
              "legacy": CS.TLS_RSA_WITH_AES_128_CBC_SHA}
    for v in ((3, 0), (3, 1), (3, 2), (3, 3)):
        for sname, suite in suites.items():
            if v < (3, 3) and sname != "legacy":
                continue
            h = "sha384" if sname == "sha384" else "sha256"

            def ref_prf(secret, label, sd, n):
                if v == (3, 0):
                    return R.prf_ssl3(secret, sd, n)
                if v < (3, 3):
                    return R.prf_tls10(secret, label, sd, n)
                return R.prf_tls12(secret, label, sd, n, h)
            a.eq("calc_key-master", [v, sname],
                 M.calc_key(v, bytearray(pms), suite, b"master secret",
                            client_random=bytearray(cr),
                            server_random=bytearray(sr), output_length=48),
                 ref_prf(pms, b"master secret", cr + sr, 48))
            for ol in (0, 40, 104, 136):
                a.eq("calc_key-keyblock", [v, sname, ol],
                     M.calc_key(v, bytearray(ms), suite, b"key expansion",
                                client_random=bytearray(cr),
                                server_random=bytearray(sr),
                                output_length=ol),
                     ref_prf(ms, b"key expansion", sr + cr, ol))
            if v > (3, 0):
                if v < (3, 3):
                    sd = hashlib.md5(tr).digest() + hashlib.sha1(tr).digest()
                else:
                    sd = hashlib.new(h, tr).digest()
                a.eq("calc_key-ems", [v, sname],
                     M.calc_key(v, bytearray(pms), suite,
                                b"extended master secret",
                                handshake_hashes=hh, output_length=48),
                     ref_prf(pms, b"extended master secret", sd, 48))
                for lab in (b"client finished", b"server finished"):
                    a.eq("calc_key-finished", [v, sname, lab.decode()],
                         M.calc_key(v, bytearray(ms), suite, lab,
                                    handshake_hashes=hh, output_length=12),
                         ref_prf(ms, lab, sd, 12))
            else:
                for lab, sender in ((b"client finished", b"CLNT"),
                                    (b"server finished", b"SRVR")):
                    want = b""
                    for hn, npad in (("md5", 48), ("sha1", 40)):
                        inner = hashlib.new(hn, tr + sender + ms +
                                            b"\x36" * npad).digest()
                        want += hashlib.new(hn, ms + b"\x5c" * npad +
                                            inner).digest()
                    a.eq("calc_key-finished-ssl3", [lab.decode()],
                         M.calc_key(v, bytearray(ms), suite, lab,
                                    handshake_hashes=hh, output_length=36),
                         want)


def t_exporter(a, seed, tier):
    """keyingMaterialExporter of live connections vs the reference."""
    from .. import scen as S
    for v, suite in (((3, 1), CS.TLS_RSA_WITH_AES_128_CBC_SHA),
                     ((3, 2), CS.TLS_RSA_WITH_AES_128_CBC_SHA),
                     ((3, 3), CS.TLS_RSA_WITH_AES_128_GCM_SHA256),
                     ((3, 3), CS.TLS_RSA_WITH_AES_256_GCM_SHA384),
                     ((3, 4), CS.TLS_AES_128_GCM_SHA256),
                     ((3, 4), CS.TLS_AES_256_GCM_SHA384)):
        sc = S.scen_for_suite(v, suite)
        pair, out = S.connect(sc, seed=seed)
        if out["C"].status != "ok":
            a.eq("exporter-handshake", [v, suite], b"failed", b"ok")
            continue
        info = S.ALL_INFOS[suite]
        for label, ln in ((b"EXPERIMENTAL-verif", 24), (b"EXPORTER-x", 1),
                          (b"EXPORTER-long", 100)):
            got = pair.c.keyingMaterialExporter(bytearray(label), ln)
            cr, sr = bytes(pair.c._clientRandom), bytes(pair.c._serverRandom)
            ms = bytes(pair.c.session.masterSecret)
            if v < (3, 3):
                want = R.prf_tls10(ms, label, cr + sr, ln)
            elif v == (3, 3):
                want = R.prf_tls12(ms, label, cr + sr, ln, info.prf)
            else:
                ems = bytes(pair.c.session.exporterMasterSecret)
                sec = R.derive_secret(ems, label, None, info.prf)
                want = R.hkdf_expand_label(
                    sec, b"exporter", hashlib.new(info.prf, b"").digest(),
                    ln, info.prf)
            a.eq("exporter", [v, suite, label.decode(), ln], got, want)
            a.eq("exporter-both-ends", [v, suite, label.decode(), ln],
                 pair.s.keyingMaterialExporter(bytearray(label), ln), got)


def t_tls13_record_keys(a, seed, tier):
    """Record protection keys of TLS 1.3: calcTLS1_3PendingState and the
    KeyUpdate step (several generations), for every TLS 1.3 suite, against
    HKDF-Expand-Label with the hash in the suite's name; each derived state
    is also made to seal a record that the reference AEAD must open."""
    from .. import scen as S
    from tlslite.recordlayer import RecordLayer
    for sid in sorted(CS.tls13Suites):
        info = S.ALL_INFOS[sid]
        h = info.prf
        hl = 48 if h == "sha384" else 32
        kl = info.keylen // 8

        def ref_aead_seal(key, nonce, pt, aad):
            if info.mode == "GCM":
                return R.gcm_seal(key, nonce, pt, aad)
            if info.mode in ("CCM", "CCM_8"):
                return R.ccm_seal(key, nonce, pt, aad,
                                  8 if info.mode == "CCM_8" else 16)
            return R.chacha20poly1305_seal(key, nonce, pt, aad)

        def check_state(kind, case, state, secret):
            key = R.hkdf_expand_label(secret, b"key", b"", kl, h)
            iv = R.hkdf_expand_label(secret, b"iv", b"", 12, h)
            a.eq(kind + "-iv", case, state.fixedNonce, iv)
            nonce = bytes(iv)
            pt, aad = vals(33, seed, 2), vals(5, seed, 3)
            a.eq(kind + "-seal", case,
                 state.encContext.seal(bytearray(nonce), bytearray(pt),
                                       bytearray(aad)),
                 ref_aead_seal(key, nonce, pt, aad))
        cl, sr = vals(hl, seed, 3), vals(hl, seed, 4)
        rl = RecordLayer(None)
        rl.version = (3, 4)
        rl.calcTLS1_3PendingState(sid, bytearray(cl), bytearray(sr),
                                  ["python"])
        check_state("tls13-pending-client", [info.name],
                    rl._pendingWriteState if rl.client else
                    rl._pendingReadState, cl)
        check_state("tls13-pending-server", [info.name],
                    rl._pendingReadState if rl.client else
                    rl._pendingWriteState, sr)
        sec = bytes(cl)
        for gen in range(1, 4):
            new_sec, st = rl._calcTLS1_3KeyUpdate(sid, bytearray(sec))
            want = R.hkdf_expand_label(sec, b"traffic upd", b"", hl, h)
            a.eq("tls13-keyupdate-secret", [info.name, gen], new_sec, want)
            check_state("tls13-keyupdate", [info.name, gen], st, want)
            sec = want


def t_tls13_schedule_live(a, seed, tier):
    """Secrets of a live TLS 1.3 handshake against RFC 8446 section 7.1,
    computed from the master secret and the transcript the two ends really
    exchanged (captured message by message): application traffic secrets,
    exporter master secret (transcript ClientHello..server Finished) and
    resumption master secret (..client Finished), with and without client
    authentication and for both hashes."""
    from .. import scen as S
    from ..puppet import Puppet
    from ..world import SEAMS, Pair, World
    for (label, suite, ccred) in (
            ("sha256", CS.TLS_AES_128_GCM_SHA256, None),
            ("sha384", CS.TLS_AES_256_GCM_SHA384, None),
            ("sha256-clientauth", CS.TLS_AES_128_GCM_SHA256, "c_rsa"),
            ("sha384-clientauth", CS.TLS_AES_256_GCM_SHA384, "c_ecdsa"),
            ("chacha-clientauth", CS.TLS_CHACHA20_POLY1305_SHA256,
             "c_ed25519")):
        sc = S.Scen("c09/ks-" + label, version=(3, 4), suite=suite,
                    cred="rsa", client_cred=ccred, req_cert=bool(ccred),
                    cset={"certificate_compression_send": [],
                          "certificate_compression_receive": []},
                    sset={"certificate_compression_send": [],
                          "certificate_compression_receive": []})
        SEAMS.reset(seed, sc.name)
        pair = Pair(World())
        caps = {"C": [], "S": []}

        class AllCap(dict):
            def __init__(self, who):
                dict.__init__(self)
                self.who = who

            def get(self, i, default=None):
                who = self.who

                def f(d):
                    caps[who].append(bytes(d))
                    return None
                return ("mutate", f)
        pc = Puppet(pair.c, {})
        pc.script = AllCap("C")
        ps = Puppet(pair.s, {})
        ps.script = AllCap("S")
        SEAMS.current = "C"
        cg = sc.client_gen(pair.c)
        SEAMS.current = "S"
        sg = sc.server_gen(pair.s)
        SEAMS.current = "main"
        out = pair.handshake(cg, sg, max_steps=60000)
        if out["C"].status != "ok" or out["S"].status != "ok":
            a.eq("tls13-live-handshake", [label], b"failed", b"ok")
            continue
        info = S.ALL_INFOS[suite]
        h = info.prf
        hl = 48 if h == "sha384" else 32
        # handshake messages only (type byte in the known set), in order
        def is_hs(m, types):
            return len(m) >= 4 and m[0] in types and \
                int.from_bytes(m[1:4], "big") == len(m) - 4
        cmsgs = [m for m in caps["C"] if is_hs(m, (1, 11, 15, 20, 25))]
        smsgs = [m for m in caps["S"] if is_hs(m, (2, 8, 11, 13, 15, 20,
                                                   25))]
        ch = cmsgs[0]
        s_fin = [i for i, m in enumerate(smsgs) if m[0] == 20][0]
        upto_sfin = ch + b"".join(smsgs[:s_fin + 1])
        upto_cfin = upto_sfin + b"".join(cmsgs[1:])
        t_sfin = hashlib.new(h, upto_sfin).digest()
        t_cfin = hashlib.new(h, upto_cfin).digest()
        sess = pair.c.session
        master = bytes(sess.masterSecret)
        a.eq("tls13-live-c-ap-traffic", [label], sess.cl_app_secret,
             R.hkdf_expand_label(master, b"c ap traffic", t_sfin, hl, h))
        a.eq("tls13-live-s-ap-traffic", [label], sess.sr_app_secret,
             R.hkdf_expand_label(master, b"s ap traffic", t_sfin, hl, h))
        for who, ep in (("client", pair.c), ("server", pair.s)):
            a.eq("tls13-live-exporter-master", [label, who],
                 ep.session.exporterMasterSecret,
                 R.hkdf_expand_label(master, b"exp master", t_sfin, hl, h))
            a.eq("tls13-live-resumption-master", [label, who],
                 ep.session.resumptionMasterSecret,
                 R.hkdf_expand_label(master, b"res master", t_cfin, hl, h))


def t_tls12_master_live(a, seed, tier):
    """Master secret of a live SSLv3..TLS 1.2 handshake against RFC 5246 8.1
    / RFC 7627 4, computed from the premaster secret the client handed to its
    key derivation and the transcript really exchanged: with and without
    extended master secret, with and without client authentication (the
    session hash ends at ClientKeyExchange, CertificateVerify is not in
    it), RSA and ECDHE key exchange, both PRF hashes."""
    from .. import scen as S
    from ..puppet import Puppet
    from ..world import SEAMS, Pair, World
    cases = []
    for v in ((3, 1), (3, 2), (3, 3)):
        suites = [("rsa", CS.TLS_RSA_WITH_AES_128_CBC_SHA),
                  ("ecdhe", CS.TLS_ECDHE_RSA_WITH_AES_128_CBC_SHA)]
        if v == (3, 3):
            suites.append(("ecdhe-sha384",
                           CS.TLS_ECDHE_RSA_WITH_AES_256_GCM_SHA384))
        for (sn, suite) in suites:
            for ccred in (None, "c_rsa", "c_ecdsa"):
                for ems in (True, False):
                    cases.append((v, sn, suite, ccred, ems))
    for (v, sn, suite, ccred, ems) in cases:
        label = "%s/%s/%s/%s" % (S.VNAME[v], sn, ccred or "noauth",
                                 "ems" if ems else "noems")
        sc = S.Scen("c09/ms-" + label, version=v, suite=suite, cred="rsa",
                    client_cred=ccred, req_cert=bool(ccred),
                    cset={"useExtendedMasterSecret": ems})
        SEAMS.reset(seed, sc.name)
        pair = Pair(World())
        caps = []

        class AllCap(dict):
            def __init__(self, who):
                dict.__init__(self)
                self.who = who

            def get(self, i, default=None):
                who = self.who

                def f(d):
                    caps.append((who, bytes(d)))
                    return None
                return ("mutate", f)
        pc = Puppet(pair.c, {})
        pc.script = AllCap("C")
        ps = Puppet(pair.s, {})
        ps.script = AllCap("S")
        pms = {}
        orig_cf = pair.c._clientFinished

        def cf(premasterSecret, *args, **kw):
            pms["C"] = bytes(premasterSecret)
            return orig_cf(premasterSecret, *args, **kw)
        pair.c._clientFinished = cf
        SEAMS.current = "C"
        cg = sc.client_gen(pair.c)
        SEAMS.current = "S"
        sg = sc.server_gen(pair.s)
        SEAMS.current = "main"
        out = pair.handshake(cg, sg, max_steps=60000)
        if out["C"].status != "ok" or out["S"].status != "ok" or \
                "C" not in pms:
            a.eq("tls12-live-handshake", [label], b"failed", b"ok")
            continue

        def is_hs(m):
            return len(m) >= 4 and m[0] in (1, 2, 11, 12, 13, 14, 15, 16,
                                            20, 4, 22) and \
                int.from_bytes(m[1:4], "big") == len(m) - 4
        msgs = [m for (_, m) in caps if is_hs(m)]
        cke = [i for i, m in enumerate(msgs) if m[0] == 16][0]
        upto_cke = b"".join(msgs[:cke + 1])
        info = S.ALL_INFOS[suite]
        h = info.prf if v >= (3, 3) else None
        if v >= (3, 3):
            sh = hashlib.new(h, upto_cke).digest()

            def prf(sec, lab, sd, n):
                return R.prf_tls12(sec, lab, sd, n, h)
        else:
            sh = hashlib.md5(upto_cke).digest() + \
                hashlib.sha1(upto_cke).digest()

            def prf(sec, lab, sd, n):
                return R.prf_tls10(sec, lab, sd, n)
        if ems:
            want = prf(pms["C"], b"extended master secret", sh, 48)
        else:
            want = prf(pms["C"], b"master secret",
                       bytes(pair.c._clientRandom) +
                       bytes(pair.c._serverRandom), 48)
        a.eq("tls12-live-ems-negotiated", [label],
             bytes([bool(pair.c.extendedMasterSecret)]), bytes([ems]))
        for who, ep in (("client", pair.c), ("server", pair.s)):
            a.eq("tls12-live-master-secret", [label, who],
                 ep.session.masterSecret, want)


GROUPS = [t_block, t_cbc, t_stream, t_chacha_poly, t_hmac, t_prf, t_hkdf,
          t_calc_key, t_exporter, t_tls13_record_keys,
          t_tls13_schedule_live, t_tls12_master_live]


def run_group(item):
    gi, tier, seed = item
    a = Acc()
    GROUPS[gi](a, seed, tier)
    return a.n, a.fails, a.kinds


def cross_check_openssl(res, seed):
    """refcrypto itself against the openssl command line."""
    n = 0
    bad = []
    for i in range(12):
        d = vals(16 * (i + 1), seed, 3)
        k16, k32, k24 = vals(16, seed, 3), vals(32, seed, 4), vals(24, seed,
                                                                    3)
        iv = vals(16, seed, 2)
        for alg, key, ref in (("aes-128-cbc", k16, R.AES),
                              ("aes-256-cbc", k32, R.AES)):
            n += 1
            if R.openssl_enc(alg, key, iv, d) != R.cbc_encrypt(ref(key), iv,
                                                              d):
                bad.append(alg)
        n += 1
        if R.openssl_enc("des-ede3-cbc", k24, iv[:8], d) != R.cbc_encrypt(
                R.TripleDES(k24), iv[:8], d):
            bad.append("3des")
        n += 1
        if R.openssl_enc("rc4", k16, None, d, legacy=True) != R.rc4(k16, d):
            bad.append("rc4")
        n += 1
        if R.openssl_enc("aes-128-ctr", k16, iv, d) != R.xor(
                d, R.ctr_keystream(R.AES(k16), iv, len(d))):
            bad.append("ctr")
        n += 1
        if R.openssl_enc("chacha20", k32, bytes(4) + iv[:12], d) != \
                R.chacha20(k32, 0, iv[:12], d):
            bad.append("chacha20")
    return n, bad


def run(res, tier, seed):
    res.coverage["rule"] = (
        "per primitive the shape space is exhausted (every length in a "
        "range, every composition of a streaming input into 1-3 calls, "
        "AAD/plaintext length grid, counter carries, AAD length-encoding "
        "boundaries, every single-bit change for AEAD open) with values "
        "from a 5-pattern alphabet; each result compared with mc.refcrypto; "
        "distinct by (primitive, shape); non-trivial = length > 0")
    R.self_test()
    nref, bad = cross_check_openssl(res, seed)
    if bad:
        res.violation({"part": "reference-self-check", "what": bad},
                      {"bad": bad}, None)
    total = 0
    kinds = {}
    items = [(gi, tier, seed) for gi in range(len(GROUPS))]
    parts = pmap(run_group, items, chunksize=1) + \
        pmap(t_aead_one, [(i, tier, seed) for i in range(len(aead_list()))],
             chunksize=1)
    for (n, fails, kk) in parts:
        total += n
        res.count(n)
        for k, c in kk.items():
            kinds[k] = kinds.get(k, 0) + c
            res.outcome(("kind", k))
        for f in fails:
            res.violation({"part": "primitive", "kind": f["kind"]}, f,
                          {"part": "primitive", "case": f})
    res.sample({"kind": "aes128gcm-seal", "plaintext_len": 17, "aad_len": 5,
                "compared_with": "refcrypto.gcm_seal"})
    res.sample({"kind": "aes128-cbc-enc", "blocks": 3, "calls": [16, 0, 32]})
    res.section("primitives", evaluations=total, by_kind=kinds,
                reference_vs_openssl_cli=nref)
    res.coverage["distinct_nontrivial"] = total
    res.assumptions += [
        "values come from 5 patterns per shape, not from all 2^128 keys",
        "mc.refcrypto is trusted after self_test() (FIPS-197, SP800-38A/D, "
        "RFC 3610/7539/5869/8448 vectors) and the openssl CLI cross-check"]


def replay(case, seed):
    return {"note": "re-run ./check C09", "case": case}
