"""C04 - tampering with the handshake in flight cannot yield two endpoints
that disagree.

Deciding method: fault enumeration by an on-path attacker: the honest run of
each base scenario is recorded at record granularity; one MITM action per
execution - XOR masks at byte positions of every record of every flight,
whole-record drop / duplicate / swap, and semantic rewrites of the plaintext
hello messages (versions, suites, every extension, selections, downgrade
sentinel, HelloRetryRequest) - and the oracle 'never (both complete and
views differ); if both complete the negotiation equals the honest one';
plus FALLBACK_SCSV and downgrade-sentinel enforcement.
"""
import struct

from .. import world as W
from .. import scen as S
from .. import msgstruct
from ..core import pmap
from ..world import SEAMS, Pair, World
from tlslite.constants import CipherSuite as CS
from tlslite import errors as E

LEVEL = "fault_enumeration"

NEG_KEYS = ("version", "suite", "etm", "ems", "appProto", "serverName",
            "ticket", "resumed", "group")


def scenarios(tier):
    L = []

    def add(name, **kw):
        L.append(S.Scen("c04/" + name, **kw))
    rng = dict(minv=(3, 0), maxv=(3, 3), sminv=(3, 0), smaxv=(3, 3))
    wide = {"cipherNames": ["aes256gcm", "aes128gcm", "aes256", "aes128",
                            "3des", "rc4"],
            "macNames": ["sha", "sha256", "sha384", "aead", "md5"]}
    add("tls12-range-ecdhe-rsa", cred="rsa", cset=dict(wide),
        sset=dict(wide), ckw={"alpn": [b"h2", b"http/1.1"],
                              "serverName": "example.test"},
        skw={"alpn": [b"h2", b"http/1.1"]}, **rng)
    add("tls12-range-rsa-kex", cred="rsa",
        cset=dict(wide, keyExchangeNames=["rsa", "dhe_rsa"]),
        sset=dict(wide, keyExchangeNames=["rsa", "dhe_rsa"]), **rng)
    add("tls12-range-ecdsa", cred="ecdsa", cset=dict(wide), sset=dict(wide),
        **rng)
    add("tls11-max", cred="rsa", minv=(3, 0), maxv=(3, 2), sminv=(3, 0),
        smaxv=(3, 2), cset=dict(wide), sset=dict(wide))
    add("tls10-max-dhe", cred="rsa", minv=(3, 0), maxv=(3, 1), sminv=(3, 0),
        smaxv=(3, 1), cset=dict(wide, keyExchangeNames=["dhe_rsa", "rsa"]),
        sset=dict(wide, keyExchangeNames=["dhe_rsa", "rsa"]))
    add("ssl3-only", cred="rsa", version=(3, 0),
        suite=CS.TLS_RSA_WITH_AES_128_CBC_SHA)
    add("tls13-range", cred="rsa", minv=(3, 1), maxv=(3, 4), sminv=(3, 1),
        smaxv=(3, 4), ckw={"alpn": [b"h2", b"http/1.1"]},
        skw={"alpn": [b"http/1.1", b"h2"]})
    add("tls13-range-hrr", cred="rsa", minv=(3, 1), maxv=(3, 4),
        sminv=(3, 1), smaxv=(3, 4), cset={"keyShares": []})
    # the client's only key share is for a group that is not first in
    # anybody's preference: an induced retry would move the connection to
    # another group
    add("tls13-keyshare-p521", cred="rsa", minv=(3, 3), maxv=(3, 4),
        sminv=(3, 3), smaxv=(3, 4), cset={"keyShares": ["secp521r1"]})
    add("tls13-keyshare-ffdhe", cred="rsa", minv=(3, 3), maxv=(3, 4),
        sminv=(3, 3), smaxv=(3, 4), cset={"keyShares": ["ffdhe3072"]})
    add("tls13-range-ecdsa-clientauth", cred="ecdsa", client_cred="c_rsa",
        req_cert=True, minv=(3, 3), maxv=(3, 4), sminv=(3, 3), smaxv=(3, 4))
    add("tls13-psk", flavour="psk", cred="rsa", minv=(3, 3), maxv=(3, 4),
        sminv=(3, 3), smaxv=(3, 4))
    add("srp-range", flavour="srp", cred=None, minv=(3, 1), maxv=(3, 3),
        sminv=(3, 1), smaxv=(3, 3))
    add("anon-range", flavour="anon", cred=None, minv=(3, 0), maxv=(3, 3),
        sminv=(3, 0), smaxv=(3, 3))
    add("tls12-tickets", cred="rsa", tickets=True, **rng)
    # resumption flows: the attacked handshake is the second one
    add("tls12-id-resumed", cred="rsa", cache=True, **rng)
    add("tls12-ticket-resumed", cred="rsa", tickets=True, **rng)
    add("tls13-psk-resumed", cred="rsa", tickets=True, minv=(3, 3),
        maxv=(3, 4), sminv=(3, 3), smaxv=(3, 4))
    if tier == "thorough":
        add("tls12-range-dsa", cred="dsa", cset=dict(wide), sset=dict(wide),
            **rng)
    return L


def ticket_digest(conn):
    """What the client holds as resumption tickets after the handshake."""
    import hashlib
    s = conn.session
    if s is None:
        return None
    t = [bytes(x.ticket) for x in (s.tls_1_0_tickets or [])]
    if not t:
        return None
    return hashlib.sha256(b"|".join(t)).hexdigest()[:16]


def negotiated(v):
    return tuple(v.get(k) for k in NEG_KEYS)


def run_mitm(sc, seed, action):
    """action: None or (direction, record index, fn(record)->list of
    records)"""
    SEAMS.reset(seed, sc.name)
    w = World()
    hit = {"n": 0}
    rec_log = {"c2s": [], "s2c": []}

    def mk(direction):
        def f(pipe, i, rec):
            rec_log[direction].append(rec)
            if action is not None and action[0] == direction and \
                    action[1] == i:
                hit["n"] += 1
                return action[2](rec)
            return [rec]
        return f
    session = cache = None
    if sc.name.endswith("-resumed"):
        # an untouched first connection provides the session to resume
        cache = W.SessionCache() if sc.cache else None
        p0, o0 = S.connect(sc, seed=seed, reset=False, cache=cache)
        if o0["C"].status == "ok" and o0["S"].status == "ok":
            p0.write("S", b"x")
            p0.read("C", None, 1)
            session = p0.c.session
            p0.close("C")
            p0.read("S", None, 1)
        SEAMS.reset(seed + 1, sc.name)
    w.c2s.mitm = mk("c2s")
    w.s2c.mitm = mk("s2c")
    pair, out = S.connect(sc, world=w, seed=seed, reset=False,
                          session=session, cache=cache)
    return pair, out, rec_log, hit["n"]


def issued_ticket(rec_log):
    """The TLS <= 1.2 NewSessionTicket as the server sent it (from the
    attacker's tap, before any modification)."""
    import hashlib
    for r in rec_log["s2c"]:
        if r[0] == 22 and len(r) > 9 and r[5] == 4:
            body = r[5:]
            ln = int.from_bytes(body[1:4], "big")
            msg = body[4:4 + ln]
            if len(msg) >= 6:
                tl = int.from_bytes(msg[4:6], "big")
                return hashlib.sha256(bytes(msg[6:6 + tl])).hexdigest()[:16]
    return None


def judge(pair, out, honest_view, rec_log=None):
    fails = []
    c_ok = out["C"].status == "ok"
    s_ok = out["S"].status == "ok"
    sig = (c_ok, s_ok)
    if c_ok and s_ok:
        vc, vs = W.view(pair.c), W.view(pair.s)
        vc["ticket"] = honest_view.get("ticket")
        vc["resumed"] = bool(pair.c.resumed)
        vc["group"] = pair.c.ecdhCurve if pair.c.ecdhCurve is not None \
            else pair.s.ecdhCurve
        if rec_log is not None and tuple(pair.c.version) < (3, 4):
            issued = issued_ticket(rec_log)
            held = ticket_digest(pair.c)
            if issued is not None and held != issued and \
                    len(pair.c.session.tls_1_0_tickets or []) == 1:
                fails.append("both endpoints completed, the client holds "
                             "ticket %s, the server issued %s" % (held,
                                                                  issued))
            if issued is None and held is not None and \
                    honest_view.get("ticket") is None:
                fails.append("client holds a ticket the server never "
                             "issued")
        d = W.views_equal(vc, vs, keys=tuple(
            k for k in W.SHARED_VIEW_KEYS if not pair.c.resumed or k not in (
                "serverChain", "clientChain")))
        if d:
            fails.append("both endpoints completed with different views: "
                         "%r" % ([x[0] for x in d],))
        if negotiated(vc) != negotiated(honest_view):
            fails.append("both endpoints completed with negotiation %r, the "
                         "untampered run gives %r" % (negotiated(vc),
                                                      negotiated(
                                                          honest_view)))
    for who in ("C", "S"):
        o = out[who]
        # (which exception a rejecting endpoint raises is C08's subject)
        if o.status == "budget":
            fails.append("%s spins" % who)
    return sig, fails


# ---------------------------------------------------------------- rewrites
def split_hello(body):
    """(head bytes up to the extensions block, [(type, ext_body)])"""
    d = bytes(body)
    o = 4 + 2 + 32
    o += 1 + d[o]
    if d[0] == 1:
        o += 2 + int.from_bytes(d[o:o + 2], "big")
        o += 1 + d[o]
    else:
        o += 3
    head = d[:o]
    exts = []
    if o < len(d):
        e = d[o + 2:]
        i = 0
        while i + 4 <= len(e):
            t = int.from_bytes(e[i:i + 2], "big")
            ln = int.from_bytes(e[i + 2:i + 4], "big")
            exts.append((t, e[i + 4:i + 4 + ln]))
            i += 4 + ln
    return head, exts


def join_hello(head, exts, had_exts=True):
    out = bytes(head)
    if exts or had_exts:
        eb = b"".join(struct.pack(">HH", t, len(b)) + b for t, b in exts)
        out += struct.pack(">H", len(eb)) + eb
    return out[:1] + (len(out) - 4).to_bytes(3, "big") + out[4:]


def hello_rewrites(body):
    """Semantic rewrites of a ClientHello / ServerHello / HRR message.
    Yields (label, new message bytes)."""
    d = bytes(body)
    head, exts = split_hello(d)
    is_ch = d[0] == 1
    hrr = (not is_ch) and d[6:38] == bytes.fromhex(
        "cf21ad74e59a6111be1d8c021e65b891c2a211167abb8c5e079e09e2c8a8339c")
    # legacy version field
    for v in ((3, 3), (3, 2), (3, 1), (3, 0), (3, 4)):
        if bytes(v) != d[4:6]:
            h2 = bytearray(head)
            h2[4:6] = bytes(v)
            yield "legacy_version=%d.%d" % v, join_hello(h2, exts, bool(exts))
    # delete each extension, empty its body
    for i, (t, b) in enumerate(exts):
        yield "drop-ext-%d" % t, join_hello(head, exts[:i] + exts[i + 1:],
                                            True)
        if b:
            yield "empty-ext-%d" % t, join_hello(
                head, exts[:i] + [(t, b"")] + exts[i + 1:], True)
    if len(exts) > 1:
        yield "reverse-exts", join_hello(head, exts[::-1], True)
    if exts:
        yield "drop-all-exts", join_hello(head, [], False)
    if is_ch:
        o = 4 + 2 + 32
        o += 1 + d[o]
        n = int.from_bytes(d[o:o + 2], "big")
        suites = [d[o + 2 + i:o + 4 + i] for i in range(0, n, 2)]
        rest = head[o + 2 + n:]

        def with_suites(ss):
            h2 = head[:o] + struct.pack(">H", 2 * len(ss)) + b"".join(ss) + \
                rest
            return join_hello(h2, exts, bool(exts))
        real = [s for s in suites if s not in (b"\x00\xff", b"\x56\x00")]
        if len(real) > 1:
            yield "suites-drop-first", with_suites(suites[1:])
            yield "suites-only-last", with_suites([real[-1], b"\x00\xff"])
            yield "suites-reversed", with_suites(suites[::-1])
            yield "suites-only-weakest", with_suites(
                [s for s in real if s in (b"\x00\x05", b"\x00\x0a",
                                          b"\x00\x2f", b"\x00\x04")][:1] or
                [real[-1]])
        yield "suites-add-fallback-scsv", with_suites(suites + [b"\x56\x00"])
        # supported_versions: strip the highest
        for i, (t, b) in enumerate(exts):
            if t == 43 and len(b) >= 5:
                nb = bytes([len(b) - 3]) + b[3:]
                yield "versions-strip-highest", join_hello(
                    head, exts[:i] + [(t, nb)] + exts[i + 1:], True)
                yield "versions-only-lowest", join_hello(
                    head, exts[:i] + [(t, b"\x02" + b[-2:])] + exts[i + 1:],
                    True)
            if t == 10 and len(b) >= 6:
                yield "groups-drop-first", join_hello(
                    head, exts[:i] + [(t, struct.pack(">H", len(b) - 4) +
                                       b[4:])] + exts[i + 1:], True)
            if t == 13 and len(b) >= 6:
                yield "sigalgs-only-last", join_hello(
                    head, exts[:i] + [(t, b"\x00\x02" + b[-2:])] +
                    exts[i + 1:], True)
            if t == 16 and len(b) > 5:
                first_len = b[2]
                yield "alpn-drop-first", join_hello(
                    head, exts[:i] + [(t, struct.pack(
                        ">H", len(b) - 3 - first_len) + b[3 + first_len:])] +
                    exts[i + 1:], True)
            if t == 51 and len(b) > 2:
                yield "keyshare-empty", join_hello(
                    head, exts[:i] + [(t, b"\x00\x00")] + exts[i + 1:], True)
    else:
        o = 4 + 2 + 32
        o += 1 + d[o]
        # selected suite
        for alt in (b"\x00\x2f", b"\x00\x05", b"\x00\x9c", b"\xc0\x2f",
                    b"\x13\x01", b"\x13\x02", b"\x00\x35"):
            if alt != d[o:o + 2]:
                h2 = bytearray(head)
                h2[o:o + 2] = alt
                yield "suite=%s" % alt.hex(), join_hello(h2, exts,
                                                         bool(exts))
        # downgrade sentinel in random
        if not hrr:
            for lab, tail in (("sentinel-tls12", b"DOWNGRD\x01"),
                              ("sentinel-tls11", b"DOWNGRD\x00"),
                              ("sentinel-cleared", bytes(8))):
                h2 = bytearray(head)
                h2[6 + 24:6 + 32] = tail
                yield lab, join_hello(h2, exts, bool(exts))
        for i, (t, b) in enumerate(exts):
            if t == 43:
                for v in (b"\x03\x03", b"\x03\x02", b"\x03\x05"):
                    if v != b:
                        yield "selected_version=%s" % v.hex(), join_hello(
                            head, exts[:i] + [(t, v)] + exts[i + 1:], True)
            if t == 51 and len(b) >= 2:
                for g in (b"\x00\x17", b"\x00\x1d", b"\x00\x18"):
                    if g != b[:2]:
                        yield "keyshare-group=%s" % g.hex(), join_hello(
                            head, exts[:i] + [(t, g + b[2:])] + exts[i + 1:],
                            True)
            if t == 16:
                yield "alpn=other", join_hello(
                    head, exts[:i] + [(t, b"\x00\x09\x08http/1.1")
                                      if b"http/1.1" not in b else
                                      (t, b"\x00\x03\x02h2")] + exts[i + 1:],
                    True)


def case(item):
    idx, tier, seed = item
    sc = scenarios(tier)[idx]
    rec = {"scenario": sc.name, "n": 0, "fails": [], "sigs": set(),
           "both_ok": 0}
    pair, out, log, _ = run_mitm(sc, seed, None)
    if out["C"].status != "ok" or out["S"].status != "ok":
        rec["fails"].append(("honest", "honest run failed %r" % (out,)))
        return rec
    hv = W.view(pair.c)
    hv["ticket"] = ticket_digest(pair.c)
    hv["resumed"] = bool(pair.c.resumed)
    hv["group"] = pair.c.ecdhCurve if pair.c.ecdhCurve is not None else \
        pair.s.ecdhCurve
    rec["honest"] = negotiated(hv)
    if sc.name.endswith("-resumed") and not pair.c.resumed:
        rec["fails"].append(("honest", "harness: second connection of %s "
                             "was not resumed" % sc.name))
    actions = []
    for direction in ("c2s", "s2c"):
        recs = log[direction]
        for ri, r in enumerate(recs):
            # (a) byte masks
            if r[0] == 22 and r[5] in (1, 2, 11, 12, 13, 14, 16, 15, 4):
                # plaintext handshake record: field boundaries
                pos = set(range(0, 5))
                body = r[5:]
                o = 0
                while o + 4 <= len(body):
                    ln = int.from_bytes(body[o + 1:o + 4], "big")
                    msg = body[o:o + 4 + ln]
                    for f in msgstruct.describe(msg, sc.version):
                        pos.add(5 + o + f.off)
                        pos.add(5 + o + f.off + f.width - 1)
                    o += 4 + ln
                    if ln == 0 and o >= len(body):
                        break
                if tier == "thorough":
                    pos |= set(range(0, len(r), 3))
            else:
                pos = set([0, 1, 2, 3, 4, 5, len(r) // 2, len(r) - 1])
                if tier == "thorough":
                    pos |= set(range(5, len(r), 7))
            for p in sorted(pos):
                if p >= len(r):
                    continue
                for mask in ((0x01, 0x80) if tier == "quick" else
                             (0x01, 0x80, 0xff)):
                    def fn(rr, p=p, mask=mask):
                        b = bytearray(rr)
                        b[p] ^= mask
                        return [bytes(b)]
                    actions.append(("xor", "%s[%d][%d]^%02x" % (
                        direction, ri, p, mask), (direction, ri, fn),
                        p < 5))
            # (b) structural
            actions.append(("drop", "%s[%d]" % (direction, ri),
                            (direction, ri, lambda rr: []), False))
            actions.append(("dup", "%s[%d]" % (direction, ri),
                            (direction, ri, lambda rr: [rr, rr]), False))
            if ri + 1 < len(recs):
                nxt = recs[ri + 1]
                # swap with successor: deliver the honest successor first;
                # the real successor is then dropped when it shows up
                actions.append(("swap", "%s[%d]" % (direction, ri),
                                (direction, ri, lambda rr, nxt=nxt:
                                 [nxt, rr]), False))
            # (c) semantic rewrites of hello messages
            if r[0] == 22 and r[5] in (1, 2):
                body = r[5:]
                ln = int.from_bytes(body[1:4], "big")
                msg, tail = body[:4 + ln], body[4 + ln:]
                for (lab, nm) in hello_rewrites(msg):
                    def fn(rr, nm=nm, tail=tail):
                        nb = nm + tail
                        return [rr[:3] + struct.pack(">H", len(nb)) + nb]
                    actions.append(("rewrite", "%s[%d]:%s" % (direction, ri,
                                                              lab),
                                    (direction, ri, fn), False))
    for (kind, label, act, header_only) in actions:
        pair2, out2, log2, hit = run_mitm(sc, seed, act)
        if not hit:
            continue
        rec["n"] += 1
        sig, fails = judge(pair2, out2, hv, log2)
        rec["sigs"].add((kind, sig))
        if sig == (True, True):
            rec["both_ok"] += 1
        for f in fails:
            if len(rec["fails"]) < 40:
                rec["fails"].append((kind + ":" + label, f))
    rec["sigs"] = sorted(rec["sigs"], key=repr)
    return rec


def fallback_case(item):
    """FALLBACK_SCSV and downgrade sentinel without a MITM: a client that
    retries at a lower version against a server supporting a higher one."""
    cmax, smax, scsv, held, seed = item
    suite = None
    sess = cache = None
    if held:
        # the retrying client also offers the session of an earlier
        # connection (made at the best TLS <= 1.2 version both support,
        # with a suite that every version defines)
        suite = CS.TLS_RSA_WITH_AES_128_CBC_SHA
        first = S.Scen("c04/fallback-first", cred="rsa", suite=suite,
                       minv=(3, 0), maxv=min(smax, (3, 3)), sminv=(3, 0),
                       smaxv=smax, cache=True, etm=False,
                       cset={"useExtendedMasterSecret": False})
        p0, o0 = S.connect(first, seed=seed)
        if o0["C"].status != "ok" or o0["S"].status != "ok":
            return (cmax, smax, scsv, held), ("first-failed",), [
                "first connection failed: %r" % (o0,)]
        sess, cache = p0.c.session, p0.cache
        p0.close("C")
        p0.read("S", None, 1)
        p0.close("S")
    sc = S.Scen("c04/fallback", cred="rsa", minv=(3, 0), maxv=cmax,
                sminv=(3, 0), smaxv=smax, suite=suite, etm=not held,
                cset={"sendFallbackSCSV": scsv,
                      "useExtendedMasterSecret": not held})
    pair, out = S.connect(sc, seed=seed + 1, session=sess, cache=cache)
    fails = []
    key = (cmax, smax, scsv, held)
    if held:
        # restricted to a TLS <= 1.2 suite the client does not offer TLS 1.3
        cmax = min(cmax, (3, 3))
    c_ok = out["C"].status == "ok"
    s_ok = out["S"].status == "ok"
    if scsv and cmax < smax:
        e = out["S"].exc
        if s_ok or c_ok:
            fails.append("fallback retry at %r accepted by a server "
                         "supporting %r" % (cmax, smax))
        elif not (isinstance(e, E.TLSLocalAlert) and e.description == 86):
            fails.append("server answered a fallback retry with %r" % (e,))
    else:
        if not (c_ok and s_ok):
            fails.append("honest connection failed: %r" % (out,))
        elif tuple(pair.c.version) != min(cmax, smax) and not (
                held and pair.c.resumed and
                tuple(pair.c.version) <= min(cmax, smax)):
            fails.append("negotiated %r" % (pair.c.version,))
    return key, (c_ok, s_ok), fails


SENTINELS = {"tls12": b"DOWNGRD\x01", "tls11": b"DOWNGRD\x00", "none": None}


def sentinel_case(item):
    """Downgrade sentinel, client side: a server whose highest version is v
    answers a client whose highest version is cmax; the attacker writes a
    sentinel (or nothing) into the last 8 bytes of ServerHello.random.
    RFC 8446 4.1.3: a TLS 1.3 client MUST abort on either value when TLS 1.2
    or below is negotiated; a TLS 1.2 client on DOWNGRD\\x00 below TLS 1.2.
    Server side: the honest ServerHello of a server that supports more than
    it negotiates carries the sentinel."""
    from ..puppet import Tap
    kind, cmax, v, tail, seed = item
    fails = []
    if kind in ("server", "server-resumed"):
        smax = tail
        sc = S.Scen("c04/sentinel-server" + (
            "-resumed" if kind == "server-resumed" else ""), cred="rsa",
            minv=(3, 0), maxv=v, sminv=(3, 0), smaxv=smax, cache=True)
        pair, out, log, _ = run_mitm(sc, seed, None)
        if kind == "server-resumed" and not (
                out["C"].status == "ok" and pair.c.resumed):
            return item[:4], ("not-resumed",), []
        ok = out["C"].status == "ok" and out["S"].status == "ok"
        if not ok:
            return item[:4], ("honest-failed",), ["honest run failed: %r" %
                                                  (out,)]
        sh = log["s2c"][0]
        got = bytes(sh[5 + 4 + 2 + 24:5 + 4 + 2 + 32])
        want = None
        if v <= (3, 3) and smax >= (3, 4):
            want = b"DOWNGRD\x01" if v == (3, 3) else b"DOWNGRD\x00"
        elif v < (3, 3) and smax == (3, 3):
            want = b"DOWNGRD\x00"
        if want is not None and got != want:
            fails.append("server supporting %r negotiated %r without the "
                         "downgrade sentinel (random tail %s)" % (
                             smax, v, got.hex()))
        if want is None and got in (b"DOWNGRD\x01", b"DOWNGRD\x00"):
            fails.append("server set a downgrade sentinel at its own "
                         "highest version")
        return item[:4], (kind, want is not None), fails
    sc = S.Scen("c04/sentinel", cred="rsa", minv=(3, 0), maxv=cmax,
                sminv=(3, 0), smaxv=v)
    tb = SENTINELS[tail]

    def fn(rr):
        if tb is None:
            return [rr]
        b = bytearray(rr)
        b[5 + 4 + 2 + 24:5 + 4 + 2 + 32] = tb
        return [bytes(b)]
    SEAMS.reset(seed, sc.name)
    w = World()
    hit = {"n": 0}

    def mitm(pipe, i, rec):
        if i == 0:
            hit["n"] += 1
            return fn(rec)
        return [rec]
    w.s2c.mitm = mitm
    pair = W.Pair(w)
    tap = Tap(pair.c)
    pair, out = S.connect(sc, world=w, seed=seed, reset=False, pair=pair)
    must_abort = tb is not None and (
        (cmax >= (3, 4) and v <= (3, 3)) or
        (cmax == (3, 3) and v < (3, 3) and tb == b"DOWNGRD\x00"))
    co = out["C"]
    after_sh = []
    seen_sh = False
    for (k, tok) in tap.log:
        if k == "recv" and tok == "SH":
            seen_sh = True
        elif k == "send" and seen_sh and tok != "ALERT":
            after_sh.append(tok)
    sig = ("client", must_abort, co.sig()[:3], bool(after_sh))
    if must_abort:
        e = co.exc
        if co.status == "ok":
            fails.append("client (max %r) completed a %r handshake whose "
                         "ServerHello carries %r" % (cmax, v, tb))
        elif not (isinstance(e, E.TLSLocalAlert) and e.description == 47):
            fails.append("client (max %r) did not answer the sentinel %r at "
                         "%r with illegal_parameter: %r" % (cmax, tb, v, co))
        if after_sh:
            fails.append("client (max %r) went on with the handshake (%r) "
                         "after a ServerHello carrying %r at %r" % (
                             cmax, after_sh, tb, v))
    elif tb is None:
        if not (co.status == "ok" and out["S"].status == "ok"):
            fails.append("untouched handshake failed: %r" % (out,))
    return item[:4], sig, fails


def run(res, tier, seed):
    res.coverage["rule"] = (
        "per base scenario (both ends support more than what is finally "
        "negotiated): one MITM action per execution from {XOR 0x01/0x80 "
        "(/0xff) at every field boundary byte of every plaintext handshake "
        "record and at header/first/middle/last bytes of every other record, "
        "drop / duplicate / swap of every record, semantic rewrites of "
        "ClientHello / ServerHello / HelloRetryRequest (legacy version, "
        "each extension dropped or emptied, suites, supported_versions, "
        "groups, sigalgs, ALPN, key_share, selected suite/version/group, "
        "downgrade sentinels)}; FALLBACK_SCSV matrix; distinct by (scenario, "
        "action)")
    scs = scenarios(tier)
    n = 0
    both = 0
    for rec in pmap(case, [(i, tier, seed) for i in range(len(scs))],
                    chunksize=1):
        n += rec["n"]
        both += rec["both_ok"]
        res.count(rec["n"])
        for s in rec["sigs"]:
            res.outcome(tuple(s))
        for (lab, f) in rec["fails"]:
            res.violation({"scenario": rec["scenario"],
                           "action": lab.split(":")[0], "what": f[:50]},
                          {"scenario": rec["scenario"], "action": lab,
                           "fail": f},
                          {"scenario": rec["scenario"], "action": lab})
        if len(res.coverage["samples"]) < 3:
            res.sample({"scenario": rec["scenario"],
                        "honest_negotiation": rec.get("honest"),
                        "executions": rec["n"],
                        "both_completed_unchanged": rec["both_ok"]})
    res.section("mitm", scenarios=len(scs), executions=n,
                both_completed_with_honest_negotiation=both)
    items = []
    for cmax in S.VERSIONS:
        for smax in S.VERSIONS:
            for scsv in (False, True):
                for held in (False, True):
                    items.append((cmax, smax, scsv, held, seed))
    nf = 0
    for (k, sig, fails) in pmap(fallback_case, items):
        nf += 1
        res.count()
        res.outcome(("fallback", k[2], k[3], k[0] < k[1], sig))
        for f in fails:
            res.violation({"part": "fallback", "what": f[:40]},
                          {"case": k, "fail": f}, {"fallback": k})
    res.section("fallback_scsv", cases=nf)
    sitems = []
    for cmax in S.VERSIONS:
        for v in S.VERSIONS:
            if v > cmax or v > (3, 3):
                continue
            for tail in ("tls12", "tls11", "none"):
                sitems.append(("client", cmax, v, tail, seed))
    for smax in S.VERSIONS:
        for v in S.VERSIONS:
            if v <= smax:
                sitems.append(("server", None, v, smax, seed))
                if v <= (3, 3):
                    sitems.append(("server-resumed", None, v, smax, seed))
    ns = 0
    for (k, sig, fails) in pmap(sentinel_case, sitems):
        ns += 1
        res.count()
        res.outcome(("sentinel",) + tuple(sig))
        for f in fails:
            res.violation({"part": "sentinel", "what": f[:40]},
                          {"case": k, "fail": f}, {"sentinel": k})
    res.section("downgrade_sentinel", cases=ns)
    nf += ns
    res.coverage["distinct_nontrivial"] = n + nf
    res.assumptions.append("changes to the header of plaintext records and "
                           "other modifications that leave the handshake "
                           "content intact may let both sides complete, as "
                           "long as the views equal the honest ones")


def replay(case_, seed):
    return {"note": "re-run ./check C04", "case": case_}
