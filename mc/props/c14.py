"""C14 - results do not depend on how the transport chunks, delays or
blocks.

Deciding method: deviation-bounded stateless exploration of the real code
under a scripted socket: every recv()/send() of both endpoints is a decision
point (deliver all / 1 / 2 / half / would-block; accept all / 1 / half /
would-block); all executions with <= 1 (quick) / <= 2 (thorough) deviations
from the benign default are run to completion and must give the observation
of the unconstrained run.  Plus zero-deviation *regimes* (1-byte reads,
would-block before every call, 1-byte sends) under three stepping orders,
the blocking API, and record re-framing of handshake flights by a MITM.
"""
from .. import world as W
from .. import scen as S
from .. import progs
from .. import explore
from ..core import pmap
from ..world import RECV_ALTS, SEND_ALTS

LEVEL = "model_checking"

NRECV, NSEND = 5, 4      # all/one/two/half/block ; all/one/half/block


def allowed(point, alt):
    kind, who, info, nalts = point
    if kind == "recv":
        n, avail = info
        if avail == 0:
            return False          # every answer is "would block" anyway
        k0 = min(n, avail)
        name = RECV_ALTS[alt]
        if name == "one":
            return k0 > 1
        if name == "two":
            return k0 > 2
        if name == "half":
            return k0 // 2 not in (0, 1, 2, k0) or (k0 // 2 > 2)
        return True               # block
    ln = info
    name = SEND_ALTS[alt]
    if name == "one":
        return ln > 1
    if name == "half":
        return ln // 2 > 1
    return True


def scenarios(tier):
    return S.flavours("quick" if tier == "quick" else "thorough")


def make_run(arg):
    idx, tier, seed = arg
    sc = scenarios(tier)[idx]

    def run_fn(choices):
        points, obs = progs.run_session(sc, seed, choices, recv_alts=NRECV,
                                        send_alts=NSEND)
        return points, progs.public(obs)
    return run_fn


def describe(points_dev, choices):
    out = []
    for (i, p) in zip(sorted(choices), points_dev):
        kind, who, info, nalts = p
        names = RECV_ALTS if kind == "recv" else SEND_ALTS
        out.append({"point": i, "kind": kind, "who": who, "info": info,
                    "answer": names[choices[i]]})
    return out


def diff_obs(base, obs):
    d = []
    for who in ("C", "S"):
        for k in ("outcome", "closed", "resumable", "log"):
            if base[who][k] != obs[who][k]:
                d.append((who, k, repr(base[who][k])[:300],
                          repr(obs[who][k])[:300]))
    return d


# ---------------------------------------------------------------- regimes
def regime_fn(name):
    state = {}

    def one_byte(p):
        idx, kind, who, info, nalts = p
        return 1 if kind == "recv" else 0

    def two_byte(p):
        idx, kind, who, info, nalts = p
        return 2 if kind == "recv" else 0

    def block_first(p):
        idx, kind, who, info, nalts = p
        key = (kind, who)
        state[key] = not state.get(key, False)
        if kind == "sendall":
            return 0
        if state[key]:
            return 4 if kind == "recv" else 3
        return 0

    def send_one(p):
        idx, kind, who, info, nalts = p
        return 1 if kind == "send" else 0

    def send_half_recv_half(p):
        idx, kind, who, info, nalts = p
        if kind == "recv":
            return 3
        return 2 if kind == "send" else 0
    return {"recv1": one_byte, "recv2": two_byte, "blockfirst": block_first,
            "send1": send_one, "halves": send_half_recv_half}[name]


ORDERS = {"client-first": None,
          "server-first": lambda live: list(reversed(live)),
          }


def regime_case(item):
    idx, tier, seed, rname, oname = item
    sc = scenarios(tier)[idx]
    _, base = progs.run_session(sc, seed)
    base = progs.public(base)
    order = ORDERS[oname]
    if oname == "alternate":
        pass
    _, obs = progs.run_session(sc, seed, regime=regime_fn(rname),
                               recv_alts=NRECV, send_alts=NSEND, order=order)
    obs = progs.public(obs)
    return sc.name, rname, oname, diff_obs(base, obs), base["C"]["outcome"]


# ---------------------------------------------------------------- record size
RECSIZES = [1, 2, 3, 4, 5, 6, 7, 8, 12, 13, 16, 24, 32, 36, 37, 40, 48, 64,
            100, 128, 300, 1024]
RECSIZE_SCENS = ["SSLv3-RSA", "TLS1.0-DHE_RSA", "TLS1.2-ECDHE_RSA-GCM",
                 "TLS1.2-RSA-clientauth", "TLS1.3-RSA",
                 "TLS1.3-RSA-clientauth", "TLS1.3-HRR"]


def recsize_case(item):
    """The sender cuts everything it sends (handshake flights included)
    into records of at most n bytes (conn.recordSize): the session must be
    what it is with the default size."""
    sname, size, side, seed = item
    sc = [s for s in S.flavours("thorough") if s.name == sname][0]
    _, base = progs.run_session(sc, seed)
    base = progs.public(base)

    def hook(w, pair):
        if side in ("C", "both"):
            pair.c.recordSize = size
        if side in ("S", "both"):
            pair.s.recordSize = size
    _, obs = progs.run_session(sc, seed, world_hook=hook,
                               opts={"max_steps": 3000000})
    obs = progs.public(obs)
    d = []
    for who in ("C", "S"):
        for k in ("outcome", "closed", "resumable"):
            if base[who][k] != obs[who][k]:
                d.append((who, k, repr(base[who][k])[:200],
                          repr(obs[who][k])[:200]))
        lb = [(e[0], e[1]) if e[0] != "hs" else ("hs", e[2].get("version"),
                                                 e[2].get("suite"))
              for e in base[who]["log"]]
        lo = [(e[0], e[1]) if e[0] != "hs" else ("hs", e[2].get("version"),
                                                 e[2].get("suite"))
              for e in obs[who]["log"]]
        if lb != lo:
            d.append((who, "log", repr(lb)[:200], repr(lo)[:200]))
    return sname, size, side, d, base["C"]["outcome"]


# ---------------------------------------------------------------- blocking
class BlockingSock(object):
    """Blocking-mode view of a MemSock: recv() steps the peer until bytes
    exist; send never blocks."""

    def __init__(self, inner, world, peer_task):
        self.inner = inner
        self.world = world
        self.peer = peer_task

    def _step_peer(self):
        t = self.peer
        if t.outcome is not None:
            return False
        W.SEAMS.current, save = t.who, W.SEAMS.current
        try:
            t.last = next(t.gen)
        except StopIteration:
            t.outcome = W.Outcome("ok")
        except BaseException as e:  # noqa
            t.outcome = W.Outcome("exc", exc=e)
        finally:
            W.SEAMS.current = save
        return True

    def recv(self, n):
        idle = 0
        while True:
            try:
                return self.inner.recv(n)
            except OSError as e:
                import errno
                if e.args[0] != errno.EWOULDBLOCK:
                    raise
            before = self.world.activity
            if not self._step_peer():
                # peer finished and nothing buffered: a blocking recv would
                # hang; report as EOF to terminate the execution
                return b""
            idle = idle + 1 if self.world.activity == before else 0
            if idle > 50:
                raise RuntimeError("blocking recv would hang")

    def send(self, data):
        return self.inner.send(data)

    def sendall(self, data):
        return self.inner.sendall(data)

    def close(self):
        return self.inner.close()

    def __getattr__(self, name):
        return getattr(self.inner, name)


def blocking_case(item):
    idx, tier, seed, role = item
    sc = scenarios(tier)[idx]
    _, base = progs.run_session(sc, seed)
    base = progs.public(base)
    W.SEAMS.reset(seed, sc.name)
    w = W.World()
    clog, slog = [], []
    opts = {}
    if role == "C":
        # client uses the blocking calls; server is a generator
        from tlslite.api import TLSConnection
        s = TLSConnection(w.ssock)
        W.SEAMS.current = "S"
        st = W.Task("S", progs.server_prog(s, sc, slog, opts))
        bs = BlockingSock(w.csock, w, st)
        c = TLSConnection(bs)
        W.SEAMS.current = "C"
        me, peer, mylog, prog = c, s, clog, progs.client_prog
    else:
        from tlslite.api import TLSConnection
        c = TLSConnection(w.csock)
        W.SEAMS.current = "C"
        st = W.Task("C", progs.client_prog(c, sc, clog, opts))
        bs = BlockingSock(w.ssock, w, st)
        s = TLSConnection(bs)
        W.SEAMS.current = "S"
        me, peer, mylog, prog = s, c, slog, progs.server_prog
    # run my program to completion like the blocking API does: the library's
    # blocking calls are exactly "for result in generator: pass"
    out_me = None
    W.SEAMS.current = role
    try:
        for _ in prog(me, sc, mylog, opts):
            pass
        out_me = W.Outcome("ok")
    except BaseException as e:  # noqa
        out_me = W.Outcome("exc", exc=e)
    W.SEAMS.current = "main"
    # let the peer finish
    res = W.run_tasks(w, [st])
    obs = {role: progs.observe(me, mylog, out_me),
           st.who: progs.observe(peer, slog if role == "C" else clog,
                                 st.outcome)}
    return sc.name, role, diff_obs(base, obs)


# ---------------------------------------------------------------- ASM
def asm_case(item):
    """Both endpoints driven through integration.AsyncStateMachine by
    wantsReadEvent / wantsWriteEvent, under a transport regime."""
    idx, tier, seed, rname = item[:4]
    if len(item) > 4 and item[4] == "big":
        # messages of more than one full record (the state machine reads
        # with max=16384: a full record fills that exactly)
        saved = (progs.MSG1, progs.MSG2, progs.MSG3)
        progs.MSG1 = bytes((i * 5 + 1) & 0xff for i in range(2 ** 14 + 50))
        progs.MSG2 = bytes((i * 3 + 2) & 0xff for i in range(2 ** 14))
        progs.MSG3 = bytes((i * 7 + 3) & 0xff for i in range(3 * 2 ** 14 + 9))
        try:
            name, rn, d = asm_case(item[:4])
        finally:
            progs.MSG1, progs.MSG2, progs.MSG3 = saved
        return name, (rn or "") + "+big", d
    from tlslite.integration.asyncstatemachine import AsyncStateMachine
    from tlslite.api import TLSConnection
    sc = scenarios(tier)[idx]
    _, base = progs.run_session(sc, seed)
    base = progs.public(base)

    class Mach(AsyncStateMachine):
        def __init__(self, who, conn, plan):
            AsyncStateMachine.__init__(self)
            self.who = who
            self.tlsConnection = conn
            self.plan = list(plan)
            self.log = []
            self.rbuf = b""
            self.eof = False
            self.exc = None

        def outConnectEvent(self):
            self.log.append(("hs", "ok", W.view(self.tlsConnection)))

        def outReadEvent(self, buf):
            if not buf:
                self.eof = True
            self.rbuf += bytes(buf)

        def outCloseEvent(self):
            self.log.append(("close", "ok"))

    W.SEAMS.reset(seed, sc.name)
    select_mode = rname == "select"
    script = W.Script(None, regime_fn(rname) if rname and not select_mode
                      else None)
    w = W.World(script, recv_alts=NRECV, send_alts=NSEND)
    pair = W.Pair(w)

    def readable(m):
        # what select() would say about the transport
        sock = w.csock if m.who == "C" else w.ssock
        return bool(sock.rx.buf) or sock.rx.eof
    W.SEAMS.current = "C"
    cm = Mach("C", pair.c, [("hs", sc.client_gen(pair.c)),
                            ("write", progs.MSG1),
                            ("read", len(progs.MSG2), "read"),
                            ("write", progs.MSG3), ("close",)])
    W.SEAMS.current = "S"
    sm = Mach("S", pair.s, [("hs", sc.server_gen(pair.s)),
                            ("read", len(progs.MSG1), "read"),
                            ("write", progs.MSG2),
                            ("read", len(progs.MSG3), "read"),
                            ("read-eof",), ("close",)])
    W.SEAMS.current = "main"
    idle = 0
    for _ in range(200000):
        before = w.activity
        changed = False
        got_before = len(cm.rbuf) + len(sm.rbuf)
        for m in (cm, sm):
            if m.exc is not None:
                continue
            W.SEAMS.current = m.who
            try:
                if m.wantsReadEvent():
                    m.inReadEvent()
                elif m.wantsWriteEvent():
                    m.inWriteEvent()
                elif m.plan:
                    st = m.plan[0]
                    if st[0] == "hs":
                        m.plan.pop(0)
                        m.setHandshakeOp(st[1])
                        changed = True
                    elif st[0] == "write":
                        m.plan.pop(0)
                        m.setWriteOp(st[1])
                        m.log.append(("write", len(st[1])))
                        changed = True
                    elif st[0] == "read":
                        if len(m.rbuf) >= st[1]:
                            m.log.append((st[2], m.rbuf[:st[1]]))
                            m.rbuf = m.rbuf[st[1]:]
                            m.plan.pop(0)
                            changed = True
                        elif m.eof:
                            m.log.append((st[2], m.rbuf))
                            m.plan = [("close",)]
                            changed = True
                        elif not select_mode or readable(m):
                            m.inReadEvent()
                    elif st[0] == "read-eof":
                        if m.eof:
                            m.log.append(("read-eof", m.rbuf))
                            m.plan.pop(0)
                            changed = True
                        elif not select_mode or readable(m):
                            m.inReadEvent()
                    elif st[0] == "close":
                        m.plan.pop(0)
                        if m.tlsConnection.closed:
                            m.log.append(("close", "ok"))
                        else:
                            m.setCloseOp()
                        changed = True
            except BaseException as e:  # noqa
                m.exc = e
                changed = True
            finally:
                W.SEAMS.current = "main"
        done = all((not m.plan and m.result is None) or m.exc is not None
                   for m in (cm, sm))
        if done:
            break
        if len(cm.rbuf) + len(sm.rbuf) != got_before:
            changed = True      # (records served from the read-ahead buffer)
        total = len(progs.MSG1) + len(progs.MSG2) + len(progs.MSG3)
        if len(cm.rbuf) + len(sm.rbuf) > 4 * total + 4096:
            # more bytes delivered than were ever written: stop here
            for m in (cm, sm):
                if len(m.rbuf) > 2 * total:
                    m.exc = RuntimeError(
                        "%d bytes delivered to the reader, more than were "
                        "written" % len(m.rbuf))
                    m.rbuf = m.rbuf[:64]
            break
        if w.activity == before and not changed:
            idle += 1
            if idle > 5:
                break
        else:
            idle = 0
    obs = {}
    for m in (cm, sm):
        out = W.Outcome("exc", exc=m.exc) if m.exc is not None else (
            W.Outcome("ok") if not m.plan else W.Outcome("stall"))
        obs[m.who] = progs.observe(m.tlsConnection, m.log, out)
    return sc.name, rname, diff_obs(base, obs)


def first_result_case(item):
    """The documented way to use the *Async generators: resume until the
    first result that is not 0 / 1, then drop the generator.  A stream read
    in pieces of k bytes that way equals the stream read with blocking
    calls, whatever the record and piece sizes."""
    idx, tier, seed, k, n = item
    sc = scenarios(tier)[idx]
    pair, out = S.connect(sc, seed=seed)
    if out["C"].status != "ok" or out["S"].status != "ok":
        return sc.name, k, n, ["handshake failed"]
    data = bytes((i * 11 + 5) & 0xff for i in range(n))
    fails = []
    for (src, dst) in (("C", "S"), ("S", "C")):
        w = pair.write(src, data)
        if w.status != "ok":
            fails.append("write %s: %r" % (src, w.sig()))
            continue
        ep = pair.ep(dst)
        got = b""
        for _ in range(4 * n + 50):
            if len(got) >= n:
                break
            W.SEAMS.current = dst
            gen = ep.readAsync(max=k, min=1)
            res_ = None
            try:
                for r in gen:
                    if r in (0, 1):
                        # nothing can arrive: the writer is done
                        res_ = None
                        break
                    res_ = r
                    break       # first real result: stop, drop generator
            except BaseException as e:  # noqa
                fails.append("%s readAsync raised %s" % (dst,
                                                         type(e).__name__))
                break
            finally:
                W.SEAMS.current = "main"
            if res_ is None:
                fails.append("%s: would block with %d of %d bytes read" % (
                    dst, len(got), n))
                break
            if len(res_) > k:
                fails.append("%s: read returned %d bytes for max=%d" % (
                    dst, len(res_), k))
            got += bytes(res_)
        if got != data and not fails:
            fails.append("%s: stream read through first results differs "
                         "from the bytes written (%d read, %d written, "
                         "first difference at %d)" % (
                             dst, len(got), n,
                             next((i for i in range(min(len(got), n))
                                   if got[i] != data[i]), min(len(got), n))))
    return sc.name, k, n, fails


# ---------------------------------------------------------------- reframing
def plain_hs_prefix_len(records):
    """Number of leading records that are plaintext handshake records and may
    be re-framed (stop at the first CCS / non-handshake record; in TLS 1.3
    encrypted records have outer type 23)."""
    n = 0
    for r in records:
        if r[0] != 22:
            break
        n += 1
    return n


HRR_RANDOM = bytes.fromhex("cf21ad74e59a6111be1d8c021e65b891"
                           "c2a211167abb8c5e079e09e2c8a8339c")


def reframe_case(item):
    idx, tier, seed, direction, mode, param = item
    sc = scenarios(tier)[idx]
    _, base = progs.run_session(sc, seed)
    base_pub = progs.public(base)
    tls13 = sc.version >= (3, 4)

    def install(w):
        pipe = w.c2s if direction == "c2s" else w.s2c
        st = {"plain": True, "held": None, "n": 0}

        def mitm(p, i, rec):
            if rec[0] != 22 or not st["plain"]:
                st["plain"] = False
                out = []
                if st["held"] is not None:
                    out.append(st["held"])
                    st["held"] = None
                return out + [rec]
            if tls13 and st["n"] >= (2 if direction == "c2s" else 2):
                # only the hellos are plaintext in TLS 1.3
                pass
            st["n"] += 1
            hdr, body = rec[:3], rec[5:]
            if mode == "coalesce":
                # merge the plaintext handshake records of one flight into
                # a single record (what most other stacks send)
                acc = (st["held"][5:] if st["held"] is not None else b"") + \
                    body
                last = body[-4:] == b"\x0e\x00\x00\x00" or body[:1] in (
                    b"\x01", b"\x00") or (
                        body[:1] == b"\x02" and (tls13 or HRR_RANDOM in body))
                merged = hdr + len(acc).to_bytes(2, "big") + acc
                if last or len(acc) > 12000:
                    st["held"] = None
                    return [merged]
                st["held"] = merged
                return []

            def mk(b):
                return hdr + len(b).to_bytes(2, "big") + b
            if mode == "split":
                k = param
                if 0 < k < len(body):
                    return [mk(body[:k]), mk(body[k:])]
                return [rec]
            if mode == "bytes":
                return [mk(body[j:j + 1]) for j in range(len(body))]
            if mode == "chunks":
                return [mk(body[j:j + param])
                        for j in range(0, len(body), param)]
            return [rec]
        pipe.mitm = mitm
    _, obs = progs.run_session(sc, seed, mitm=install)
    return sc.name, direction, mode, param, diff_obs(base_pub,
                                                     progs.public(obs))


def sendall_blocked(devs):
    return any(d["kind"] == "sendall" and d["answer"] != "all" for d in devs)


def run(res, tier, seed):
    res.coverage["rule"] = (
        "every complete execution (handshake, 3-message data exchange, "
        "close) of every handshake flavour with <=d deviations (d=1 quick, "
        "2 thorough) from the default socket answers at any recv/send of "
        "either endpoint; zero-deviation regimes x stepping orders; blocking "
        "API in either role; re-framing of plaintext handshake records; "
        "distinct by (scenario, deviation set); non-trivial = the deviation "
        "changes how many bytes the call moves")
    scs = scenarios(tier)
    bound = 1
    total = 0
    states = 0
    b2 = []
    if tier == "thorough":
        names = [s.name for s in scs]
        b2 = [names.index(n) for n in ("TLS1.2-ECDHE_RSA-GCM", "TLS1.3-RSA",
                                       "TLS1.0-RSA", "TLS1.3-HRR")
              if n in names]
    for idx, sc in enumerate(scs):
        bnd = 2 if idx in b2 else bound
        points, base, results = explore.explore_parallel(
            make_run, (idx, tier, seed), bnd, allowed)
        if base["C"]["outcome"] != ("ok",) or base["S"]["outcome"] != \
                ("ok",):
            res.violation({"part": "baseline", "scenario": sc.name},
                          {"obs": base}, {"part": "baseline",
                                          "scenario": sc.name})
            continue
        states += len(points)
        res.outcome(("base", sc.name, len(points)))
        for (choices, pdev, obs) in results:
            total += 1
            res.count()
            devs = describe(pdev, choices)
            d = diff_obs(base, obs)
            res.outcome(("dev", bool(d), tuple(x["answer"] for x in devs)))
            if total % 700 == 1:
                res.sample({"scenario": sc.name, "deviations": devs,
                            "same_as_baseline": not d})
            if d:
                key = {"part": "deviation", "scenario": sc.name,
                       "sendall_blocked": sendall_blocked(devs),
                       "first": devs[0]["kind"] + ":" + devs[0]["answer"]}
                if key["sendall_blocked"]:
                    key = {"part": "deviation", "sendall_blocked": True}
                res.violation(key, {"scenario": sc.name, "deviations": devs,
                                    "diff": d[:3]},
                              {"part": "deviation", "scenario": sc.name,
                               "choices": dict((str(k), v) for k, v in
                                               choices.items())})
    res.section("deviations", scenarios=len(scs), executions=total,
                decision_points_in_baselines=states,
                bound=bound, bound2_scenarios=[scs[i].name for i in b2])
    # regimes
    items = [(i, tier, seed, r, o) for i in range(len(scs))
             for r in ("recv1", "recv2", "blockfirst", "send1", "halves")
             for o in ("client-first", "server-first")]
    nreg = 0
    for (name, rname, oname, d, bo) in pmap(regime_case, items):
        nreg += 1
        res.count()
        res.outcome(("regime", rname, oname, bool(d)))
        if d:
            res.violation({"part": "regime", "scenario": name,
                           "regime": rname, "order": oname},
                          {"diff": d[:3]},
                          {"part": "regime", "scenario": name,
                           "regime": rname, "order": oname})
    res.section("regimes", executions=nreg)
    # blocking API
    items = [(i, tier, seed, role) for i in range(len(scs))
             for role in ("C", "S")]
    nb = 0
    for (name, role, d) in pmap(blocking_case, items):
        nb += 1
        res.count()
        res.outcome(("blocking", role, bool(d)))
        if d:
            res.violation({"part": "blocking", "scenario": name,
                           "role": role}, {"diff": d[:3]},
                          {"part": "blocking", "scenario": name,
                           "role": role})
    res.section("blocking_api", executions=nb)
    # AsyncStateMachine
    items = [(i, tier, seed, r) for i in range(len(scs))
             for r in (None, "recv1", "blockfirst", "halves")]
    # an event loop that offers a read event only when select() reports the
    # socket readable (what TLSAsyncDispatcherMixIn does)
    items += [(i, tier, seed, "select") for i in range(len(scs))]
    items += [(i, tier, seed, r, "big") for i in range(len(scs))
              for r in (None, "halves") if tier == "thorough" or i % 3 == 0]
    na = 0
    for (name, rname, d) in pmap(asm_case, items):
        na += 1
        res.count()
        res.outcome(("asm", rname, bool(d)))
        if d:
            stall = any(x[1] == "outcome" and "stall" in str(x[3])
                        for x in d)
            res.violation({"part": "asyncstatemachine", "scenario": name,
                           "regime": rname,
                           "kind": "stall" if stall else "other"},
                          {"diff": [[str(y)[:200] for y in x]
                                    for x in d[:3]]},
                          {"part": "asyncstatemachine", "scenario": name,
                           "regime": rname})
    res.section("asyncstatemachine", executions=na)
    fitems = [(i, tier, seed, k, n) for i in range(len(scs))
              for (k, n) in ((1, 10), (10, 100), (7, 100), (100, 100),
                             (16384, 16384 + 50), (16384, 50))
              if tier == "thorough" or i % 2 == 0 or k == 10]
    nf = 0
    for (name, k, n, fails) in pmap(first_result_case, fitems):
        nf += 1
        res.count()
        res.outcome(("first-result", k, n, bool(fails)))
        for f in fails:
            res.violation({"part": "first-result", "scenario": name,
                           "max": k, "what": f[:40]},
                          {"fail": f, "written": n},
                          {"part": "first-result", "scenario": name,
                           "max": k, "n": n})
    res.section("async_first_result_consumer", executions=nf)
    # re-framing
    items = []
    for i, sc in enumerate(scs):
        if tier == "quick" and i % 2:
            continue
        for direction in ("c2s", "s2c"):
            items.append((i, tier, seed, direction, "bytes", 0))
            for k in (1, 3, 4, 5, 37):
                items.append((i, tier, seed, direction, "split", k))
            items.append((i, tier, seed, direction, "chunks", 7))
            items.append((i, tier, seed, direction, "coalesce", 0))
            if tier == "thorough":
                for k in range(6, 120, 3):
                    items.append((i, tier, seed, direction, "split", k))
    nr = 0
    for (name, direction, mode, param, d) in pmap(reframe_case, items):
        nr += 1
        res.count()
        res.outcome(("reframe", mode, bool(d)))
        if d:
            res.violation({"part": "reframe", "scenario": name,
                           "direction": direction, "mode": mode},
                          {"param": param, "diff": d[:3]},
                          {"part": "reframe", "scenario": name,
                           "direction": direction, "mode": mode,
                           "param": param})
    res.section("reframing", executions=nr)
    sizes = RECSIZES if tier == "quick" else sorted(set(
        RECSIZES + list(range(1, 70))))
    sitems = [(sn, n, side, seed) for sn in RECSIZE_SCENS for n in sizes
              for side in (("both",) if tier == "quick" and n > 40 else
                           ("C", "S", "both"))]
    nrs = 0
    for (sn, n, side, d, bout) in pmap(recsize_case, sitems, chunksize=1):
        nrs += 1
        res.count()
        res.outcome(("recsize", sn, not d))
        for x in d:
            res.violation({"part": "record-size", "scenario": sn,
                           "what": "%s.%s" % (x[0], x[1])},
                          {"size": n, "side": side, "diff": x,
                           "baseline": bout},
                          {"part": "record-size", "scenario": sn, "size": n,
                           "side": side})
    res.section("sender_record_size", executions=nrs, sizes=sizes,
                scenarios=RECSIZE_SCENS)
    res.coverage["states"] = states
    res.coverage["transitions"] = total + nreg + nb + nr + na
    res.coverage["traces_validated_against_impl"] = total + nreg + nb + nr + na
    res.coverage["distinct_nontrivial"] = total + nreg + nb + nr + na + nrs
    res.assumptions += [
        "socket model: non-blocking socket may answer would-block on recv/"
        "send; sendall raises after a partial write as CPython's does",
        "per-endpoint DRBG streams make both endpoints' random draws "
        "independent of chunking, so secrets must be bit-identical to the "
        "baseline"]


def replay(case, seed):
    tier = "thorough"
    scs = scenarios(tier)
    names = [s.name for s in scs]
    idx = names.index(case["scenario"])
    if case["part"] == "deviation":
        ch = dict((int(k), v) for k, v in case["choices"].items())
        run_fn = make_run((idx, tier, seed))
        _, base = run_fn({})
        pts, obs = run_fn(ch)
        return {"deviations": describe([pts[i] for i in sorted(ch)], ch),
                "diff": diff_obs(base, obs)}
    if case["part"] == "regime":
        return {"r": regime_case((idx, tier, seed, case["regime"],
                                  case["order"]))}
    if case["part"] == "blocking":
        return {"r": blocking_case((idx, tier, seed, case["role"]))}
    if case["part"] == "reframe":
        return {"r": reframe_case((idx, tier, seed, case["direction"],
                                   case["mode"], case["param"]))}
    return {}
