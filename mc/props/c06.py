"""C06 - handshake messages are accepted only in the order the protocol
allows.

Deciding method: model checking of the implementation against a grammar of
legal received-message sequences: the peer is a *puppet* (a real endpoint
whose outgoing messages can be skipped, duplicated, swapped, or preceded by
an inserted message while its own transcript stays consistent); every
deviation at every message position (bound 1 quick, 2 thorough) for both
victim roles and every handshake flavour is executed against the untouched
victim, and 'victim completed' is compared with membership of the token
sequence it received in the language derived from the RFC message order.
"""
from .. import world as W
from .. import scen as S
from ..core import pmap
from ..puppet import Puppet, NotQueueable, token_of, Tap
from ..world import SEAMS, Pair, World, Task, run_tasks
from tlslite import errors as E
from tlslite.messages import HelloRequest, ClientHello
from tlslite.constants import AlertDescription as AD

LEVEL = "model_checking"

INSERTS = ["CCS", "FIN", "HREQ", "APP", "NST", "CH", "CERT_EMPTY", "KU",
           "SHD", "CR", "CV", "CKE", "SKE", "EE", "CSTATUS", "HS99"]


def scenarios(tier):
    return S.flavours("quick" if tier == "quick" else "thorough")


def run_one(sc, seed, victim, script, resume_session=None, cache=None):
    """One handshake with the puppet opposite the victim."""
    SEAMS.reset(seed, sc.name)
    pair = Pair(World())
    pup_conn = pair.s if victim == "C" else pair.c
    pup = Puppet(pup_conn, script)
    pup.tap = Tap(pair.ep(victim))
    SEAMS.current = "C"
    cg = sc.client_gen(pair.c, session=resume_session)
    SEAMS.current = "S"
    if cache is None and sc.cache:
        cache = W.SessionCache()
    sg = sc.server_gen(pair.s, cache=cache)
    SEAMS.current = "main"
    try:
        out = pair.handshake(cg, sg, max_steps=50000)
    except NotQueueable:
        return None
    return pair, pup, out


def in_language(H, seq, tls13, victim):
    """Is the token sequence `seq` (what the victim received until it
    completed) a legal one, given the honest sequence H of the same
    configuration?"""
    if seq == H:
        return True
    if tls13:
        def strip(s):
            return [t for t in s if t != "CCS"]
        if strip(seq) == strip(H):
            # CCS only between the first hello and the peer's Finished
            if "FIN" not in seq:
                return False
            first = 0
            fin = seq.index("FIN")
            ok = all(first < i < fin for i, t in enumerate(seq)
                     if t == "CCS")
            return ok
        return False
    if victim == "C":
        s2 = [t for t in seq if t != "HREQ"]
        if s2 == H:
            return True
    return False


def variants(H, tls13, victim, cert_auth):
    """The honest sequence plus the ones that differ only in the server's
    optional CertificateRequest (legal only when the server authenticates
    with a certificate: after the server's key-exchange messages and before
    ServerHelloDone, or right after EncryptedExtensions in TLS 1.3)."""
    Hs = [list(H)]
    if victim != "C":
        return Hs
    if "CR" in H:
        Hs.append([t for t in H if t != "CR"])
    elif cert_auth:
        if tls13:
            if "EE" in H and H.index("EE") + 1 < len(H) and \
                    H[H.index("EE") + 1] in ("CERT", "CCERT"):
                i = H.index("EE") + 1
                Hs.append(H[:i] + ["CR"] + H[i:])
        elif "SHD" in H and "CERT" in H:
            i = H.index("SHD")
            Hs.append(H[:i] + ["CR"] + H[i:])
    return Hs


def in_language_full(H, seq, tls13, victim, cert_auth=False):
    return any(in_language(h, seq, tls13, victim)
               for h in variants(H, tls13, victim, cert_auth))


def prefix_legal(H, p, tls13, victim, cert_auth=False):
    """Can the consumed-token sequence p still be extended to a legal one?"""
    p = [t for t in p if t != "ALERT"]
    Hs = variants(H, tls13, victim, cert_auth)
    if tls13:
        fin = p.index("FIN") if "FIN" in p else len(p)
        if any(t == "CCS" and not (0 < i < fin) for i, t in enumerate(p)):
            return False
        p = [t for t in p if t != "CCS"]
        Hs = [[t for t in h if t != "CCS"] for h in Hs]
    elif victim == "C":
        p = [t for t in p if t != "HREQ"]
    return any(h[:len(p)] == p for h in Hs)


def continued_after_illegal(tap, H, tls13, victim, cert_auth=False):
    """First non-alert message the victim sent although what it had
    consumed by then was no longer the prefix of any legal sequence."""
    recv = []
    for (kind, tok) in tap.log:
        if kind == "recv":
            recv.append(tok)
            if tok == "FIN" and recv.count("FIN") == 1 and \
                    prefix_legal(H, recv, tls13, victim, cert_auth) and \
                    len([t for t in recv if t not in ("CCS", "HREQ",
                                                      "ALERT")]) >= \
                    len([t for t in H if t not in ("CCS", "CR")]):
                return None     # the peer's flight is complete and legal
        elif tok != "ALERT" and not prefix_legal(H, recv, tls13, victim,
                                                 cert_auth):
            return tok, list(recv)
    return None


def cut_at_completion(tokens, victim, tls13):
    """Tokens the victim consumed to complete: up to and including the
    peer's (last) Finished."""
    if "FIN" in tokens:
        idx = len(tokens) - 1 - tokens[::-1].index("FIN")
        # in TLS<=1.2 full handshakes the client's FIN precedes the
        # server's; each side receives exactly one
        first = tokens.index("FIN")
        if first + 1 < len(tokens) and tokens[first + 1] == "FRAG":
            first += 1      # bytes of another message in Finished's record
        return tokens[:first + 1]
    return tokens


# handshake messages also inserted *without* entering the puppet's
# transcript (what an on-path attacker can do; only matters if the victim
# silently drops the message)
INSERTS_NOHASH = ["CH", "HREQ", "NST", "FIN", "CERT_EMPTY", "CR", "CKE",
                  "SKE", "SHD", "CV", "KU", "EE", "HS99"]

# first bytes of a KeyUpdate / of a NewSessionTicket: a handshake message
# begun in the record that ends an epoch (RFC 8446 5.1: handshake messages
# MUST NOT span key changes)
FRAGMENTS = [b"\x18", b"\x18\x00\x00", b"\x04\x00\x00\x30\x00"]


def deviations(honest, tls13=False):
    """All single deviations for an honest (index, token) list."""
    out = []
    idxs = [i for i, t in honest if t not in ("ALERT",)]
    for i in idxs:
        out.append({i: ("skip",)})
        out.append({i: ("dup",)})
        out.append({i: ("swap",)})
        for w in INSERTS:
            out.append({i: ("insert", w)})
        for w in INSERTS_NOHASH:
            out.append({i: ("insert-nohash", w)})
        for desc in (41, 90, 100):      # no_certificate, user_canceled,
            out.append({i: ("replace-alert", desc)})   # no_renegotiation
        if tls13 and dict(honest)[i] in ("CH", "SH", "FIN", "HRR"):
            for frag in FRAGMENTS:
                out.append({i: ("straddle", frag)})
    # TLS <= 1.2: the message after ChangeCipherSpec begins before it (its
    # first bytes travel under the old keys, the rest under the new ones)
    if not tls13:
        for i in idxs:
            if dict(honest)[i] == "CCS":
                for k in (1, 4, 6, 11):
                    out.append({i: ("split-ccs", k)})
    # two adjacent messages left out together (an authentication pair such
    # as Certificate + CertificateVerify is only skippable as a whole)
    for a, b in zip(idxs, idxs[1:]):
        out.append({a: ("skip",), b: ("skip",)})
    return out


def verdict(pair, pup, out, victim):
    v = out[victim]
    ep = pair.ep(victim)
    completed = v.status == "ok"
    early_app = None
    if completed:
        # anything readable right now would be data accepted during or
        # right after the handshake
        pass
    return completed, v


def case(item):
    idx, tier, seed, victim = item
    sc = scenarios(tier)[idx]
    rec = {"scenario": sc.name, "victim": victim, "n": 0, "fails": [],
           "sigs": set(), "survived": [], "H": None}
    r = run_one(sc, seed, victim, {})
    pair, pup, out = r
    if out["C"].status != "ok" or out["S"].status != "ok":
        rec["fails"].append(({"dev": "honest"}, "honest run failed %r" %
                             (out,)))
        return rec
    tls13 = sc.version >= (3, 4)
    honest = [(i, t) for (i, t) in pup.honest]
    H = cut_at_completion([t for _, t in honest], victim, tls13)
    hs_honest = honest[:len(H)]
    rec["H"] = H
    cert_auth = sc.flavour == "cert"
    devs = deviations(hs_honest, tls13)
    if tier == "thorough":
        singles = list(devs)
    for script in devs:
        r = run_one(sc, seed, victim, script)
        if r is None:
            continue
        pair2, pup2, out2 = r
        rec["n"] += 1
        v = out2[victim]
        completed = v.status == "ok"
        seq = cut_at_completion(list(pup2.sent), victim, tls13)
        legal = in_language_full(H, seq, tls13, victim, cert_auth)
        if len(script) == 2:
            (i, _), (i2, _) = sorted(script.items())
            act = ("skip2",)
            desc = "skip2@%d,%d(%s,%s)" % (i, i2, dict(honest).get(i),
                                           dict(honest).get(i2))
        else:
            (i, act), = script.items()
            desc = "%s@%d(%s)" % ("+".join(str(a) for a in act), i,
                                  dict(honest).get(i))
        rec["sigs"].add((act[0], completed, v.sig()[:3] if not completed
                         else None))
        # SSLv3 has no empty Certificate message: a client without a
        # certificate answers the request with a no_certificate warning
        ssl3_nocert = (sc.version == (3, 0) and victim == "S" and
                       len(script) == 1 and act[0] == "replace-alert" and
                       act[1] == 41 and dict(honest).get(i) == "CERT")
        if ssl3_nocert:
            legal = True
        fail = None
        if completed and not legal:
            fail = "victim completed after receiving %r (honest: %r)" % (
                seq, H)
        elif completed:
            rec["survived"].append(desc)
        if not completed:
            e = v.exc
            if v.status in ("stall",):
                pass
            elif v.status == "budget":
                fail = "victim spins"
            elif isinstance(e, E.TLSLocalAlert):
                if e.level != 2:
                    fail = "victim aborted with a non-fatal alert"
            elif isinstance(e, (E.TLSRemoteAlert, E.TLSAbruptCloseError,
                                OSError)):
                pass        # the puppet itself gave up first
            else:
                fail = "victim raised %s: %s" % (type(e).__name__,
                                                 str(e)[:60])
        if fail is None and not ssl3_nocert:
            cont = continued_after_illegal(pup2.tap, H, tls13, victim,
                                           cert_auth)
            if cont is not None:
                fail = ("victim sent %s after consuming the illegal "
                        "sequence %r (honest: %r)" % (cont[0], cont[1], H))
        # no application data may have reached the victim's reader
        ep = pair2.ep(victim)
        if ep._readBuffer:
            fail = (fail or "") + " application data buffered: %r" % (
                bytes(ep._readBuffer)[:20],)
        if completed and act[0] == "insert" and act[1] == "APP":
            rr = pair2.read(victim, None, 0)
            if rr.status == "ok" and rr.value:
                fail = "early application data delivered after completion"
        if fail:
            rec["fails"].append(({"dev": desc, "act": act[0],
                                  "what": act[1] if len(act) > 1 else None,
                                  "tok": dict(honest).get(i)}, fail))
    rec["sigs"] = sorted(rec["sigs"], key=repr)
    return rec


def case2(item):
    """Bound 2: every ordered pair of single deviations at distinct
    positions."""
    idx, tier, seed, victim = item
    sc = scenarios(tier)[idx]
    rec = {"scenario": sc.name, "victim": victim, "n": 0, "fails": [],
           "sigs": set()}
    pair, pup, out = run_one(sc, seed, victim, {})
    if out["C"].status != "ok" or out["S"].status != "ok":
        return rec
    tls13 = sc.version >= (3, 4)
    honest = list(pup.honest)
    H = cut_at_completion([t for _, t in honest], victim, tls13)
    devs = [d for d in deviations(honest[:len(H)], tls13) if len(d) == 1]
    for a in range(len(devs)):
        for b in range(a + 1, len(devs)):
            (ia, acta), = devs[a].items()
            (ib, actb), = devs[b].items()
            if ia == ib:
                continue
            script = {ia: acta, ib: actb}
            r = run_one(sc, seed, victim, script)
            if r is None:
                continue
            pair2, pup2, out2 = r
            rec["n"] += 1
            v = out2[victim]
            completed = v.status == "ok"
            seq = cut_at_completion(list(pup2.sent), victim, tls13)
            rec["sigs"].add((acta[0], actb[0], completed))
            if completed and not in_language_full(H, seq, tls13, victim,
                                                  sc.flavour == "cert"):
                k = {"dev": "%r@%d+%r@%d" % (acta, ia, actb, ib),
                     "act": acta[0] + "+" + actb[0],
                     "what": [acta[1] if len(acta) > 1 else None,
                              actb[1] if len(actb) > 1 else None]}
                # the same execution as one of its components alone (the
                # other one falls after completion): report it under that
                # single deviation's key, as bound 1 does
                for (i1, act1) in ((ia, acta), (ib, actb)):
                    r1 = run_one(sc, seed, victim, {i1: act1})
                    if r1 is None or r1[2][victim].status != "ok":
                        continue
                    if cut_at_completion(list(r1[1].sent), victim,
                                         tls13) == seq:
                        k = {"dev": k["dev"], "act": act1[0],
                             "what": act1[1] if len(act1) > 1 else None,
                             "tok": dict(honest).get(i1)}
                        break
                rec["fails"].append((
                    k, "victim completed after receiving %r (honest: %r)" % (
                        seq, H)))
            elif not completed and v.status == "exc" and not isinstance(
                    v.exc, (E.TLSAlert, E.TLSAbruptCloseError, OSError)):
                rec["fails"].append((
                    {"dev": "%r@%d+%r@%d" % (acta, ia, actb, ib),
                     "act": acta[0] + "+" + actb[0], "what": None},
                    "victim raised %s" % type(v.exc).__name__))
    rec["sigs"] = sorted(rec["sigs"], key=repr)
    return rec


def reneg_case(item):
    """After completion: peer asks for renegotiation; application calls a
    handshake function again."""
    idx, tier, seed, victim = item
    sc = scenarios(tier)[idx]
    pair, out = S.connect(sc, seed=seed)
    fails = []
    if out["C"].status != "ok" or out["S"].status != "ok":
        return sc.name, victim, ["honest failed"], None
    tls13 = sc.version >= (3, 4)
    if tls13:
        pair.drain()
    ep = pair.ep(victim)
    peer_who = "S" if victim == "C" else "C"
    peer = pair.ep(peer_who)
    before = W.view(ep)
    sess_before = ep.session
    if victim == "C":
        msg = HelloRequest().create()
    else:
        msg = ClientHello().create((3, 3), bytearray(32), bytearray(0),
                                   [0x002f, 0xc02f], extensions=[])
    W.run_gen(pair.world, peer_who, peer._sendMsg(msg, update_hashes=False))
    pair.write(peer_who, b"data-after-reneg-request")
    r = pair.read(victim, None, len(b"data-after-reneg-request"))
    back = pair.world.s2c if victim == "S" else pair.world.c2s
    sig = None
    if tls13:
        if r.status != "exc" or not isinstance(r.exc, E.TLSLocalAlert) or \
                r.exc.description != AD.unexpected_message:
            fails.append("TLS 1.3 renegotiation request answered with %r" %
                         (r,))
        sig = ("tls13", r.sig()[:3])
    else:
        if r.status != "ok" or bytes(r.value or b"") != \
                b"data-after-reneg-request":
            fails.append("read after renegotiation request: %r" % (r,))
        # a no_renegotiation warning must have gone to the peer
        pr = pair.read(peer_who, None, 1)
        if pr.status != "exc" or not isinstance(pr.exc, E.TLSRemoteAlert) \
                or pr.exc.description != AD.no_renegotiation:
            fails.append("peer did not get no_renegotiation: %r" % (pr,))
        sig = ("<=1.2", r.status, pr.sig()[:3])
        after = W.view(ep)
        if ep.session is not sess_before or after != before:
            fails.append("session/keys changed by renegotiation request")
    # the application calls a handshake function on the open connection
    pair2, out2 = S.connect(sc, seed=seed)
    ep2 = pair2.ep(victim)
    s_before = ep2.session
    try:
        if victim == "C":
            g = sc.client_gen(ep2)
        else:
            g = sc.server_gen(ep2)
        o = W.run_gen(pair2.world, victim, g)
    except BaseException as e:  # noqa
        o = W.Outcome("exc", exc=e)
    if o.status != "exc":
        fails.append("second handshake call on an open connection: %r" %
                     (o,))
    if ep2.session is not s_before:
        fails.append("second handshake call replaced the session")
    return sc.name, victim, fails, sig


LATE_KINDS = ["CCS", "CCS_PLAIN", "FIN", "SHD", "CERT_EMPTY", "CKE", "CV",
              "SKE", "EE", "CR", "HS99"]


def late_case(item):
    """After both ends completed: the peer sends one handshake-phase message
    (under the current keys, or a bare ChangeCipherSpec record) followed by
    application data.  Nothing of this is allowed any more: the victim must
    answer with a fatal alert and deliver no data."""
    from ..puppet import build_insert
    idx, tier, seed, victim, kind = item
    sc = scenarios(tier)[idx]
    pair, out = S.connect(sc, seed=seed)
    if out["C"].status != "ok" or out["S"].status != "ok":
        return sc.name, victim, kind, ["honest failed"], None
    tls13 = sc.version >= (3, 4)
    if kind == "CR" and tls13 and victim == "C" and sc.client_cred:
        # post-handshake authentication: a CertificateRequest is legal
        return sc.name, victim, kind, [], ("legal",)
    pair.drain()
    peer_who = "S" if victim == "C" else "C"
    peer = pair.ep(peer_who)
    fails = []
    if kind == "CCS_PLAIN":
        pipe = pair.world.s2c if victim == "C" else pair.world.c2s
        pipe.inject(b"\x14" + bytes([3, min(3, sc.version[1])]) +
                    b"\x00\x01\x01")
    else:
        try:
            msg = build_insert(peer, kind)
        except ValueError:
            return sc.name, victim, kind, [], None
        W.run_gen(pair.world, peer_who,
                  peer._sendMsg(msg, update_hashes=False))
    pair.write(peer_who, b"data-after-late-message")
    r = pair.read(victim, None, 1)
    sig = (kind, r.sig()[:3])
    if r.status == "ok" and r.value:
        fails.append("late %s ignored: application data delivered after it"
                     % kind)
    elif r.status != "exc" or not isinstance(r.exc, E.TLSLocalAlert) or \
            r.exc.level != 2:
        fails.append("late %s answered with %r" % (kind, r))
    return sc.name, victim, kind, fails, sig


def run(res, tier, seed):
    res.coverage["rule"] = (
        "for each handshake flavour x victim role: the honest message "
        "sequence of the peer with one deviation (skip / duplicate / swap "
        "with successor / insert one of 9 message kinds before) at every "
        "message position (quick), every pair of deviations (thorough, "
        "subset of flavours); plus renegotiation attempts after completion; "
        "a trace is the token sequence the victim received with its verdict; "
        "distinct by (flavour, role, deviation); states = positions in the "
        "honest sequences, transitions = deviations executed")
    scs = scenarios(tier)
    items = [(i, tier, seed, v) for i in range(len(scs)) for v in ("C", "S")]
    n = 0
    states = 0
    surv = 0
    for rec in pmap(case, items, chunksize=1):
        n += rec["n"]
        res.count(rec["n"])
        states += len(rec["H"] or [])
        surv += len(rec["survived"])
        for s in rec["sigs"]:
            res.outcome(tuple(s))
        if rec["survived"] and len(res.coverage["samples"]) < 6:
            res.sample({"scenario": rec["scenario"], "victim": rec["victim"],
                        "honest_received": rec["H"],
                        "deviations_survived_legally": rec["survived"][:6]})
        for (k, f) in rec["fails"]:
            key = {"victim": rec["victim"], "act": k.get("act"),
                   "what": k.get("what"), "tok": k.get("tok"),
                   "tls13": rec["scenario"].startswith("TLS1.3")}
            res.violation(key, {"scenario": rec["scenario"], "dev": k,
                                "fail": f},
                          {"scenario": rec["scenario"],
                           "victim": rec["victim"], "dev": k})
    res.section("single_deviations", scenario_roles=len(items), executions=n,
                survived_legally=surv)
    n2 = 0
    if tier == "thorough":
        names = [s.name for s in scs]
        sub = [names.index(x) for x in ("TLS1.2-ECDHE_RSA", "TLS1.0-RSA",
                                        "TLS1.3-RSA",
                                        "TLS1.2-RSA-clientauth",
                                        "TLS1.3-RSA-clientauth",
                                        "TLS1.2-ECDHE_RSA-tickets")
               if x in names]
        it2 = [(i, tier, seed, v) for i in sub for v in ("C", "S")]
        for rec in pmap(case2, it2, chunksize=1):
            n2 += rec["n"]
            res.count(rec["n"])
            for s in rec["sigs"]:
                res.outcome(("pair",) + tuple(s))
            for (k, f) in rec["fails"]:
                res.violation({"victim": rec["victim"], "act": k.get("act"),
                               "what": k.get("what"), "tok": k.get("tok"),
                               "tls13": rec["scenario"].startswith(
                                   "TLS1.3")},
                              {"scenario": rec["scenario"], "dev": k,
                               "fail": f},
                              {"scenario": rec["scenario"],
                               "victim": rec["victim"], "dev": k})
        res.section("pair_deviations", scenario_roles=len(it2),
                    executions=n2)
    nr = 0
    for (name, victim, fails, sig) in pmap(reneg_case, items):
        nr += 1
        res.count()
        res.outcome(("reneg", sig))
        for f in fails:
            res.violation({"part": "renegotiation", "victim": victim,
                           "what": f[:50]}, {"scenario": name, "fail": f},
                          {"part": "renegotiation", "scenario": name,
                           "victim": victim})
    res.section("renegotiation", cases=nr)
    litems = [(i, tier, seed, v, k) for i in range(len(scs))
              for v in ("C", "S") for k in LATE_KINDS]
    nl = 0
    for (name, victim, kind, fails, sig) in pmap(late_case, litems):
        if sig is None and not fails:
            continue
        nl += 1
        res.count()
        res.outcome(("late", sig))
        for f in fails:
            res.violation({"part": "late-message", "victim": victim,
                           "kind": kind, "tls13": "TLS1.3" in name,
                           "what": f[:40]},
                          {"scenario": name, "fail": f},
                          {"part": "late-message", "scenario": name,
                           "victim": victim, "kind": kind})
    res.section("messages_after_completion", cases=nl, kinds=LATE_KINDS)
    nr += nl
    res.coverage["states"] = states
    res.coverage["transitions"] = n + n2 + nr
    res.coverage["traces_validated_against_impl"] = n + n2 + nr
    res.coverage["distinct_nontrivial"] = n + n2 + nr
    res.assumptions += [
        "the language is the honest sequence of the same configuration plus "
        "the protocol's documented tolerances (TLS 1.3 middlebox CCS between "
        "the hello and Finished; HelloRequest to a client during a TLS<=1.2 "
        "handshake)",
        "inserted Finished messages carry zero verify_data: they test "
        "position, not content"]


def replay(case_, seed):
    return {"note": "re-run ./check C06", "case": case_}
