"""C11 - RSA key transport gives an attacker no padding oracle.

Deciding method: exhaustive enumeration of PKCS#1 v1.5 padding-defect
classes by position (every separator position, every early-zero position,
header byte values, pairs of defects, publicly invalid inputs), each
ciphertext built with the public operation and decrypted by the library and
by an independent implementation of implicit rejection; then every class is
sent as ClientKeyExchange in live RSA-key-exchange handshakes of every
version and the server's wire behaviour is compared across classes.
"""
import hashlib
import hmac

from .. import world as W
from .. import scen as S
from ..core import pmap
from ..puppet import Puppet
from ..world import SEAMS, Pair, World, load_cred
from tlslite.constants import CipherSuite as CS
from tlslite.utils.python_rsakey import Python_RSAKey

LEVEL = "exploration"


# ---------------------------------------------------------------- reference
def _prf(kdk, label, nbits):
    out = b""
    i = 0
    while len(out) < nbits // 8:
        out += hmac.new(kdk, i.to_bytes(2, "big") + label +
                        nbits.to_bytes(2, "big"), hashlib.sha256).digest()
        i += 1
    return out[:nbits // 8]


def rsa_ir_decrypt(n, d, c):
    """Implicit-rejection PKCS#1 v1.5 decryption
    (draft-irtf-cfrg-rsa-guidance), written for clarity."""
    k = (n.bit_length() + 7) // 8
    c = bytes(c)
    if len(c) != k:
        return None
    ci = int.from_bytes(c, "big")
    if ci >= n:
        return None
    em = pow(ci, d, n).to_bytes(k, "big")
    key_hash = hashlib.sha256(d.to_bytes(k, "big")).digest()
    kdk = hmac.new(key_hash, c, hashlib.sha256).digest()
    cand = _prf(kdk, b"length", 128 * 2 * 8)
    alt = _prf(kdk, b"message", k * 8)
    max_len = k - 11
    mask = 1
    while mask <= max_len:      # smallest 2^b - 1 covering max_len + 1
        mask <<= 1
    bits = (k - 10).bit_length()
    mask = (1 << bits) - 1
    alt_len = 0
    for i in range(128):
        v = int.from_bytes(cand[2 * i:2 * i + 2], "big") & mask
        if v <= max_len:
            alt_len = v
    # padding check
    good = em[0] == 0 and em[1] == 2
    sep = None
    for pos in range(2, k):
        if em[pos] == 0:
            sep = pos
            break
    if sep is None or sep < 10:
        good = False
    if good:
        return em[sep + 1:]
    return alt[k - alt_len:]


# ---------------------------------------------------------------- classes
def em_classes(k, tier):
    """Yield (class label, EM bytes of length k)."""
    def ps(n, salt=0):
        return bytes(((i * 7 + salt) % 255) + 1 for i in range(n))
    # valid messages: separator at every position 10..k-1
    positions = range(10, k) if tier == "thorough" else sorted(set(
        list(range(10, 20)) + [k // 2, k - 50, k - 49, k - 48, k - 47,
                               k - 3, k - 2, k - 1] +
        list(range(20, k, 17))))
    for sep in positions:
        msg = ps(k - sep - 1, 3)
        yield "valid/len=%d" % (k - sep - 1), b"\x00\x02" + ps(sep - 2) + \
            b"\x00" + msg
    base = b"\x00\x02" + ps(k - 3 - 48) + b"\x00" + ps(48, 9)
    assert len(base) == k
    for b0 in (1, 2, 0xff):
        yield "first-byte=%02x" % b0, bytes([b0]) + base[1:]
    for b1 in (0, 1, 3, 0xff):
        yield "second-byte=%02x" % b1, base[:1] + bytes([b1]) + base[2:]
    for z in range(2, 10):
        e = bytearray(base)
        e[z] = 0
        yield "zero-in-padding@%d" % z, bytes(e)
    yield "no-separator", b"\x00\x02" + ps(k - 2)
    yield "all-zero", bytes(k)
    yield "all-ff-body", b"\x00\x02" + b"\xff" * (k - 2)
    # two defects
    for b0 in (1, 2):
        for z in (2, 9):
            e = bytearray(base)
            e[0] = b0
            e[z] = 0
            yield "first-byte=%02x+zero@%d" % (b0, z), bytes(e)
    e = bytearray(b"\x00\x01" + ps(k - 2))
    yield "type1-no-separator", bytes(e)
    e = bytearray(base)
    e[1] = 1
    e[5] = 0
    yield "type1+zero@5", bytes(e)


def fn_case(item):
    keyname, tier, seed = item
    n_eval = 0
    fails = []
    outcomes = set()
    if keyname == "gen1024":
        SEAMS.reset(4242, "c11-key")
        SEAMS.current = "keygen"
        key = Python_RSAKey.generate(1024)
        SEAMS.current = "main"
    else:
        _, key = load_cred(keyname, fresh=True)
    n, e, d = int(key.n), int(key.e), int(key.d)
    k = (n.bit_length() + 7) // 8
    fresh = Python_RSAKey(key.n, key.e, key.d, key.p, key.q, key.dP, key.dQ,
                          key.qInv)
    lens = {}
    for (label, em) in em_classes(k, "thorough"):
        c = pow(int.from_bytes(em, "big"), e, n).to_bytes(k, "big")
        want = rsa_ir_decrypt(n, d, c)
        try:
            got = key.decrypt(bytearray(c))
            got2 = key.decrypt(bytearray(c))
            got3 = fresh.decrypt(bytearray(c))
        except BaseException as ex:  # noqa
            fails.append({"key": keyname, "class": label,
                          "why": "decrypt raised %s" % type(ex).__name__})
            continue
        n_eval += 1
        cls = label.split("/")[0].split("=")[0].split("@")[0]
        outcomes.add((cls, None if got is None else "bytes"))
        if got is None or want is None or bytes(got) != want:
            fails.append({"key": keyname, "class": label,
                          "why": "decrypt returned %r, reference %r" % (
                              None if got is None else bytes(got)[:12].hex(),
                              None if want is None else want[:12].hex())})
        if got is not None and (bytes(got) != bytes(got2) or
                                bytes(got) != bytes(got3)):
            fails.append({"key": keyname, "class": label,
                          "why": "not deterministic across calls / key "
                          "objects"})
        if label.startswith("valid/"):
            if got is not None and bytes(got) != em[em.index(0, 2) + 1:]:
                fails.append({"key": keyname, "class": label,
                              "why": "valid padding not returned as is"})
        elif got is not None:
            lens[len(got)] = lens.get(len(got), 0) + 1
    # publicly invalid inputs
    for (label, c) in (("value=n", n.to_bytes(k, "big")),
                       ("value=n+1", (n + 1).to_bytes(k, "big")),
                       ("value=all-ff", b"\xff" * k),
                       ("length=k-1", b"\x01" * (k - 1)),
                       ("length=k+1", b"\x00" + b"\x01" * k),
                       ("length=0", b"")):
        try:
            got = key.decrypt(bytearray(c))
        except BaseException as ex:  # noqa
            fails.append({"key": keyname, "class": label,
                          "why": "decrypt raised %s" % type(ex).__name__})
            continue
        n_eval += 1
        outcomes.add(("public-invalid", None if got is None else "bytes"))
        if got is not None:
            fails.append({"key": keyname, "class": label,
                          "why": "publicly invalid input not refused"})
    for (label, c) in (("value=0", bytes(k)),
                       ("value=1", (1).to_bytes(k, "big")),
                       ("value=n-1", (n - 1).to_bytes(k, "big"))):
        try:
            got = key.decrypt(bytearray(c))
            want = rsa_ir_decrypt(n, d, c)
        except BaseException as ex:  # noqa
            fails.append({"key": keyname, "class": label,
                          "why": "decrypt raised %s" % type(ex).__name__})
            continue
        n_eval += 1
        if got is None or bytes(got) != want:
            fails.append({"key": keyname, "class": label,
                          "why": "edge value mismatch"})
    return n_eval, fails, sorted(outcomes, key=repr), len(lens)


# ---------------------------------------------------------------- wire
def wire_classes(k, client_version):
    """EM variants for a ClientKeyExchange; label 'honest' is added by the
    caller."""
    def ps(n, salt=0):
        return bytes(((i * 7 + salt) % 255) + 1 for i in range(n))

    def em_with(pms):
        return b"\x00\x02" + ps(k - 3 - len(pms)) + b"\x00" + pms
    cv = bytes(client_version)
    rnd = ps(46, 5)
    out = []
    out.append(("wrong-version-minus1", em_with(bytes([cv[0],
                                                       max(0, cv[1] - 1)]) +
                                                rnd)))
    out.append(("wrong-version-0000", em_with(b"\x00\x00" + rnd)))
    out.append(("wrong-version-0304", em_with(b"\x03\x04" + rnd)))
    out.append(("pms-47-bytes", em_with(cv + rnd[:45])))
    out.append(("pms-49-bytes", em_with(cv + rnd + b"\x01")))
    out.append(("pms-empty", em_with(b"")))
    out.append(("pms-1-byte", em_with(b"\x03")))
    out.append(("first-byte-01", b"\x01\x02" + ps(k - 3 - 48) + b"\x00" + cv
                + rnd))
    out.append(("type-01", b"\x00\x01" + ps(k - 3 - 48) + b"\x00" + cv +
                rnd))
    out.append(("zero-in-padding@2", b"\x00\x02\x00" + ps(k - 4 - 48) +
                b"\x00" + cv + rnd))
    out.append(("zero-in-padding@9", b"\x00\x02" + ps(7) + b"\x00" +
                ps(k - 11 - 48) + b"\x00" + cv + rnd))
    out.append(("no-separator", b"\x00\x02" + ps(k - 2)))
    out.append(("all-zero", bytes(k)))
    out.append(("separator-last", b"\x00\x02" + ps(k - 3) + b"\x00"))
    return out


def server_trace(pair, start):
    """What the server put on the wire after `start` bytes: list of
    (record type, body length, detail)."""
    out = []
    for (t, v, body) in W.split_records(pair.world.s2c.log[start:]):
        if t == 21 and len(body) == 2:
            out.append((t, len(body), (body[0], body[1])))
        elif t == 22 and body:
            out.append((t, len(body), body[0]))
        else:
            out.append((t, len(body), None))
    return out


def wire_case(item):
    v, suite, etm, seed = item
    sc = S.Scen("c11/%s-%04x-%s" % (S.VNAME[v], suite, etm), version=v,
                suite=suite, cred="rsa", etm=etm)
    chain, key = load_cred("rsa")
    n, e = int(key.n), int(key.e)
    k = (n.bit_length() + 7) // 8
    res = {"scenario": sc.name, "n": 0, "fails": [], "traces": {}}

    def run(script):
        SEAMS.reset(seed, sc.name)
        pair = Pair(World())
        pup = Puppet(pair.c, script)
        SEAMS.current = "C"
        cg = sc.client_gen(pair.c)
        SEAMS.current = "S"
        sg = sc.server_gen(pair.s)
        SEAMS.current = "main"
        out = pair.handshake(cg, sg)
        return pair, pup, out
    pair, pup, out = run({})
    if out["C"].status != "ok" or out["S"].status != "ok":
        res["fails"].append("honest run failed %r" % (out,))
        return res
    idx = [i for i, t in pup.honest if t == "CKE"][0]
    # where the server's first flight ends
    first_flight = None
    o = 0
    log = bytes(pair.world.s2c.log)
    for (t, ver, body) in W.split_records(log):
        o += 5 + len(body)
        if t == 22 and body and body[0] == 14 or (t == 22 and body[-4:] ==
                                                  b"\x0e\x00\x00\x00"):
            first_flight = o
            break
    if first_flight is None:
        res["fails"].append("ServerHelloDone not found")
        return res
    client_version = (3, 3) if v > (3, 3) else v
    traces = {}
    goodc = pow(int.from_bytes(wire_classes(k, client_version)[0][1], "big"),
                e, n).to_bytes(k, "big")
    raw = [("ct-len-0", b""), ("ct-len-1", b"\x17"),
           ("ct-len-k-1", goodc[1:]), ("ct-len-k+1", b"\x00" + goodc),
           ("ct-len-k+1-trailing", goodc + b"\x00"),
           ("ct-len-2k", goodc + goodc),
           ("ct-value-0", bytes(k)), ("ct-value-1", bytes(k - 1) + b"\x01"),
           ("ct-value-n-1", (n - 1).to_bytes(k, "big")),
           ("ct-value-n", n.to_bytes(k, "big")),
           ("ct-value-n+1", (n + 1).to_bytes(k, "big")),
           ("ct-value-all-ff", b"\xff" * k)]
    for (label, em) in wire_classes(k, client_version) + [
            ("raw:" + lab, cb) for (lab, cb) in raw]:
        if label.startswith("raw:"):
            c = em
        else:
            c = pow(int.from_bytes(em, "big"), e, n).to_bytes(k, "big")
        if v == (3, 0):
            body = c
        else:
            body = len(c).to_bytes(2, "big") + c
        msg = b"\x10" + len(body).to_bytes(3, "big") + body
        pair2, pup2, out2 = run({idx: ("replace", msg)})
        res["n"] += 1
        tr = server_trace(pair2, first_flight)
        traces[label] = (tuple(tr), out2["S"].sig()[:3])
        if out2["S"].status == "ok":
            res["fails"].append("%s: server completed the handshake" % label)
    distinct = set(traces.values())
    res["distinct"] = len(distinct)
    if len(distinct) > 1:
        res["fails"].append("server behaviour differs between malformed "
                            "ClientKeyExchange classes: %r" % (
                                dict((kk, vv) for kk, vv in traces.items()),))
    else:
        (tr, sig), = distinct
        res["trace"] = (tr, sig)
        # it must be the alert at Finished: exactly one fatal alert record,
        # bad_record_mac / decrypt_error / decryption_failed
        if len(tr) != 1 or tr[0][0] != 21 or tr[0][2][0] != 2 or \
                tr[0][2][1] not in (20, 51, 21):
            res["fails"].append("server reaction to a malformed premaster "
                                "is not a single integrity alert at "
                                "Finished: %r" % (tr,))
    return res


def run(res, tier, seed):
    res.coverage["rule"] = (
        "function: for a 2048-bit fixture key and a generated 1024-bit key, "
        "every separator position 10..k-1 (thorough; boundary set in quick), "
        "header byte values, a zero at each padding position 2..9, no "
        "separator, pairs of defects, and publicly invalid inputs, each "
        "compared with an independent implicit-rejection implementation, "
        "checked for determinism across calls and key objects; wire: 14 "
        "malformed-premaster classes as ClientKeyExchange in RSA key "
        "exchange for SSLv3-TLS1.2 x CBC/AEAD x EtM; distinct by (key, "
        "class) / (scenario, class)")
    total = 0
    for (n_eval, fails, outcomes, nlens) in pmap(
            fn_case, [("rsa", tier, seed), ("gen1024", tier, seed)],
            chunksize=1):
        total += n_eval
        res.count(n_eval)
        for o in outcomes:
            res.outcome(tuple(o))
        res.outcome(("synthetic-length-values", nlens > 1))
        for f in fails:
            res.violation({"part": "function", "class": f["class"].split(
                "/")[0], "why": f["why"][:40]}, f, {"function": f})
    res.sample({"key": "rsa-2048", "class": "zero-in-padding@5",
                "expected": "synthetic message from the reference"})
    res.section("function", evaluations=total)
    items = []
    for v in ((3, 0), (3, 1), (3, 2), (3, 3)):
        items.append((v, CS.TLS_RSA_WITH_AES_128_CBC_SHA, True, seed))
        if v > (3, 0):
            items.append((v, CS.TLS_RSA_WITH_AES_128_CBC_SHA, False, seed))
        items.append((v, CS.TLS_RSA_WITH_3DES_EDE_CBC_SHA, True, seed))
    items.append(((3, 3), CS.TLS_RSA_WITH_AES_128_GCM_SHA256, True, seed))
    items.append(((3, 3), CS.TLS_RSA_WITH_AES_256_CBC_SHA256, True, seed))
    items.append(((3, 0), CS.TLS_RSA_WITH_RC4_128_SHA, True, seed))
    nw = 0
    for r in pmap(wire_case, items, chunksize=1):
        nw += r["n"]
        res.count(r["n"])
        res.outcome(("wire", r.get("distinct"), r.get("trace")))
        for f in r["fails"]:
            res.violation({"part": "wire", "scenario": r["scenario"],
                           "why": f[:50]}, {"fail": f},
                          {"wire": r["scenario"]})
    res.section("wire", scenarios=len(items), executions=nw)
    res.coverage["distinct_nontrivial"] = total + nw
    res.assumptions.append(
        "timing is not observable by this family; the oracle is functional "
        "equality with an independent implementation and identical wire "
        "behaviour")


def replay(case_, seed):
    return {"note": "re-run ./check C11", "case": case_}
