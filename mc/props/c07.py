"""C07 - tlslite-ng interoperates with an independent TLS implementation.

Deciding method: exhaustive product enumeration of the mutually supported
configuration space against OpenSSL (stdlib ssl, in-memory BIOs): both role
assignments x protocol versions TLS 1.0-1.3 x every cipher suite both sides
implement x server key types x groups x client authentication x ALPN x
resumption x payload sizes, with an expected outcome computed from the two
configurations and outcome-level comparison of the negotiated parameters.
"""
import os
import ssl
import warnings

from .. import world as W
from .. import scen as S
from .. import ianasuite
from ..core import pmap
from ..world import SEAMS, World, TLSConnection, load_cred, CRED_FILES, TESTS
from tlslite.api import HandshakeSettings
from tlslite.constants import CipherSuite as CS

LEVEL = "exploration"
warnings.simplefilter("ignore", DeprecationWarning)

TLSV = {(3, 1): ssl.TLSVersion.TLSv1, (3, 2): ssl.TLSVersion.TLSv1_1,
        (3, 3): ssl.TLSVersion.TLSv1_2, (3, 4): ssl.TLSVersion.TLSv1_3}
VSTR = {(3, 1): "TLSv1", (3, 2): "TLSv1.1", (3, 3): "TLSv1.2",
        (3, 4): "TLSv1.3"}

_OSSL = {}


def openssl_suites():
    if "s" not in _OSSL:
        ctx = ssl.SSLContext(ssl.PROTOCOL_TLS_CLIENT)
        ctx.set_ciphers("ALL:COMPLEMENTOFALL:@SECLEVEL=0")
        _OSSL["s"] = dict((c["id"] & 0xffff, c["name"])
                          for c in ctx.get_ciphers())
    return _OSSL["s"]


def mk_ctx(server, version, ossl_cipher=None, cred=None, alpn=None,
           curve=None, req_client_cert=False, client_cred=None,
           minv=None, maxv=None):
    ctx = ssl.SSLContext(ssl.PROTOCOL_TLS_SERVER if server
                         else ssl.PROTOCOL_TLS_CLIENT)
    if not server:
        ctx.check_hostname = False
        ctx.verify_mode = ssl.CERT_NONE
    ctx.minimum_version = TLSV[minv or version]
    ctx.maximum_version = TLSV[maxv or version]
    ctx.set_ciphers((ossl_cipher or "ALL:COMPLEMENTOFALL") + ":@SECLEVEL=0")
    ctx.options &= ~ssl.OP_NO_COMPRESSION & 0xffffffff
    if cred:
        c, k = CRED_FILES[cred]
        ctx.load_cert_chain(os.path.join(TESTS, c), os.path.join(TESTS, k))
    if client_cred and not server:
        c, k = CRED_FILES[client_cred]
        ctx.load_cert_chain(os.path.join(TESTS, c), os.path.join(TESTS, k))
    if alpn:
        ctx.set_alpn_protocols([a.decode() for a in alpn])
    if curve:
        ctx.set_ecdh_curve(curve)
    if server:
        ctx.load_dh_params(os.path.join(os.path.dirname(os.path.dirname(
            os.path.dirname(os.path.abspath(__file__)))), "data",
            "ffdhe2048.pem"))
    if server and req_client_cert:
        ctx.verify_mode = ssl.CERT_OPTIONAL
        c, _ = CRED_FILES[req_client_cert]
        ctx.load_verify_locations(os.path.join(TESTS, c))
    return ctx


class Bridge(object):
    """tlslite endpoint over a MemSock <-> OpenSSL SSLObject over BIOs."""

    def __init__(self, tl_is_client, ctx, server_hostname=None, session=None):
        self.w = World()
        self.inc = ssl.MemoryBIO()
        self.outg = ssl.MemoryBIO()
        self.tl_is_client = tl_is_client
        if tl_is_client:
            self.tl = TLSConnection(self.w.csock)
            self.tl_tx, self.tl_rx = self.w.c2s, self.w.s2c
            self.so = ctx.wrap_bio(self.inc, self.outg, server_side=True)
        else:
            self.tl = TLSConnection(self.w.ssock)
            self.tl_tx, self.tl_rx = self.w.s2c, self.w.c2s
            self.so = ctx.wrap_bio(self.inc, self.outg, server_side=False,
                                   server_hostname=server_hostname,
                                   session=session)
        self.ossl_err = None
        self.ossl_done = False

    def shuttle(self):
        moved = False
        if self.tl_tx.buf:
            self.inc.write(bytes(self.tl_tx.buf))
            del self.tl_tx.buf[:]
            moved = True
        data = self.outg.read()
        if data:
            self.tl_rx.write(data)
            moved = True
        return moved

    def ossl_step(self):
        if self.ossl_done or self.ossl_err:
            return False
        try:
            self.so.do_handshake()
            self.ossl_done = True
            return True
        except ssl.SSLWantReadError:
            return False
        except (ssl.SSLError, OSError) as e:
            self.ossl_err = e
            return True

    def handshake(self, gen):
        SEAMS.current = "C" if self.tl_is_client else "S"
        tl_out = None
        idle = 0
        for _ in range(4000):
            progressed = False
            if tl_out is None:
                try:
                    next(gen)
                except StopIteration:
                    tl_out = W.Outcome("ok")
                    progressed = True
                except BaseException as e:  # noqa
                    tl_out = W.Outcome("exc", exc=e)
                    progressed = True
            if self.shuttle():
                progressed = True
            if self.ossl_step():
                progressed = True
            if self.shuttle():
                progressed = True
            if tl_out is not None and (self.ossl_done or self.ossl_err):
                break
            idle = 0 if progressed else idle + 1
            if idle > 6:
                break
        SEAMS.current = "main"
        if tl_out is None:
            tl_out = W.Outcome("stall")
            try:
                gen.close()
            except BaseException:
                pass
        return tl_out

    # data ----------------------------------------------------------------
    def tl_write(self, data):
        o = W.run_gen(self.w, "C" if self.tl_is_client else "S",
                      self.tl.writeAsync(data))
        self.shuttle()
        return o

    def ossl_read_all(self, n):
        got = b""
        for _ in range(200):
            try:
                d = self.so.read(65536)
                if not d:
                    break
                got += d
                if len(got) >= n:
                    break
            except ssl.SSLWantReadError:
                if not self.shuttle():
                    break
            except ssl.SSLError as e:
                return got, e
        return got, None

    def ossl_write(self, data):
        try:
            self.so.write(data)
        except ssl.SSLError as e:
            return e
        self.shuttle()
        return None

    def tl_read_all(self, n):
        got = b""
        who = "C" if self.tl_is_client else "S"
        for _ in range(400):
            self.shuttle()
            if len(got) >= n:
                break
            o = W.run_gen(self.w, who, W.gen_of_value(self.tl.readAsync,
                                                       None, 0))
            if o.status == "ok":
                got += bytes(o.value or b"")
                if not o.value and not self.tl_rx.buf and \
                        not self.tl.sock._read_buffer:
                    break
            elif o.status == "stall":
                break
            else:
                return got, o
        return got, None


def tl_settings(version, sid=None, minv=None, maxv=None, **extra):
    st = S.base_settings(minv=minv or version, maxv=maxv or version)
    if sid is not None:
        S.restrict_to_suite(st, S.ALL_INFOS[sid])
    for k, v in extra.items():
        setattr(st, k, v)
    return st


def payloads(tier):
    return [1, 2 ** 14 - 1, 2 ** 14, 2 ** 14 + 1, 40000] if tier == \
        "thorough" else [1, 2 ** 14 + 1]


def suite_case(item):
    """One (role, version, suite, cred) connection with data both ways."""
    role, v, sid, cred, seed, sizes, attempt = item
    info = S.ALL_INFOS[sid]
    oname = openssl_suites().get(sid)
    rec = {"role": role, "version": VSTR[v], "suite": info.name,
           "cred": cred, "fails": [], "sig": None}
    SEAMS.reset(seed + attempt, "c07-%s-%s" % (role, info.name))
    anon = info.auth == "anon"
    st = tl_settings(v, sid)
    try:
        if role == "tl-client":
            ctx = mk_ctx(True, v, None if info.tls13 else oname,
                         None if anon else cred)
            br = Bridge(True, ctx)
            if anon:
                gen = br.tl.handshakeClientAnonymous(settings=st,
                                                     async_=True)
            else:
                gen = br.tl.handshakeClientCert(settings=st, async_=True)
        else:
            ctx = mk_ctx(False, v, None if info.tls13 else oname)
            br = Bridge(False, ctx)
            if anon:
                gen = br.tl.handshakeServerAsync(anon=True, settings=st)
            else:
                chain, key = load_cred(cred)
                gen = br.tl.handshakeServerAsync(certChain=chain,
                                                 privateKey=key, settings=st)
    except ssl.SSLError as e:
        rec["sig"] = ("openssl-config-error", str(e)[:60])
        return rec
    out = br.handshake(gen)
    ok = out.status == "ok" and br.ossl_done
    rec["sig"] = ("ok" if ok else "fail",)
    if not ok:
        rec["fails"].append("handshake failed: tlslite %r, openssl %r" % (
            out, br.ossl_err))
        rec["exc"] = repr(out.exc)[:100] if out.exc else None
        return rec
    # negotiated parameters
    ov = br.so.version()
    oc = br.so.cipher()
    if ov != VSTR[v] or tuple(br.tl.version) != v:
        rec["fails"].append("version: openssl %r tlslite %r" % (
            ov, br.tl.version))
    oid = [i for i, n in openssl_suites().items() if n == oc[0]]
    if not oid or oid[0] != br.tl.session.cipherSuite or \
            br.tl.session.cipherSuite != sid:
        rec["fails"].append("suite: openssl %r tlslite %04x wanted %04x" % (
            oc, br.tl.session.cipherSuite, sid))
    for n in sizes:
        data = bytes((i * 7 + n) & 0xff for i in range(n))
        o = br.tl_write(data)
        if o.status != "ok":
            rec["fails"].append("tlslite write(%d): %r" % (n, o))
            break
        got, err = br.ossl_read_all(n)
        if got != data:
            rec["fails"].append("openssl read %d/%d bytes intact=%s err=%r"
                                % (len(got), n, got == data[:len(got)], err))
            break
        e = br.ossl_write(data[::-1])
        if e:
            rec["fails"].append("openssl write: %r" % (e,))
            break
        got, err = br.tl_read_all(n)
        if got != data[::-1]:
            rec["fails"].append("tlslite read %d/%d bytes err=%r" % (
                len(got), n, err))
            break
    return rec


def feature_case(item):
    """Groups, ALPN, client auth, resumption, version ranges."""
    kind, param, seed, attempt = item
    rec = {"kind": kind, "param": repr(param), "fails": [], "sig": None}
    SEAMS.reset(seed + attempt, "c07-%s-%r" % (kind, param))
    try:
        if kind == "group":
            role, v, curve = param
            tl_name = {"prime256v1": "secp256r1", "secp384r1": "secp384r1",
                       "secp521r1": "secp521r1", "X25519": "x25519",
                       "X448": "x448"}[curve]
            sid = CS.TLS_AES_128_GCM_SHA256 if v == (3, 4) else \
                CS.TLS_ECDHE_RSA_WITH_AES_128_GCM_SHA256
            st = tl_settings(v, sid, eccCurves=[tl_name],
                             keyShares=[tl_name] if v == (3, 4) else [])
            if role == "tl-client":
                ctx = mk_ctx(True, v, None, "rsa", curve=curve)
                br = Bridge(True, ctx)
                gen = br.tl.handshakeClientCert(settings=st, async_=True)
            else:
                ctx = mk_ctx(False, v, None, curve=curve)
                br = Bridge(False, ctx)
                chain, key = load_cred("rsa")
                gen = br.tl.handshakeServerAsync(certChain=chain,
                                                 privateKey=key, settings=st)
            out = br.handshake(gen)
            ok = out.status == "ok" and br.ossl_done
            rec["sig"] = (ok,)
            if not ok:
                rec["fails"].append("group %s: tlslite %r openssl %r" % (
                    curve, out, br.ossl_err))
        elif kind == "alpn":
            role, v, tl_list, os_list = param
            sid = CS.TLS_AES_128_GCM_SHA256 if v == (3, 4) else \
                CS.TLS_ECDHE_RSA_WITH_AES_128_GCM_SHA256
            st = tl_settings(v, sid)
            if role == "tl-client":
                ctx = mk_ctx(True, v, None, "rsa", alpn=os_list)
                br = Bridge(True, ctx)
                gen = br.tl.handshakeClientCert(settings=st, async_=True,
                                                alpn=tl_list)
                client_list, server_list = tl_list, os_list
            else:
                ctx = mk_ctx(False, v, None, alpn=os_list)
                br = Bridge(False, ctx)
                chain, key = load_cred("rsa")
                gen = br.tl.handshakeServerAsync(certChain=chain,
                                                 privateKey=key, settings=st,
                                                 alpn=tl_list)
                client_list, server_list = os_list, tl_list
            out = br.handshake(gen)
            ok = out.status == "ok" and br.ossl_done
            common = [p for p in (server_list or []) if p in
                      (client_list or [])]
            no_overlap = bool(client_list) and bool(server_list) and \
                not common
            rec["sig"] = (ok, no_overlap)
            if no_overlap and not ok:
                pass        # either outcome is acceptable without overlap
            elif not ok:
                rec["fails"].append("alpn: tlslite %r openssl %r" % (
                    out, br.ossl_err))
            else:
                sel_o = br.so.selected_alpn_protocol()
                sel_t = br.tl.session.appProto
                sel_t = bytes(sel_t).decode() if sel_t else None
                if sel_o != sel_t:
                    rec["fails"].append("ALPN: openssl %r tlslite %r" % (
                        sel_o, sel_t))
                if common and sel_o is None:
                    rec["fails"].append("ALPN overlap but none selected")
        elif kind == "clientauth":
            role, v, ccred = param
            sid = CS.TLS_AES_128_GCM_SHA256 if v == (3, 4) else (
                CS.TLS_ECDHE_RSA_WITH_AES_128_GCM_SHA256 if v == (3, 3)
                else CS.TLS_ECDHE_RSA_WITH_AES_128_CBC_SHA)
            st = tl_settings(v, sid)
            if role == "tl-client":
                ctx = mk_ctx(True, v, None, "rsa", req_client_cert=ccred)
                br = Bridge(True, ctx)
                chain, key = load_cred(ccred)
                gen = br.tl.handshakeClientCert(chain, key, settings=st,
                                                async_=True)
            else:
                ctx = mk_ctx(False, v, None, client_cred=ccred)
                br = Bridge(False, ctx)
                chain, key = load_cred("rsa")
                gen = br.tl.handshakeServerAsync(certChain=chain,
                                                 privateKey=key, settings=st,
                                                 reqCert=True)
            out = br.handshake(gen)
            ok = out.status == "ok" and br.ossl_done
            rec["sig"] = (ok,)
            if not ok:
                rec["fails"].append("client auth %s: tlslite %r openssl %r"
                                    % (ccred, out, br.ossl_err))
            elif role == "tl-server":
                got = W.chain_fp(br.tl.session.clientCertChain)
                want = W.chain_fp(load_cred(ccred)[0])
                if got != want[:1] and got != want:
                    rec["fails"].append("client chain recorded %r" % (got,))
            else:
                pc = br.so.getpeercert(binary_form=True)
                if not pc:
                    rec["fails"].append("openssl saw no client certificate")
        elif kind == "range":
            role, tmin, tmax, omin, omax = param
            st = tl_settings(None, None, minv=tmin, maxv=tmax)
            if role == "tl-client":
                ctx = mk_ctx(True, None, None, "rsa", minv=omin, maxv=omax)
                br = Bridge(True, ctx)
                gen = br.tl.handshakeClientCert(settings=st, async_=True)
            else:
                ctx = mk_ctx(False, None, None, minv=omin, maxv=omax)
                br = Bridge(False, ctx)
                chain, key = load_cred("rsa")
                gen = br.tl.handshakeServerAsync(certChain=chain,
                                                 privateKey=key, settings=st)
            out = br.handshake(gen)
            ok = out.status == "ok" and br.ossl_done
            common = [x for x in S.VERSIONS if tmin <= x <= tmax and
                      omin <= x <= omax]
            rec["sig"] = (ok, bool(common))
            if common and not ok:
                rec["fails"].append("common versions %r but failed: %r %r" %
                                    (common, out, br.ossl_err))
            if not common and ok:
                rec["fails"].append("no common version but connected")
            if ok and common and tuple(br.tl.version) != max(common):
                rec["fails"].append("negotiated %r, highest common %r" % (
                    br.tl.version, max(common)))
        elif kind == "resume":
            role, v, mech = param
            sid = CS.TLS_AES_128_GCM_SHA256 if v == (3, 4) else \
                CS.TLS_ECDHE_RSA_WITH_AES_128_GCM_SHA256
            if role == "tl-server":
                st = tl_settings(v, sid)
                cache = None
                if mech == "ticket":
                    st.ticketKeys = [bytearray(b"\x33" * 32)]
                    st.ticket_count = 1
                else:
                    st.ticket_count = 0
                    cache = W.SessionCache()
                ctx = mk_ctx(False, v, None)
                if mech == "id":
                    ctx.options |= ssl.OP_NO_TICKET
                chain, key = load_cred("rsa")
                br = Bridge(False, ctx)
                out = br.handshake(br.tl.handshakeServerAsync(
                    certChain=chain, privateKey=key, settings=st,
                    sessionCache=cache))
                if not (out.status == "ok" and br.ossl_done):
                    rec["fails"].append("first connection failed")
                    return rec
                # let OpenSSL see the tickets
                br.tl_write(b"x")
                br.ossl_read_all(1)
                sess = br.so.session
                br2 = Bridge(False, ctx, session=sess)
                out2 = br2.handshake(br2.tl.handshakeServerAsync(
                    certChain=chain, privateKey=key, settings=st,
                    sessionCache=cache))
                ok = out2.status == "ok" and br2.ossl_done
                rec["sig"] = (ok, br2.so.session_reused if ok else None)
                if not ok:
                    rec["fails"].append("second connection failed: %r %r" % (
                        out2, br2.ossl_err))
                elif not br2.so.session_reused:
                    rec["fails"].append("openssl client did not resume (%s)"
                                        % mech)
                elif v < (3, 4) and not br2.tl.resumed:
                    rec["fails"].append("tlslite server flag resumed=False")
            else:
                st = tl_settings(v, sid)
                ctx = mk_ctx(True, v, None, "rsa")
                if mech == "id":
                    ctx.options |= ssl.OP_NO_TICKET
                br = Bridge(True, ctx)
                out = br.handshake(br.tl.handshakeClientCert(settings=st,
                                                             async_=True))
                if not (out.status == "ok" and br.ossl_done):
                    rec["fails"].append("first connection failed")
                    return rec
                br.ossl_write(b"y")
                br.tl_read_all(1)
                sess = br.tl.session
                br2 = Bridge(True, ctx)
                out2 = br2.handshake(br2.tl.handshakeClientCert(
                    settings=st, async_=True, session=sess))
                ok = out2.status == "ok" and br2.ossl_done
                rec["sig"] = (ok, bool(br2.tl.resumed) if ok else None)
                if not ok:
                    rec["fails"].append("second connection failed: %r %r" % (
                        out2, br2.ossl_err))
                elif not br2.tl.resumed or not br2.so.session_reused:
                    rec["fails"].append("not resumed: tlslite %r openssl %r"
                                        % (br2.tl.resumed,
                                           br2.so.session_reused))
        elif kind == "hrr":
            # TLS 1.3 where the first key share is for a group the server
            # does not accept: HelloRetryRequest, then a second ClientHello.
            role, group, shape, resume = param
            o_name = {"secp256r1": "prime256v1", "secp384r1": "secp384r1",
                      "secp521r1": "secp521r1", "x448": "X448"}.get(group)
            sid = CS.TLS_AES_128_GCM_SHA256
            vmin = (3, 3) if shape in ("range", "short") else (3, 4)
            ciph = "ECDHE+AESGCM" if shape == "short" else None
            alpn = [b"h2", b"http/1.1"] if shape == "sni-alpn" else None
            host = "server.example.verif" if shape == "sni-alpn" else None
            chain, key = load_cred("rsa")
            if role == "tl-server":
                st = tl_settings((3, 4), sid, minv=vmin, maxv=(3, 4))
                if group.startswith("ffdhe"):
                    st.eccCurves, st.dhGroups = ["secp256r1"], [group]
                    st.keyShares = [group]
                    st.eccCurves = []
                else:
                    st.eccCurves, st.dhGroups = [group], []
                    st.keyShares = [group]
                st.ticketKeys = [bytearray(b"\x44" * 32)]
                st.ticket_count = 1 if resume else 0
                ctx = mk_ctx(False, (3, 4), ciph, alpn=alpn, minv=vmin,
                             maxv=(3, 4))

                def conn(session=None):
                    b = Bridge(False, ctx, server_hostname=host,
                               session=session)
                    o = b.handshake(b.tl.handshakeServerAsync(
                        certChain=chain, privateKey=key, settings=st,
                        alpn=alpn))
                    return b, o
                br, out = conn()
                ok = out.status == "ok" and br.ossl_done
                if ok and resume:
                    br.tl_write(b"x")
                    br.ossl_read_all(1)
                    sess = br.so.session
                    br, out = conn(sess)
                    ok = out.status == "ok" and br.ossl_done
                    if ok and not br.so.session_reused:
                        rec["fails"].append("hrr: openssl client did not "
                                            "resume across HelloRetryRequest")
            else:
                st = tl_settings((3, 4), sid, minv=vmin, maxv=(3, 4))
                st.eccCurves = ["x25519", group]
                st.dhGroups = []
                st.keyShares = ["x25519"]
                ctx = mk_ctx(True, (3, 4), ciph, "rsa", alpn=alpn,
                             curve=o_name, minv=vmin, maxv=(3, 4))

                def conn(session=None):
                    b = Bridge(True, ctx)
                    o = b.handshake(b.tl.handshakeClientCert(
                        settings=st, async_=True, session=session,
                        alpn=alpn, serverName=host))
                    return b, o
                br, out = conn()
                ok = out.status == "ok" and br.ossl_done
                if ok and resume:
                    br.ossl_write(b"y")
                    br.tl_read_all(1)
                    sess = br.tl.session
                    br, out = conn(sess)
                    ok = out.status == "ok" and br.ossl_done
                    if ok and not (br.tl.resumed and br.so.session_reused):
                        rec["fails"].append("hrr: not resumed: tlslite %r "
                                            "openssl %r" % (
                                                br.tl.resumed,
                                                br.so.session_reused))
            hrr_seen = bytes.fromhex(
                "cf21ad74e59a6111be1d8c021e65b891"
                "c2a211167abb8c5e079e09e2c8a8339c") in (
                    bytes(br.w.s2c.log) + bytes(br.w.c2s.log))
            rec["sig"] = (ok, tuple(br.tl.version) if ok else None, hrr_seen)
            if ok and not hrr_seen:
                rec["fails"].append("harness: no HelloRetryRequest on the "
                                    "wire for %s" % group)
            if not ok:
                rec["fails"].append("hrr to %s (%s): tlslite %r openssl %r"
                                    % (group, shape, out, br.ossl_err))
            else:
                if tuple(br.tl.version) != (3, 4) or \
                        br.so.version() != "TLSv1.3":
                    rec["fails"].append("hrr: versions %r / %r" % (
                        br.tl.version, br.so.version()))
                data = bytes(range(256)) * 3
                if role == "tl-server":
                    br.tl_write(data)
                    got, err = br.ossl_read_all(len(data))
                else:
                    err = br.ossl_write(data)
                    got, err2 = br.tl_read_all(len(data))
                    err = err or err2
                if got != data or err:
                    rec["fails"].append("hrr: data after retry differs (%d "
                                        "of %d bytes, %r)" % (len(got),
                                                              len(data), err))
    except ssl.SSLError as e:
        rec["sig"] = ("openssl-config-error", str(e)[:80])
    return rec


def with_retry(fn, item_wo_attempt):
    """OpenSSL draws its own randomness: a failing case is re-run before it
    is reported (three attempts must all fail)."""
    last = None
    for attempt in range(3):
        last = fn(item_wo_attempt + (attempt,))
        if not last["fails"]:
            return last
    return last


def _suite_wr(item):
    return with_retry(suite_case, item)


def _feat_wr(item):
    return with_retry(feature_case, item)


CRED_FOR = {"RSA": ["rsa"], "ECDSA": ["ecdsa"], "DSS": ["dsa"],
            "anon": [None], "TLS13": ["rsa"]}


def run(res, tier, seed):
    res.coverage["rule"] = (
        "both role assignments x TLS 1.0-1.3 x every suite both sides "
        "implement (IANA id intersection with OpenSSL's "
        "ALL:COMPLEMENTOFALL:@SECLEVEL=0) x the credential the suite needs "
        "(thorough: RSA-PSS, three ECDSA curves, Ed25519, Ed448 as well) x "
        "payload sizes; plus groups, ALPN lists, client authentication, "
        "version ranges and resumption (session ID, ticket, TLS 1.3 PSK); "
        "distinct by (role, version, suite, credential) / feature tuple")
    osu = openssl_suites()
    items = []
    sizes = payloads(tier)
    skipped = []
    for (v, sid) in S.suite_version_pairs():
        if v == (3, 0) or sid not in osu:
            continue
        info = S.ALL_INFOS[sid]
        if info.kex == "SRP":
            skipped.append(info.name)
            continue
        creds = list(CRED_FOR.get(info.auth, ["rsa"]))
        if True:
            if info.auth in ("RSA", "TLS13") and (info.kex != "RSA"):
                creds += ["rsapss"] if v >= (3, 3) else []
            if info.auth in ("ECDSA",) and v >= (3, 3):
                creds += ["ecdsa384", "ecdsa521", "ed25519", "ed448"]
            if info.tls13:
                creds += ["ecdsa", "ecdsa384", "ed25519", "ed448"]
        for cred in creds:
            for role in ("tl-client", "tl-server"):
                items.append((role, v, sid, cred, seed, sizes))
    nok = 0
    for rec in pmap(_suite_wr, items):
        res.count()
        res.outcome((rec["role"], rec["sig"]))
        if rec["sig"] == ("ok",):
            nok += 1
        if len(res.coverage["samples"]) < 4:
            res.sample(rec)
        for f in rec["fails"]:
            res.violation({"role": rec["role"], "version": rec["version"],
                           "suite": rec["suite"], "cred": rec["cred"]},
                          {"fail": f, "exc": rec.get("exc")},
                          {"suite_case": [rec["role"], rec["version"],
                                          rec["suite"], rec["cred"]]})
    res.section("suites", connections=len(items), completed=nok,
                payload_sizes=sizes,
                not_reachable_via_stdlib=sorted(set(skipped)))
    fitems = []
    for role in ("tl-client", "tl-server"):
        for v in ((3, 3), (3, 4)):
            for curve in ("prime256v1", "secp384r1", "secp521r1", "X25519",
                          "X448"):
                fitems.append(("group", (role, v, curve), seed))
            for (a, b) in (([b"h2", b"http/1.1"], [b"http/1.1", b"h2"]),
                           ([b"h2"], [b"http/1.1", b"h2"]),
                           ([b"h2"], [b"spdy/3"]), (None, [b"h2"]),
                           ([b"h2"], None)):
                fitems.append(("alpn", (role, v, a, b), seed))
            for ccred in ("rsa", "c_ecdsa"):
                fitems.append(("clientauth", (role, v, ccred), seed))
            fitems.append(("resume", (role, v, "ticket"), seed))
            if v == (3, 3):
                fitems.append(("resume", (role, v, "id"), seed))
        for group in ("secp256r1", "secp384r1", "secp521r1", "x448") + \
                ((("ffdhe2048", "ffdhe3072") if role == "tl-server" else ())):
            for shape in ("tls13", "range", "short", "sni-alpn"):
                for resume in (False, True):
                    fitems.append(("hrr", (role, group, shape, resume),
                                   seed))
        for v in ((3, 1), (3, 2)):
            fitems.append(("clientauth", (role, v, "rsa"), seed))
        vs = [(3, 1), (3, 2), (3, 3), (3, 4)]
        for tmin in vs:
            for tmax in vs:
                if tmin > tmax:
                    continue
                for omin in vs:
                    for omax in vs:
                        if omin > omax:
                            continue
                        if tier == "quick" and (tmin, tmax, omin,
                                                omax).count((3, 2)) > 1:
                            continue
                        fitems.append(("range", (role, tmin, tmax, omin,
                                                 omax), seed))
    nf = 0
    for rec in pmap(_feat_wr, fitems):
        nf += 1
        res.count()
        res.outcome((rec["kind"], rec["sig"]))
        for f in rec["fails"]:
            res.violation({"kind": rec["kind"], "param": rec["param"]},
                          {"fail": f}, {"feature": [rec["kind"],
                                                    rec["param"]]})
    res.section("features", cases=nf)
    res.coverage["distinct_nontrivial"] = nok + nf
    res.coverage["exhaustive"] = True
    res.assumptions += [
        "OpenSSL 3.0 through the stdlib ssl module: no SSLv3, no SRP, no "
        "external PSK, no record_size_limit, no NPN, TLS 1.3 suites cannot "
        "be selected on the OpenSSL side (tlslite side restricts them)",
        "OpenSSL draws its own randomness: executions are not "
        "byte-reproducible; only outcome-level observations are compared and "
        "a failing case is re-run (3 attempts) before it is reported"]


def replay(case_, seed):
    return {"note": "re-run ./check C07", "case": case_}
