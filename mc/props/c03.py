"""C03 - both ends of a completed handshake agree on everything, within both
policies.

Deciding method: exhaustive product enumeration of pairs (client settings,
server settings) from the restriction lattice of HandshakeSettings (<= 1
changed dimension per side quick, <= 2 on one side thorough) x handshake
flavour x client-auth / ALPN / SNI options, each run as a live loopback
handshake; the two endpoint views are compared field by field and every
negotiated parameter is checked against each side's own settings object
through the independent IANA-name reader.
"""
import itertools

from .. import world as W
from .. import scen as S
from .. import ianasuite
from ..core import pmap
from . import c19
from tlslite.constants import GroupName, SignatureScheme, HashAlgorithm, \
    SignatureAlgorithm
from tlslite import errors as E

LEVEL = "exploration"

FLAVOURS = {
    # name: (flavour, server cred, client cred/req_cert, extras)
    "rsa": dict(flavour="cert", cred="rsa"),
    "rsa-mutual": dict(flavour="cert", cred="rsa", client_cred="c_rsa",
                       req_cert=True,
                       ckw={"alpn": [b"h2", b"http/1.1"],
                            "serverName": "example.test"},
                       skw={"alpn": [b"http/1.1", b"h2"]}),
    # the client has a certificate but the server does not ask for it
    "rsa-clientcred-unrequested": dict(flavour="cert", cred="rsa",
                                       client_cred="c_rsa", req_cert=False),
    # server name with upper-case letters, below TLS 1.3 as well
    "rsa-sni-mixed-case": dict(flavour="cert", cred="rsa",
                               ckw={"serverName": "Host.Example.TEST"}),
    "rsa-sni-mixed-case-tls12": dict(
        flavour="cert", cred="rsa", ckw={"serverName": "Host.Example.TEST"},
        base=(("maxVersion", ("tls12", (3, 3), True)),)),
    "rsapss": dict(flavour="cert", cred="rsapss"),
    "ecdsa": dict(flavour="cert", cred="ecdsa"),
    "ecdsa384": dict(flavour="cert", cred="ecdsa384"),
    "ecdsa521-mutual": dict(flavour="cert", cred="ecdsa521",
                            client_cred="c_ecdsa", req_cert=True),
    "ed25519": dict(flavour="cert", cred="ed25519", client_cred="c_ed25519",
                    req_cert=True),
    # ECDSA on both sides below TLS 1.3 (a server may then list no RSA
    # algorithm at all in its CertificateRequest)
    "ecdsa-mutual-tls12": dict(
        flavour="cert", cred="ecdsa", client_cred="c_ecdsa", req_cert=True,
        base=(("maxVersion", ("tls12", (3, 3), True)),)),
    "ed448": dict(flavour="cert", cred="ed448"),
    "dsa": dict(flavour="cert", cred="dsa", client_cred="c_dsa",
                req_cert=True),
    "srp": dict(flavour="srp", cred=None),
    "srpcert": dict(flavour="srpcert", cred="rsa"),
    "anon": dict(flavour="anon", cred=None),
    # finite-field anonymous DH only (the default prefers ECDH_anon)
    "anon-dh": dict(flavour="anon", cred=None,
                    base=(("keyExchangeNames", ("dh_anon", ["dh_anon"],
                                                True)),
                          ("maxVersion", ("tls12", (3, 3), True)))),
    "dhe-rsa": dict(flavour="cert", cred="rsa",
                    base=(("keyExchangeNames", ("dhe_rsa", ["dhe_rsa"],
                                                True)),
                          ("maxVersion", ("tls12", (3, 3), True)))),
    "psk": dict(flavour="psk", cred="rsa"),
    "psk-only": dict(flavour="psk", cred=None),
    "rsa-npn": dict(flavour="cert", cred="rsa",
                    ckw={"nextProtos": [b"spdy/3", b"http/1.1"]},
                    skw={"nextProtos": [b"http/1.1", b"spdy/3"]}),
}

def _keybits():
    out = {}
    for c in ("rsa", "c_rsa", "rsapss", "dsa", "c_dsa"):
        chain, _ = W.load_cred(c)
        out[c] = len(chain.getEndEntityPublicKey())
    return out


KEYBITS = _keybits()

SIG_HASH = {1: "md5", 2: "sha1", 3: "sha224", 4: "sha256", 5: "sha384",
            6: "sha512"}


def sig_in_policy(st, alg, version):
    """Is a (hash, sig) pair / scheme inside a settings object?"""
    if alg is None:
        return True
    if isinstance(alg, tuple):
        h, s = alg
        sid = (h << 8) | s
    else:
        sid = alg
        h, s = sid >> 8, sid & 0xff
    name = SignatureScheme.toRepr(sid) or ""
    if name in ("ed25519", "ed448"):
        return {"ed25519": "Ed25519", "ed448": "Ed448"}[name] in \
            st.more_sig_schemes
    if name.startswith("rsa_pss"):
        return "pss" in st.rsaSchemes and name.split("_")[-1] in \
            st.rsaSigHashes
    if name.startswith("ecdsa_brainpool"):
        return name in st.more_sig_schemes
    hn = SIG_HASH.get(h)
    if s == 1:      # rsa pkcs1
        return hn in st.rsaSigHashes and "pkcs1" in st.rsaSchemes
    if s == 3:      # ecdsa
        return hn in st.ecdsaSigHashes
    if s == 2:      # dsa
        return hn in st.dsaSigHashes
    return None


def policy_fails(who, st, conn, peer_cred, info, version, selected_alpn,
                 offered_alpn, peer_uses_rsl=True, cert_exchanged=True):
    """Negotiated parameters vs this side's own (validated) settings."""
    f = []
    if not (st.minVersion <= version <= st.maxVersion):
        f.append("%s: version %r outside [%r,%r]" % (who, version,
                                                      st.minVersion,
                                                      st.maxVersion))
    if version == (3, 4) and (3, 4) not in st.versions:
        f.append("%s: TLS 1.3 not in versions list" % who)
    c, m, k = info.setting_cipher(), info.setting_mac(), info.setting_kex()
    if c not in st.cipherNames:
        f.append("%s: cipher %s not in cipherNames %r" % (who, c,
                                                          st.cipherNames))
    if m not in st.macNames:
        f.append("%s: mac %s not in macNames %r" % (who, m, st.macNames))
    if not info.tls13 and k not in st.keyExchangeNames:
        f.append("%s: key exchange %s not in keyExchangeNames" % (who, k))
    g = conn.ecdhCurve
    if g is not None:
        gname = GroupName.toRepr(g)
        if gname not in list(st.eccCurves) + list(st.dhGroups):
            f.append("%s: group %s not enabled" % (who, gname))
    if conn.dhGroupSize is not None:
        if not (st.minKeySize <= conn.dhGroupSize <= st.maxKeySize):
            f.append("%s: DH group size %d outside key size policy" % (
                who, conn.dhGroupSize))
    if conn.serverSigAlg is not None:
        ok = sig_in_policy(st, conn.serverSigAlg, version)
        if ok is False and version >= (3, 3):
            f.append("%s: signature algorithm %r outside policy" % (
                who, conn.serverSigAlg))
    if peer_cred in KEYBITS and cert_exchanged:
        if not (st.minKeySize <= KEYBITS[peer_cred] <= st.maxKeySize):
            f.append("%s: peer key size %d outside [%d,%d]" % (
                who, KEYBITS[peer_cred], st.minKeySize, st.maxKeySize))
    if conn.encryptThenMAC and not st.useEncryptThenMAC:
        f.append("%s: EtM negotiated although disabled" % who)
    if version < (3, 4):
        if conn.session.extendedMasterSecret and \
                not st.useExtendedMasterSecret:
            f.append("%s: EMS negotiated although disabled" % who)
        if st.requireExtendedMasterSecret and \
                not conn.session.extendedMasterSecret:
            f.append("%s: EMS required but not negotiated" % who)
    if selected_alpn is not None and offered_alpn is not None and \
            selected_alpn not in offered_alpn:
        f.append("%s: ALPN %r not in own list" % (who, selected_alpn))
    if st.record_size_limit is not None and peer_uses_rsl:
        lim = conn._recv_record_limit
        adv = st.record_size_limit
        if version < (3, 4):
            adv = min(adv, 2 ** 14)
        if lim > min(adv, 2 ** 14):
            f.append("%s: receive limit %d above advertised %d" % (who, lim,
                                                                   adv))
    return f


def _work(item):
    fname, cch, sch, seed = item
    fl = FLAVOURS[fname]
    base = tuple(fl.get("base", ()))
    # the flavour's own restrictions come first; an explicit change of the
    # same dimension overrides them
    cch = tuple(b for b in base if b[0] not in [c[0] for c in cch]) + \
        tuple(cch)
    sch = tuple(b for b in base if b[0] not in [c[0] for c in sch]) + \
        tuple(sch)
    try:
        cst_v = c19.build(cch).validate()
        sst_v = c19.build(sch).validate()
    except ValueError:
        return (fname, c19.label_of(cch), c19.label_of(sch), "invalid", [],
                None)
    sc = S.Scen("c03/" + fname, flavour=fl["flavour"], cred=fl.get("cred"),
                client_cred=fl.get("client_cred"),
                req_cert=fl.get("req_cert", False), ckw=fl.get("ckw"),
                skw=fl.get("skw"), cache=True)
    cst, sst = c19.build(cch), c19.build(sch)
    if fl["flavour"] == "psk":
        for st in (cst, sst, cst_v, sst_v):
            st.pskConfigs = [(b"verif-psk", b"\x5a" * 32, "sha256")]
    pair, out = S.connect(sc, seed=seed, csettings=cst, ssettings=sst)
    c_ok = out["C"].status == "ok"
    s_ok = out["S"].status == "ok"
    fails = []
    sig = None
    if c_ok and s_ok:
        vc, vs = W.view(pair.c), W.view(pair.s)
        for (k, a, b) in W.views_equal(vc, vs):
            fails.append("views differ on %s: client %r server %r" % (
                k, str(a)[:40], str(b)[:40]))
        version = tuple(pair.c.version)
        info = S.ALL_INFOS.get(pair.c.session.cipherSuite)
        sig = ("ok", version, pair.c.session.cipherSuite,
               pair.c.ecdhCurve, bool(pair.c.encryptThenMAC),
               bool(pair.c.session.extendedMasterSecret))
        if info is None:
            fails.append("negotiated unknown suite")
        else:
            if not ianasuite.defined_in(info, version):
                fails.append("suite %s not defined for version" % info.name)
            alpn_c = (fl.get("ckw") or {}).get("alpn")
            alpn_s = (fl.get("skw") or {}).get("alpn")
            sel = pair.c.session.appProto
            sel = bytes(sel) if sel else None
            fails += policy_fails("client", cst_v, pair.c, fl.get("cred"),
                                  info, version, sel, alpn_c,
                                  sst_v.record_size_limit is not None,
                                  pair.c.session.serverCertChain is not None)
            fails += policy_fails("server", sst_v, pair.s,
                                  fl.get("client_cred"), info, version, sel,
                                  alpn_s,
                                  cst_v.record_size_limit is not None,
                                  pair.s.session.clientCertChain is not None)
            if version >= (3, 4) and fl["flavour"] == "psk" and \
                    pair.c.session.serverCertChain is None:
                # a PSK was used: with or without a (EC)DHE share?
                mode = "psk_ke" if pair.c.ecdhCurve is None and \
                    pair.s.ecdhCurve is None else "psk_dhe_ke"
                for who, st in (("client", cst_v), ("server", sst_v)):
                    if mode not in st.psk_modes:
                        fails.append("%s: PSK key exchange mode %s outside "
                                     "its psk_modes %r" % (who, mode,
                                                           st.psk_modes))
            if pair.c.next_proto != pair.s.next_proto:
                fails.append("NPN differs: %r %r" % (pair.c.next_proto,
                                                     pair.s.next_proto))
            if pair.c._recv_record_limit < pair.s._send_record_limit or \
                    pair.s._recv_record_limit < pair.c._send_record_limit:
                fails.append("send limit exceeds the peer's receive limit: "
                             "C recv %d S send %d / S recv %d C send %d" % (
                                 pair.c._recv_record_limit,
                                 pair.s._send_record_limit,
                                 pair.s._recv_record_limit,
                                 pair.c._send_record_limit))
        # data must flow
        pair.write("C", b"ping")
        r = pair.read("S", None, 4)
        if r.status != "ok" or bytes(r.value) != b"ping":
            fails.append("data after completion: %r" % (r,))
    elif c_ok != s_ok:
        ok_side, bad_side = ("C", "S") if c_ok else ("S", "C")
        sig = ("half", ok_side, out[bad_side].sig()[:3])
        # the completed side must not be able to get application data and
        # must learn about the failure on its next read
        r = pair.read(ok_side, None, 1)
        if r.status == "ok" and r.value:
            fails.append("%s completed although %s failed, and data was "
                         "delivered" % (ok_side, bad_side))
        elif r.status == "ok":
            fails.append("%s completed although %s failed (%r), and its "
                         "read reports a clean end of data" % (
                             ok_side, bad_side, out[bad_side].sig()))
        elif r.status == "stall":
            fails.append("%s completed although %s failed (%r), and learns "
                         "nothing" % (ok_side, bad_side,
                                      out[bad_side].sig()))
        e = out[bad_side].exc
        if not isinstance(e, E.TLSAlert) and not isinstance(
                e, (E.TLSAbruptCloseError, OSError)):
            fails.append("%s failed with %r" % (bad_side, e))
    else:
        sig = ("both-fail", out["C"].sig()[:3], out["S"].sig()[:3])
        for who in ("C", "S"):
            e = out[who].exc
            if out[who].status != "exc":
                fails.append("%s outcome %r" % (who, out[who]))
            elif isinstance(e, (E.TLSAlert, E.TLSAbruptCloseError, OSError,
                                E.TLSAuthenticationError)):
                pass
            else:
                fails.append("%s failed with %s: %s" % (
                    who, type(e).__name__, str(e)[:80]))
        kinds = [type(out[w].exc).__name__ for w in ("C", "S")]
        if "TLSLocalAlert" not in kinds and "TLSRemoteAlert" not in kinds:
            fails.append("handshake failed without any alert: %r" % (kinds,))
    return (fname, c19.label_of(cch), c19.label_of(sch), "run", fails, sig)


RESUME_CASES = [
    ("SSLv3-id", (3, 0), "TLS_RSA_WITH_AES_128_CBC_SHA", "id"),
    ("TLS1.0-id", (3, 1), "TLS_RSA_WITH_AES_128_CBC_SHA", "id"),
    ("TLS1.1-id", (3, 2), "TLS_DHE_RSA_WITH_AES_128_CBC_SHA", "id"),
    ("TLS1.2-id", (3, 3), "TLS_ECDHE_RSA_WITH_AES_128_GCM_SHA256", "id"),
    ("TLS1.2-ticket", (3, 3), "TLS_ECDHE_RSA_WITH_AES_128_GCM_SHA256",
     "ticket"),
    ("TLS1.2-ticket-cbc", (3, 3), "TLS_RSA_WITH_AES_256_CBC_SHA256",
     "ticket"),
    ("TLS1.3-psk", (3, 4), "TLS_AES_128_GCM_SHA256", "ticket"),
    ("TLS1.3-psk-384", (3, 4), "TLS_AES_256_GCM_SHA384", "ticket"),
]


# settings both ends keep on both connections of a resume case: extensions
# the resumed ServerHello has to carry again, alone and next to each other
RESUME_SETTINGS = {
    "rsl": ({"record_size_limit": 1024}, {"record_size_limit": 2048}),
    "rsl-client-no-heartbeat": (
        {"record_size_limit": 1024, "use_heartbeat_extension": False},
        {"record_size_limit": 2048}),
    "rsl-server-no-heartbeat": (
        {"record_size_limit": 1024},
        {"record_size_limit": 2048, "use_heartbeat_extension": False}),
    "rsl-client-only": ({"record_size_limit": 1024},
                        {"record_size_limit": None}),
    "rsl-server-only": ({"record_size_limit": None},
                        {"record_size_limit": 2048}),
    "no-heartbeat": ({"use_heartbeat_extension": False},
                     {"use_heartbeat_extension": False}),
}


def resume_case(item):
    """The same agreement on a *resumed* connection: full handshake, then a
    second connection offering the session; both ends of the second
    connection must hold identical views (incl. exported keying material)
    and the negotiated parameters of the first."""
    ri, variant, seed = item
    name, version, sname, mech = RESUME_CASES[ri]
    from tlslite.constants import CipherSuite as CS
    ckw = {"serverName": "example.test", "alpn": [b"h2", b"http/1.1"]}
    skw = {"alpn": [b"http/1.1", b"h2"]}
    cset, sset = RESUME_SETTINGS.get(variant, ({}, {}))
    sc = S.Scen("c03/resume-" + name, version=version,
                suite=getattr(CS, sname), cred="rsa",
                client_cred="c_rsa" if variant == "clientauth" else None,
                req_cert=variant == "clientauth", cache=(mech == "id"),
                tickets=(mech == "ticket"), ckw=ckw, skw=skw,
                cset=dict(cset), sset=dict(sset))
    cache = W.SessionCache() if mech == "id" else None
    pair, out = S.connect(sc, seed=seed, cache=cache)
    fails = []
    if not (out["C"].status == "ok" and out["S"].status == "ok"):
        return name, variant, None, ["first handshake failed: %r" % (out,)]
    pair.write("S", b"x")
    pair.read("C", None, 1)         # TLS 1.3 tickets arrive with the data
    v1 = W.view(pair.c)
    sess = pair.c.session
    pair.close("C")
    pair.read("S", None, 1)
    sc2 = sc
    if variant == "no-alpn":
        sc2 = S.Scen(sc.name, version=version, suite=sc.suite, cred="rsa",
                     cache=sc.cache, tickets=sc.tickets,
                     ckw={"serverName": "example.test"}, skw=skw)
    pair2, out2 = S.connect(sc2, seed=seed + 1, session=sess, cache=cache)
    if not (out2["C"].status == "ok" and out2["S"].status == "ok"):
        return name, variant, None, ["second handshake failed: %r" % (out2,)]
    resumed = bool(pair2.c.resumed)
    vc, vs = W.view(pair2.c), W.view(pair2.s)
    # no certificates are exchanged on a resumed connection: the chains are
    # C13's subject there (identity carried over), not an agreement item
    keys = tuple(k for k in W.SHARED_VIEW_KEYS if not resumed or k not in (
        "serverChain", "clientChain"))
    for (k, a, b) in W.views_equal(vc, vs, keys=keys):
        fails.append("%s connection: views differ on %s: client %r server "
                     "%r" % ("resumed" if resumed else "second", k,
                             str(a)[:40], str(b)[:40]))
    if resumed:
        for k in ("version", "suite", "ems", "serverName"):
            if vs.get(k) != v1.get(k):
                fails.append("resumed connection changed %s: %r -> %r" % (
                    k, v1.get(k), vs.get(k)))
        if version < (3, 4) and vc.get("etm") != v1.get("etm"):
            fails.append("resumed connection changed etm")
    pair2.write("C", b"ping")
    r = pair2.read("S", None, 4)
    if r.status != "ok" or bytes(r.value) != b"ping":
        fails.append("data after resumption: %r" % (r,))
    if variant in RESUME_SETTINGS:
        # record size limits are negotiated anew on every connection: what
        # one end sends must fit what the other end accepts, and a write
        # longer than every limit must arrive
        c2, s2 = pair2.c, pair2.s
        if c2._recv_record_limit < s2._send_record_limit or \
                s2._recv_record_limit < c2._send_record_limit:
            fails.append("%s connection: record limits disagree: client "
                         "recv %d / server send %d, server recv %d / client "
                         "send %d" % ("resumed" if resumed else "second",
                                      c2._recv_record_limit,
                                      s2._send_record_limit,
                                      s2._recv_record_limit,
                                      c2._send_record_limit))
        for (a, b) in (("C", "S"), ("S", "C")):
            blob = bytes(bytearray((i * 7 + 1) & 0xff for i in range(5000)))
            pair2.write(a, blob)
            r = pair2.read(b, None, len(blob))
            got = bytes(r.value) if r.status == "ok" else b""
            while r.status == "ok" and len(got) < len(blob):
                r = pair2.read(b, None, len(blob) - len(got))
                if r.status == "ok" and not r.value:
                    break
                got += bytes(r.value) if r.status == "ok" else b""
            if got != blob:
                fails.append("5000 octets from %s after resumption: %r, %d "
                             "octets arrived" % (a, r.status, len(got)))
    return name, variant, ("resumed" if resumed else "full",
                           vc.get("appProto")), fails


def run(res, tier, seed):
    res.coverage["rule"] = (
        "pairs (client settings, server settings) with <=1 changed dimension "
        "per side from the in-domain menus of C19 (34 values), crossed with "
        "15 handshake flavours (credential types, SRP, anon, PSK, client "
        "auth, ALPN, SNI, NPN): full cross on rsa-mutual, one-sided changes "
        "and both-sided changes of one dimension on the other flavours "
        "(quick); full cross everywhere (thorough); "
        "distinct by (flavour, client change, server change); non-trivial = "
        "at least one side changed")
    M = c19.conn_menus()
    singles = [()] + [((attr, v),) for attr, vals in M for v in vals]
    items = []
    for fname in FLAVOURS:
        full = (tier == "thorough") or fname == "rsa-mutual"
        for a in singles:
            for b in singles:
                if not full and a and b and a[0][0] != b[0][0]:
                    continue        # both changed: same dimension only
                items.append((fname, a, b, seed))
    n = 0
    done = 0
    for (fname, la, lb, status, fails, sig) in pmap(_work, items):
        n += 1
        res.count()
        res.outcome((fname, sig) if sig and sig[0] != "ok" else
                    ("ok",) + tuple(sig[1:4]) if sig else (status,))
        if sig and sig[0] == "ok":
            done += 1
        if n % 311 == 1:
            res.sample({"flavour": fname, "client": la, "server": lb,
                        "result": sig})
        for f in fails:
            res.violation({"flavour": fname, "what": f[:70]},
                          {"client": la, "server": lb, "fail": f,
                           "sig": sig},
                          {"flavour": fname, "client": la, "server": lb})
    res.section("pairs", pairs=n, completed_on_both=done,
                flavours=len(FLAVOURS), singles=len(singles))
    ritems = [(ri, var, seed) for ri in range(len(RESUME_CASES))
              for var in ("plain", "no-alpn", "clientauth") +
              tuple(sorted(RESUME_SETTINGS))]
    nres = 0
    for (name, var, sig, fails) in pmap(resume_case, ritems):
        n += 1
        res.count()
        res.outcome(("resume", name, var, sig))
        if sig and sig[0] == "resumed":
            nres += 1
        for f in fails:
            res.violation({"part": "resumed", "case": name, "variant": var,
                           "what": f[:60]}, {"fail": f, "sig": sig},
                          {"resume_case": name, "variant": var})
    res.section("resumed_connections", cases=len(ritems), resumed=nres)
    if nres < len(RESUME_CASES):
        res.violation({"part": "resumed", "what": "vacuous"},
                      {"fail": "only %d of %d cases resumed" % (
                          nres, len(ritems))}, None)
    res.coverage["distinct_nontrivial"] = n - len(FLAVOURS)
    res.assumptions.append(
        "serverSigAlg/ecdhCurve/dhGroupSize are policy-checked only on the "
        "endpoint where the library sets them")


def replay(case, seed):
    M = dict(c19.menus())

    def rebuild(labels):
        ch = []
        for lab in labels:
            attr, l = lab.split("=", 1)
            for v in M[attr]:
                if v[0] == l:
                    ch.append((attr, v))
        return tuple(ch)
    r = _work((case["flavour"], rebuild(case["client"]),
               rebuild(case["server"]), seed))
    return {"result": r}
