"""C17 - closure, truncation and transport failures are contained and
reported faithfully.

Deciding method: fault enumeration with the deviation-bounded explorer: a
transport fault (EOF / ECONNRESET at a recv, EPIPE / ECONNRESET at a send)
is injected at every I/O call index of both endpoints of every handshake
flavour followed by a data exchange and close, for the option combinations
closeSocket x ignoreAbruptClose; every execution is run to completion and
both endpoints are held to the containment rules.  Plus orderly-close
post-conditions (reads return b"", writes raise, session resumes) and every
placement of close_notify / warning / fatal alerts relative to data.
"""
import errno
import socket

import copy
from .. import world as W
from .. import scen as S
from .. import progs
from .. import explore
from ..core import pmap
from ..world import RECV_ALTS, SEND_ALTS, SEAMS
from tlslite import errors as E
from tlslite.messages import Alert
from tlslite.constants import AlertDescription, AlertLevel

LEVEL = "fault_enumeration"

OPTS = [{"closeSocket": True, "ignoreAbruptClose": False},
        {"closeSocket": False, "ignoreAbruptClose": False},
        {"closeSocket": True, "ignoreAbruptClose": True},
        {"closeSocket": False, "ignoreAbruptClose": True},
        # messages span three records and are read with read(min=len)
        {"closeSocket": True, "ignoreAbruptClose": False,
         "multi_record": True},
        {"closeSocket": False, "ignoreAbruptClose": True,
         "multi_record": True},
        # the client updates its keys between its two messages (TLS 1.3)
        {"closeSocket": True, "ignoreAbruptClose": False,
         "keyupdate": True},
        # the client sends a heartbeat request between its two messages
        {"closeSocket": True, "ignoreAbruptClose": False,
         "heartbeat": True},
        # the server asks for post-handshake authentication before its answer
        {"closeSocket": True, "ignoreAbruptClose": False, "pha": True}]


def allowed(point, alt):
    kind, who, info, nalts = point
    if kind == "recv":
        return RECV_ALTS[alt] in ("eof", "reset")
    return SEND_ALTS[alt] in ("epipe", "reset")


def scenarios(tier):
    fl = S.flavours("thorough")
    if tier == "quick":
        keep = ("SSLv3-RSA", "SSLv3-RSA-clientauth", "TLS1.0-DHE_RSA",
                "TLS1.1-ECDHE_RSA",
                "TLS1.2-RSA-clientauth", "TLS1.2-ECDHE_RSA-GCM",
                "TLS1.2-SRP", "TLS1.2-ECDHE_RSA-tickets", "TLS1.3-RSA",
                "TLS1.3-RSA-clientauth", "TLS1.3-HRR", "TLS1.3-tickets",
                "TLS1.3-PSK")
        fl = [s for s in fl if s.name in keep]
    return fl


def _hb_ignore(payload):
    return None


def make_run(arg):
    idx, tier, seed, oi = arg
    sc = scenarios(tier)[idx]
    opts = OPTS[oi]
    if opts.get("heartbeat"):
        sc = copy.copy(sc)
        sc.cset = dict(sc.cset)
        sc.cset["heartbeat_response_callback"] = _hb_ignore

    def run_fn(choices):
        points, obs = progs.run_session(sc, seed, choices,
                                        recv_alts=len(RECV_ALTS),
                                        send_alts=len(SEND_ALTS), opts=opts)
        return points, progs.public(obs)
    return run_fn


EXPECT = {"C": [("hs",), ("write", len(progs.MSG1)), ("read", progs.MSG2),
                ("write", len(progs.MSG3)), ("close", "ok")],
          "S": [("hs",), ("read", progs.MSG1), ("write", len(progs.MSG2)),
                ("read", progs.MSG3), ("read-eof", b""), ("close", "ok")]}

OK_EXC = ("TLSAbruptCloseError", "TLSRemoteAlert")
SOCK_EXC = ("OSError", "error", "ConnectionResetError", "BrokenPipeError",
            "ConnectionError", "BlockingIOError", "ConnectionAbortedError")


def check_endpoint(who, o, opts, faulted, peer_closed_socket,
                   clean_eof_ok=False):
    """Containment rules for one endpoint of one execution.  Returns list
    of failure strings."""
    fails = []
    log = o["log"]
    exp = EXPECT[who]
    out = o["outcome"]
    hs_done = bool(log) and log[0][0] == "hs"
    if o.get("dead_at_hs"):
        fails.append("handshake reported complete after this endpoint's "
                     "transport had failed (send error swallowed)")
    # log must be a prefix of the expected operation list, data a prefix
    for i, ent in enumerate(log):
        if ent[0] == "peer-closed":
            if not opts["ignoreAbruptClose"] and not clean_eof_ok:
                fails.append("truncation reported as end of data")
            break
        if i >= len(exp):
            fails.append("extra operation %r" % (ent,))
            break
        if ent[0] != exp[i][0]:
            fails.append("operation order %r" % (ent,))
            break
        if ent[0] in ("read", "read-eof"):
            if not exp[i][1].startswith(ent[1]):
                fails.append("delivered bytes are not a prefix of what was "
                             "written: %r" % (ent[1][:40],))
    if out is None:
        fails.append("no outcome")
        return fails
    st = out[0]
    if st == "budget":
        fails.append("step budget exhausted (spinning)")
    if st == "stall":
        # waiting for input that never comes is only legitimate if the
        # failing side left its socket open
        if peer_closed_socket:
            fails.append("stalled although the peer's socket is closed")
    if st == "exc":
        name = out[1]
        if name not in OK_EXC and name not in SOCK_EXC:
            fails.append("raised %s" % (out,))
        if name == "BlockingIOError":
            fails.append("raised %s" % (out,))
        if not o["closed"]:
            fails.append("connection not closed after %s" % (out,))
        if not hs_done:
            if o["resumable"]:
                fails.append("session resumable after a mid-handshake "
                             "failure")
        else:
            # after the handshake: fatal failure leaves session unusable,
            # unless the user opted into ignoring abrupt closes (write path)
            nlog = len([e for e in log if e[0] != "peer-closed"])
            interrupted = exp[nlog][0] if nlog < len(exp) else None
            if o["resumable"] and not (
                    opts["ignoreAbruptClose"] and interrupted == "write"):
                fails.append("session still resumable after %s during %s" %
                             (out, interrupted))
    if not hs_done and st == "ok":
        fails.append("program finished without handshake")
    return fails


ABORTS = [{"closeSocket": True, "ignoreAbruptClose": False,
           "abort": "client-after-hs"},
          {"closeSocket": True, "ignoreAbruptClose": False,
           "abort": "server-at-start"}]


def make_abort_run(arg):
    idx, tier, seed, ai = arg
    sc = scenarios(tier)[idx]
    opts = ABORTS[ai]

    def run_fn(choices):
        points, obs = progs.run_session(sc, seed, choices,
                                        recv_alts=len(RECV_ALTS),
                                        send_alts=len(SEND_ALTS), opts=opts)
        return points, progs.public(obs)
    return run_fn


def check_abort_victim(o, during_hs_only):
    """The peer sent a fatal alert and closed; on top of that one of the
    victim's own I/O calls may have failed.  Whatever it was doing must end
    in an exception with the connection torn down."""
    fails = []
    out = o["outcome"]
    if out is None:
        return ["no outcome"]
    if out[0] == "ok":
        fails.append("program finished although the peer aborted with a "
                     "fatal alert")
    elif out[0] in ("stall", "budget"):
        fails.append("victim %s although the peer closed its socket" % out[0])
    elif out[0] == "exc":
        if out[1] not in OK_EXC and out[1] not in SOCK_EXC:
            fails.append("raised %s" % (out,))
        if not o["closed"]:
            fails.append("connection not closed after %s" % (out,))
        if o["resumable"]:
            fails.append("session left resumable after %s" % (out,))
        if not o["sock_closed"]:
            fails.append("socket left open (closeSocket is set) after %s" %
                         (out,))
    return fails


def classify(points_dev, choices):
    out = []
    for (i, p) in zip(sorted(choices), points_dev):
        kind, who, info, nalts = p
        names = RECV_ALTS if kind == "recv" else SEND_ALTS
        out.append({"point": i, "kind": kind, "who": who,
                    "answer": names[choices[i]]})
    return out


# ---------------------------------------------------------------- orderly
def orderly_case(item):
    """Baseline run, then post-conditions of an orderly close and a real
    resumption of the session."""
    idx, tier, seed, oi = item
    sc = scenarios(tier)[idx]
    opts = OPTS[oi]
    fails = []
    points, obs = progs.run_session(sc, seed, opts=opts)
    pair = obs["_pair"]
    for who in ("C", "S"):
        o = obs[who]
        if o["outcome"] != ("ok",):
            fails.append("%s baseline outcome %r" % (who, o["outcome"]))
            continue
        if [e[:1] for e in o["log"]] != [e[:1] for e in EXPECT[who]]:
            fails.append("%s baseline log %r" % (who, o["log"]))
        ep = pair.ep(who)
        if not ep.closed:
            fails.append("%s not closed after close()" % who)
        if not o["resumable"]:
            fails.append("%s session not resumable after orderly close" % who)
        r = pair.read(who, None, 1)
        if r.status != "ok" or bytes(r.value or b"") != b"":
            fails.append("%s read after close -> %r" % (who, r))
        wr = pair.write(who, b"x")
        if wr.status != "exc" or not isinstance(
                wr.exc, E.TLSClosedConnectionError):
            fails.append("%s write after close -> %r" % (who, wr))
        if o["resumable"] and not ep.session.resumable:
            fails.append("%s session no longer resumable after the refused "
                         "write / empty read on the closed connection" % who)
    resumed = None
    if not fails and (sc.cache or sc.tickets or True):
        # actually resume (session id needs a cache; tickets need keys)
        sc2 = S.Scen(**dict(sc.as_dict()))
        sc2.cache = True
        p1, o1 = S.connect(sc2, seed=seed)
        if o1["C"].status == "ok" and o1["S"].status == "ok":
            # orderly close both ways
            p1.close("C")
            p1.read("S", None, 1)
            p1.close("S")
            sess = p1.c.session
            if sc.version >= (3, 4):
                # tickets arrive post-handshake: were read by close? make
                # sure at least the flag says resumable
                pass
            p2, o2 = S.connect(sc2, seed=seed + 1, session=sess,
                               cache=p1.cache, reset=False)
            if not (o2["C"].status == "ok" and o2["S"].status == "ok"):
                fails.append("resumption attempt failed %r %r" % (
                    o2["C"], o2["S"]))
            else:
                resumed = bool(p2.c.resumed)
                can = sc.version < (3, 4) and sc.flavour in (
                    "cert", "srp", "srpcert", "anon")
                if can and not resumed:
                    fails.append("session not resumed after orderly close")
    return sc.name, oi, fails, resumed


# ---------------------------------------------------------------- alerts
ALERTS = [("close_notify", AlertDescription.close_notify,
           AlertLevel.warning),
          ("user_canceled", AlertDescription.user_canceled,
           AlertLevel.warning),
          ("no_renegotiation", AlertDescription.no_renegotiation,
           AlertLevel.warning),
          ("handshake_failure", AlertDescription.handshake_failure,
           AlertLevel.fatal),
          ("internal_error", AlertDescription.internal_error,
           AlertLevel.fatal)]


def alert_case(item):
    """After the handshake the sender writes n_before data messages, the
    alert, and n_after data messages; the reader reads to the end."""
    idx, tier, seed, sender, ai, n_before, n_after = item
    sc = scenarios(tier)[idx]
    name, desc, level = ALERTS[ai]
    pair, out = S.connect(sc, seed=seed)
    fails = []
    if not (out["C"].status == "ok" and out["S"].status == "ok"):
        return sc.name, item[3:], ["handshake failed"], None
    reader = "S" if sender == "C" else "C"
    snd, rd = pair.ep(sender), pair.ep(reader)
    if sc.version >= (3, 4):
        pair.drain()
    data_before = b""
    for i in range(n_before):
        m = b"before-%d;" % i
        pair.write(sender, m)
        data_before += m
    W.run_gen(pair.world, sender,
              snd._sendMsg(Alert().create(desc, level)))
    for i in range(n_after):
        W.run_gen(pair.world, sender, snd.writeAsync(b"after-%d;" % i))
    got = b""
    result = None
    for _ in range(n_before + n_after + 4):
        r = pair.read(reader, None, 1)
        if r.status == "ok":
            if not r.value:
                result = ("eof",)
                break
            got += bytes(r.value)
        elif r.status == "exc":
            result = ("exc",) + W.exc_sig(r.exc)
            break
        else:
            result = (r.status,)
            break
    if not data_before.startswith(got) and got != data_before:
        fails.append("reader got %r, sender wrote %r before the alert" % (
            got, data_before))
    if b"after" in got:
        fails.append("data after the alert was delivered")
    if got != data_before:
        fails.append("data before the alert lost: got %r" % (got,))
    if name == "close_notify":
        if result != ("eof",):
            fails.append("close_notify -> %r" % (result,))
        if not rd.closed:
            fails.append("not closed after close_notify")
        if not rd.session.resumable:
            fails.append("session not resumable after close_notify")
    else:
        want = ("exc", "TLSRemoteAlert", desc, level)
        if result != want:
            fails.append("%s alert surfaced as %r" % (name, result))
        if not rd.closed:
            fails.append("not closed after %s" % name)
        if level == AlertLevel.fatal and rd.session.resumable:
            fails.append("session resumable after fatal alert")
    w2 = pair.write(reader, b"x")
    if w2.status != "exc":
        fails.append("write after alert did not raise: %r" % (w2,))
    return sc.name, item[3:], fails, result


def close_alert_case(item):
    """One side calls close() (closeSocket False, so it waits for the peer's
    close_notify); the peer answers with each kind of alert instead, or
    with data followed by close_notify.  A fatal alert must be surfaced."""
    idx, tier, seed, closer, ai, n_data = item
    sc = scenarios(tier)[idx]
    name, desc, level = ALERTS[ai]
    pair, out = S.connect(sc, seed=seed)
    fails = []
    if not (out["C"].status == "ok" and out["S"].status == "ok"):
        return sc.name, item[3:], ["handshake failed"], None
    pair.drain()
    peer = "S" if closer == "C" else "C"
    cl, pe = pair.ep(closer), pair.ep(peer)
    cl.closeSocket = False
    inpipe = pair.world.s2c if closer == "C" else pair.world.c2s
    unread = bool(inpipe.buf) or \
        bool(getattr(cl.sock, "_read_buffer", b"")) or \
        not cl._defragmenter.is_empty()
    # the peer's answer is already in flight when close() starts to wait
    for i in range(n_data):
        pair.write(peer, b"in-flight-%d;" % i)
    W.run_gen(pair.world, peer, pe._sendMsg(Alert().create(desc, level)))
    r = pair.close(closer)
    result = (r.status,) + (W.exc_sig(r.exc) if r.status == "exc" else ())
    if name == "close_notify":
        if r.status != "ok":
            fails.append("close() answered by close_notify -> %r" % (result,))
        elif not cl.session.resumable:
            fails.append("session not resumable after orderly close")
    elif level == AlertLevel.fatal:
        if result != ("exc", "TLSRemoteAlert", desc, level):
            fails.append("fatal %s received while closing surfaced as %r" % (
                name, result))
        if cl.session.resumable:
            fails.append("session resumable after fatal alert while closing")
    if not cl.closed:
        fails.append("not closed after close()")
    if fails and unread and sc.version >= (3, 4) and \
            result[:3] == ("exc", "TLSLocalAlert", 10):
        fails = ["[tls13-close-unread-post-handshake-message] " + f
                 for f in fails]
    return sc.name, item[3:], fails, result


SHARED_ENDINGS = ["clean", "fatal", "abrupt"]


def shared_session_case(item):
    """Two connections that share one session (B resumed from A's session
    while A is still open; session-ID resumption shares the Session object
    on both ends): every pair of endings in both orders.  A failure on one
    connection must keep the session non-resumable whatever the other one
    does afterwards, and a later offer must not be resumed."""
    idx, tier, seed, first, end_a, end_b = item
    sc0 = scenarios(tier)[idx]
    sc = S.Scen(**dict(sc0.as_dict()))
    sc.cache = True
    fails = []
    cache = W.SessionCache()
    pa, oa = S.connect(sc, seed=seed, cache=cache)
    if not (oa["C"].status == "ok" and oa["S"].status == "ok"):
        return sc.name, item[3:], ["first handshake failed"], None
    sess = pa.c.session
    pb, ob = S.connect(sc, seed=seed + 1, session=sess, cache=cache,
                       reset=False)
    if not (ob["C"].status == "ok" and ob["S"].status == "ok"):
        return sc.name, item[3:], ["second handshake failed %r" % (ob,)], None
    if not pb.c.resumed:
        return sc.name, item[3:], [], ("not-resumed",)

    def end(pair, how):
        if how == "clean":
            pair.close("C")
            pair.read("S", None, 1)
            pair.close("S")
        elif how == "fatal":
            pair.world.c2s.inject(b"\x17\x03\x03\x00\x20" + b"\xa5" * 32)
            pair.read("S", None, 1)
            pair.read("C", None, 1)
        else:
            pair.world.csock.close()
            pair.world.ssock.close()
            pair.read("S", None, 1)
            pair.read("C", None, 1)
    order = [("A", pa, end_a), ("B", pb, end_b)]
    if first == "B":
        order.reverse()
    for (_, pair, how) in order:
        end(pair, how)
    failed = end_a != "clean" or end_b != "clean"
    c_res = bool(sess.resumable)
    try:
        s_sess = cache[sess.sessionID]
        s_res = True
    except KeyError:
        s_res = False
    if failed and c_res:
        fails.append("client session resumable although a connection using "
                     "it ended with %s" % (end_a if end_a != "clean" else
                                           end_b))
    if failed and s_res and not sc.tickets:
        # (with tickets B is resumed statelessly: the server cannot relate
        # its failure to the cache entry made for A)
        fails.append("server cache still serves the session although a "
                     "connection using it ended with %s" % (
                         end_a if end_a != "clean" else end_b))
    if not failed and not (c_res and s_res):
        fails.append("session not resumable after two orderly closes")
    # a third connection offering the session
    p3, o3 = S.connect(sc, seed=seed + 2, session=sess, cache=cache,
                       reset=False)
    ok3 = o3["C"].status == "ok" and o3["S"].status == "ok"
    resumed3 = bool(ok3 and p3.c.resumed)
    if failed and resumed3:
        fails.append("session resumed after a connection using it had "
                     "failed")
    if not ok3:
        fails.append("third connection failed: %r" % (o3,))
    return sc.name, item[3:], fails, (failed, c_res, s_res, resumed3)


def hs_alert_case(item):
    """A plaintext alert injected before record k of the handshake flight
    towards the victim (only while records are still in the clear)."""
    idx, tier, seed, direction, k, ai = item
    sc = scenarios(tier)[idx]
    name, desc, level = ALERTS[ai]
    fired = {"n": 0}

    def install(w):
        pipe = w.c2s if direction == "c2s" else w.s2c

        def mitm(p, i, rec):
            if i == k and rec[0] in (22,):
                fired["n"] += 1
                ver = bytes(rec[1:3])
                return [b"\x15" + ver + b"\x00\x02" + bytes([level, desc]),
                        rec]
            return [rec]
        pipe.mitm = mitm
    pts, obs = progs.run_session(sc, seed, mitm=install)
    victim = "S" if direction == "c2s" else "C"
    o = obs[victim]
    fails = []
    if not fired["n"]:
        return sc.name, item[3:], [], None
    out = o["outcome"]
    if out and out[0] == "ok" and o["log"] and o["log"][0][0] == "hs":
        fails.append("handshake reported complete although a %s alert was "
                     "received" % name)
    if out and out[0] == "exc":
        if out[1] != "TLSRemoteAlert" or out[2] != desc:
            # an unprotected alert after the peer switched to encryption is
            # a protocol error of its own
            if out[1] not in ("TLSLocalAlert",):
                fails.append("alert surfaced as %r" % (out,))
        if not o["closed"]:
            fails.append("not closed")
        if not o.get("sock_closed", True):
            # (closeSocket is True here: the transport goes with it)
            fails.append("socket left open after the alert")
        if o["resumable"]:
            fails.append("resumable after alert during handshake")
    if out and out[0] in ("stall", "budget"):
        fails.append("victim %s" % out[0])
    return sc.name, item[3:], fails, out


def run(res, tier, seed):
    res.coverage["rule"] = (
        "one transport fault (recv: EOF, ECONNRESET; send: EPIPE, "
        "ECONNRESET) at every I/O call index of either endpoint of every "
        "scenario (handshake + 3-message exchange + close) x closeSocket x "
        "ignoreAbruptClose; orderly-close post-conditions incl. real "
        "resumption; every placement (0-2 data records before, 0-1 after) of "
        "5 alert kinds from either side after the handshake and before each "
        "plaintext handshake record; distinct by (scenario, options, fault "
        "point, fault kind); non-trivial = the fault hit a call that would "
        "otherwise have moved bytes")
    scs = scenarios(tier)
    total = 0
    pts_total = 0
    for idx, sc in enumerate(scs):
        for oi, opts in enumerate(OPTS):
            if tier == "quick" and oi in (1, 3) and idx % 3:
                continue
            if opts.get("keyupdate") and sc.version < (3, 4):
                continue
            if opts.get("heartbeat") and sc.version < (3, 1):
                continue        # no extensions in SSLv3
            if opts.get("pha") and (sc.version < (3, 4) or
                                    not sc.client_cred):
                continue
            points, base, results = explore.explore_parallel(
                make_run, (idx, tier, seed, oi), 1, allowed)
            pts_total += len(points)
            for (choices, pdev, obs) in results:
                total += 1
                res.count()
                devs = classify(pdev, choices)
                faulted = devs[0]["who"]
                fails = []
                for who in ("C", "S"):
                    other = "S" if who == "C" else "C"
                    # did the other side close its socket?
                    peer_closed = (opts["closeSocket"] and
                                   obs[other]["outcome"][0] != "stall") or \
                        devs[0]["answer"] in ("reset", "epipe")
                    fails += ["%s: %s" % (who, f) for f in check_endpoint(
                        who, obs[who], opts, faulted == who, peer_closed)]
                # the client finished its program (its close_notify is on
                # the wire), the server read everything, and the one fault
                # is a *send* of the server's after that: only the answer to
                # the close_notify was lost.  That is an orderly close, not
                # a truncation.
                slog = obs["S"]["log"]
                if devs[0]["kind"] == "send" and faulted == "S" and \
                        obs["C"]["outcome"] == ("ok",) and \
                        len(slog) >= 4 and slog[3][0] == "read" and \
                        slog[3][1] == progs.MSG3 and \
                        obs["S"]["outcome"][:2] == (
                            "exc", "TLSAbruptCloseError"):
                    fails.append("S: the peer's close_notify was received "
                                 "and only the answer to it could not be "
                                 "sent: reported as an abrupt close")
                res.outcome((obs["C"]["outcome"][:2], obs["S"]["outcome"][:2],
                             len(obs["C"]["log"]), len(obs["S"]["log"])))
                if total % 500 == 1:
                    res.sample({"scenario": sc.name, "opts": opts,
                                "fault": devs, "C": obs["C"]["outcome"],
                                "S": obs["S"]["outcome"]})
                for f in fails:
                    res.violation({"part": "fault", "scenario": sc.name,
                                   "what": f[:60],
                                   "kind": devs[0]["kind"] + ":" +
                                   devs[0]["answer"]},
                                  {"opts": opts, "fault": devs, "fail": f,
                                   "C": obs["C"]["outcome"],
                                   "S": obs["S"]["outcome"],
                                   "Clog": len(obs["C"]["log"]),
                                   "Slog": len(obs["S"]["log"])},
                                  {"part": "fault", "scenario": sc.name,
                                   "opts": oi, "choices": dict(
                                       (str(k), v) for k, v in
                                       choices.items())})
    res.section("faults", scenarios=len(scs), executions=total,
                io_points=pts_total)
    # the peer aborts with a fatal alert and closes; plus one fault
    na = 0
    for idx, sc in enumerate(scs):
        for ai, aopts in enumerate(ABORTS):
            victim = "S" if aopts["abort"] == "client-after-hs" else "C"
            points, base, results = explore.explore_parallel(
                make_abort_run, (idx, tier, seed, ai), 1, allowed)
            runs = [({}, [], base)] + list(results)
            for (choices, pdev, obs) in runs:
                na += 1
                res.count()
                devs = classify(pdev, choices) if choices else []
                res.outcome(("abort", aopts["abort"],
                             obs[victim]["outcome"][:3]))
                for f in check_abort_victim(obs[victim], victim == "C"):
                    res.violation(
                        {"part": "peer-abort", "scenario": sc.name,
                         "abort": aopts["abort"], "what": f[:60],
                         "kind": (devs[0]["kind"] + ":" + devs[0]["answer"])
                         if devs else "no-fault"},
                        {"fault": devs, "fail": f,
                         "victim": obs[victim]["outcome"]},
                        {"part": "peer-abort", "scenario": sc.name,
                         "abort": ai, "choices": dict(
                             (str(k), v) for k, v in choices.items())})
    res.section("peer_abort_plus_fault", executions=na,
                aborts=[a["abort"] for a in ABORTS])
    # orderly close
    items = [(i, tier, seed, oi) for i in range(len(scs))
             for oi in range(len(OPTS))]
    n_res = 0
    for (name, oi, fails, resumed) in pmap(orderly_case, items):
        res.count()
        res.outcome(("orderly", bool(fails), resumed))
        n_res += 1 if resumed else 0
        for f in fails:
            res.violation({"part": "orderly", "scenario": name,
                           "what": f[:60]}, {"opts": OPTS[oi], "fail": f},
                          {"part": "orderly", "scenario": name, "opts": oi})
    res.section("orderly_close", cases=len(items), resumed=n_res)
    # alerts after the handshake
    items = []
    for i in range(len(scs)):
        if tier == "quick" and i % 2:
            continue
        for sender in ("C", "S"):
            for ai in range(len(ALERTS)):
                for nb in (0, 1, 2):
                    for na in (0, 1):
                        items.append((i, tier, seed, sender, ai, nb, na))
    for (name, it, fails, result) in pmap(alert_case, items):
        res.count()
        res.outcome(("alert", result))
        for f in fails:
            res.violation({"part": "alert", "scenario": name,
                           "alert": ALERTS[it[1]][0], "what": f[:50]},
                          {"item": it, "fail": f, "result": result},
                          {"part": "alert", "scenario": name, "item": it})
    res.section("alerts_after_handshake", cases=len(items))
    items = []
    for i in range(len(scs)):
        for closer in ("C", "S"):
            for ai in range(len(ALERTS)):
                for nd in (0, 1):
                    items.append((i, tier, seed, closer, ai, nd))
    for (name, it, fails, result) in pmap(close_alert_case, items):
        res.count()
        res.outcome(("close-alert", result))
        for f in fails:
            if f.startswith("[tls13-close-unread-post-handshake-message]"):
                res.violation({"part": "close-alert",
                               "tls13_close_with_unread_handshake_message":
                               True}, {"item": it, "fail": f,
                                       "result": result, "scenario": name},
                              {"part": "close-alert", "scenario": name,
                               "item": it})
                continue
            res.violation({"part": "close-alert", "scenario": name,
                           "alert": ALERTS[it[1]][0], "what": f[:50]},
                          {"item": it, "fail": f, "result": result},
                          {"part": "close-alert", "scenario": name,
                           "item": it})
    res.section("alerts_while_closing", cases=len(items))
    items = []
    for i in range(len(scs)):
        if scs[i].version >= (3, 4) or scs[i].flavour == "psk":
            continue
        for first in ("A", "B"):
            for ea in SHARED_ENDINGS:
                for eb in SHARED_ENDINGS:
                    items.append((i, tier, seed, first, ea, eb))
    nsh = 0
    for (name, it, fails, sig) in pmap(shared_session_case, items):
        nsh += 1
        res.count()
        res.outcome(("shared-session", sig))
        for f in fails:
            res.violation({"part": "shared-session", "scenario": name,
                           "what": f[:50]},
                          {"item": it, "fail": f, "sig": sig},
                          {"part": "shared-session", "scenario": name,
                           "item": it})
    res.section("two_connections_one_session", cases=nsh)
    items = []
    for i in range(len(scs)):
        for direction in ("c2s", "s2c"):
            for k in range(0, 4):
                for ai in (0, 1, 3):
                    items.append((i, tier, seed, direction, k, ai))
    nh = 0
    for (name, it, fails, out) in pmap(hs_alert_case, items):
        res.count()
        res.outcome(("hsalert", out[:2] if out else None))
        nh += 1
        for f in fails:
            res.violation({"part": "hs-alert", "scenario": name,
                           "alert": ALERTS[it[2]][0], "what": f[:50]},
                          {"item": it, "fail": f, "out": out},
                          {"part": "hs-alert", "scenario": name, "item": it})
    res.section("alerts_during_handshake", cases=nh)
    res.coverage["distinct_nontrivial"] = res.coverage["evaluations"]


def replay(case, seed):
    tier = "thorough"
    names = [s.name for s in scenarios(tier)]
    idx = names.index(case["scenario"])
    if case["part"] == "fault":
        ch = dict((int(k), v) for k, v in case["choices"].items())
        run_fn = make_run((idx, tier, seed, case["opts"]))
        pts, obs = run_fn(ch)
        return {"fault": classify([pts[i] for i in sorted(ch)], ch),
                "obs": obs}
    if case["part"] == "peer-abort":
        ch = dict((int(k), v) for k, v in case["choices"].items())
        pts, obs = make_abort_run((idx, tier, seed, case["abort"]))(ch)
        return {"fault": classify([pts[i] for i in sorted(ch)], ch),
                "obs": obs}
    if case["part"] == "orderly":
        return {"r": orderly_case((idx, tier, seed, case["opts"]))}
    if case["part"] == "alert":
        return {"r": alert_case((idx, tier, seed) + tuple(case["item"]))}
    return {"r": hs_alert_case((idx, tier, seed) + tuple(case["item"]))}
