"""C20 - negotiated cipher-suite semantics match the IANA name.

Deciding method: exhaustive product enumeration - every suite identifier the
library knows x every protocol version, live loopback handshakes, the wire
observed through the tap, every protected record opened by a record layer
configured from the IANA name alone; plus man-in-the-middle substitution of
every suite id into ClientHello / ServerHello to show a suite is never
selected or accepted in a version that does not define it.
"""
import struct

from .. import world as W
from .. import scen as S
from .. import ianasuite
from .. import refrecord
from ..core import pmap
from tlslite.constants import CipherSuite, AlertDescription
CS = CipherSuite
HRR_RANDOM = bytes.fromhex(
    "cf21ad74e59a6111be1d8c021e65b891c2a211167abb8c5e079e09e2c8a8339c")

LEVEL = "exploration"

HS_NAMES = {1: "client_hello", 2: "server_hello", 4: "new_session_ticket",
            11: "certificate", 12: "server_key_exchange",
            13: "certificate_request", 14: "server_hello_done",
            15: "certificate_verify", 16: "client_key_exchange",
            20: "finished"}


def plaintext_handshake(log):
    """Handshake messages in the plaintext prefix of one direction:
    list of (type, body)."""
    buf = b""
    for (t, v, body) in W.split_records(log):
        if t == 20 or t is None:
            break
        if t == 22:
            buf += body
        elif t == 23:
            break
    out = []
    i = 0
    while i + 4 <= len(buf):
        ln = int.from_bytes(buf[i + 1:i + 4], "big")
        if i + 4 + ln > len(buf):
            break
        out.append((buf[i], buf[i + 4:i + 4 + ln]))
        i += 4 + ln
    return out


def ske_kind(body, info, version):
    """Classify a ServerKeyExchange body structurally."""
    try:
        if body[0] == 3 and len(body) > 4:        # named_curve
            plen = body[3]
            rest = body[4 + plen:]
            return "ecdh", rest
        # dh_p / srp N
        o = 0
        fields = []
        for _ in range(3):
            ln = int.from_bytes(body[o:o + 2], "big")
            fields.append(body[o + 2:o + 2 + ln])
            o += 2 + ln
        if info.kex == "SRP":
            # N, g, s(1-byte len), B
            o = 0
            ln = int.from_bytes(body[o:o + 2], "big"); o += 2 + ln
            ln = int.from_bytes(body[o:o + 2], "big"); o += 2 + ln
            ln = body[o]; o += 1 + ln
            ln = int.from_bytes(body[o:o + 2], "big"); o += 2 + ln
            return "srp", body[o:]
        return "dh", body[o:]
    except Exception:
        return "unparsable", b""


def cert_key_type(cert_body, tls13=False):
    """Key type of the end-entity certificate in a Certificate message."""
    from tlslite.x509 import X509
    o = 3
    ln = int.from_bytes(cert_body[o:o + 3], "big")
    der = cert_body[o + 3:o + 3 + ln]
    x = X509()
    x.parseBinary(bytearray(der))
    return x.certAlg


def case(item):
    v, sid, seed = item
    info = S.ALL_INFOS[sid]
    name = info.name
    rec = {"suite": name, "version": S.VNAME[v], "fails": [], "outcome": None}
    expect = ianasuite.defined_in(info, v) and \
        info.setting_cipher() is not None and \
        info.setting_mac() is not None and \
        (info.tls13 or info.setting_kex() is not None)
    offered = expect and S.library_offers(v, sid)
    if not expect:
        rec["outcome"] = "not-configurable"
        return rec
    sc = S.scen_for_suite(v, sid, True)
    pair, out = S.connect(sc, seed=seed)
    ok = out["C"].status == "ok" and out["S"].status == "ok"
    if not ok:
        rec["outcome"] = "failed"
        if offered and not (v == (3, 0) and info.kex.startswith("ECDH")):
            rec["fails"].append("library offers the suite but handshake "
                                "failed: %r %r" % (out["C"], out["S"]))
        return rec
    if not offered:
        rec["fails"].append("completed although the library does not list "
                            "the suite as offered")
    rec["outcome"] = "completed"
    c, s = pair.c, pair.s
    if c.session.cipherSuite != sid or s.session.cipherSuite != sid:
        rec["fails"].append("negotiated other suite %r" %
                            (c.session.cipherSuite,))
        return rec
    if tuple(c.version) != v or tuple(s.version) != v:
        rec["fails"].append("negotiated other version")
    # (4) accessor names
    want_c = info.session_cipher_name()
    want_m = info.session_mac_name()
    for who, ep in (("C", c), ("S", s)):
        got = ep.session.getCipherName()
        if got != want_c:
            rec["fails"].append("%s session.getCipherName()=%r want %r" % (
                who, got, want_c))
        gotm = ep.session.getMacName()
        if want_m == "aead":
            if gotm not in (None, "aead"):
                rec["fails"].append("%s session.getMacName()=%r for an "
                                    "AEAD suite" % (who, gotm))
        elif gotm != want_m:
            rec["fails"].append("%s session.getMacName()=%r want %r" % (
                who, gotm, want_m))
        gc = ep.getCipherName()
        base = {"aes128gcm": "aes128gcm", "aes256gcm": "aes256gcm",
                "aes128ccm": "aes128ccm", "aes256ccm": "aes256ccm",
                "aes128ccm_8": "aes128ccm_8", "aes256ccm_8": "aes256ccm_8",
                "chacha20-poly1305_draft00": "chacha20-poly1305",
                "null": None}.get(want_c, want_c)
        if gc != base:
            rec["fails"].append("%s connection.getCipherName()=%r want %r" %
                                (who, gc, base))
        impl = ep.getCipherImplementation()
        if want_c != "null" and impl != "python":
            rec["fails"].append("%s getCipherImplementation()=%r" % (who,
                                                                     impl))
    # (2) messages on the wire
    cm = plaintext_handshake(pair.world.c2s.log)
    sm = plaintext_handshake(pair.world.s2c.log)
    st = [t for t, _ in sm]
    ct = [t for t, _ in cm]
    rec["smsgs"] = [HS_NAMES.get(t, t) for t in st]
    if not info.tls13:
        has_ske = 12 in st
        if info.kex == "RSA":
            if has_ske:
                rec["fails"].append("ServerKeyExchange sent for RSA key "
                                    "transport")
        else:
            if not has_ske:
                rec["fails"].append("no ServerKeyExchange for %s" % info.kex)
            else:
                body = [b for t, b in sm if t == 12][0]
                kind, rest = ske_kind(body, info, v)
                wantk = {"DHE": "dh", "DH": "dh", "ECDHE": "ecdh",
                         "ECDH": "ecdh", "SRP": "srp"}[info.kex]
                if kind != wantk:
                    rec["fails"].append("ServerKeyExchange kind %s want %s"
                                        % (kind, wantk))
                signed = len(rest) > 0
                want_signed = info.auth in ("RSA", "ECDSA", "DSS")
                if signed != want_signed:
                    rec["fails"].append("ServerKeyExchange signed=%s want %s"
                                        % (signed, want_signed))
        has_cert = 11 in st
        want_cert = info.auth in ("RSA", "ECDSA", "DSS")
        if has_cert != want_cert:
            rec["fails"].append("server Certificate present=%s want %s" % (
                has_cert, want_cert))
        if has_cert:
            kt = cert_key_type([b for t, b in sm if t == 11][0])
            wantkt = {"RSA": ("rsa", "rsa-pss"), "ECDSA": ("ecdsa",),
                      "DSS": ("dsa",)}[info.auth]
            if kt not in wantkt:
                rec["fails"].append("server certificate key type %s for %s" %
                                    (kt, info.auth))
        if 16 not in ct:
            rec["fails"].append("no ClientKeyExchange")
        else:
            cke = [b for t, b in cm if t == 16][0]
            if info.kex == "RSA":
                ok_len = len(cke) in (128, 130, 256, 258)
            elif info.kex in ("ECDHE", "ECDH"):
                ok_len = len(cke) == 1 + cke[0]
            else:
                ok_len = len(cke) == 2 + int.from_bytes(cke[:2], "big")
            if not ok_len:
                rec["fails"].append("ClientKeyExchange shape (len %d) does "
                                    "not fit %s" % (len(cke), info.kex))
        # ServerHello carries the suite
        sh = [b for t, b in sm if t == 2][0]
        sidlen = sh[34]
        wire_suite = int.from_bytes(sh[35 + sidlen:37 + sidlen], "big")
        if wire_suite != sid:
            rec["fails"].append("ServerHello suite %04x" % wire_suite)
    # (3) traffic: write data both ways, then witness
    view0 = W.view(c, exporter=False)
    view0["cl_app0"] = view0.get("cl_app")
    view0["sr_app0"] = view0.get("sr_app")
    msg1 = b"client->server " + name.encode()
    msg2 = b"server->client " + name.encode()
    pair.write("C", msg1)
    r1 = pair.read("S", None, len(msg1))
    pair.write("S", msg2)
    r2 = pair.read("C", None, len(msg2))
    if r1.status != "ok" or bytes(r1.value) != msg1 or r2.status != "ok" \
            or bytes(r2.value) != msg2:
        rec["fails"].append("data exchange failed %r %r" % (r1, r2))
    if info.tls13:
        # the hash in the name also drives the KeyUpdate derivation: update
        # both directions (client asks, server answers) and send more data
        from tlslite.constants import KeyUpdateMessageType as KU
        o = W.run_gen(pair.world, "C", c.send_keyupdate_request(
            KU.update_requested))
        msg3 = b"after update, client->server " + name.encode()
        msg4 = b"after update, server->client " + name.encode()
        pair.write("C", msg3)
        r3 = pair.read("S", None, len(msg3))
        pair.write("S", msg4)
        r4 = pair.read("C", None, len(msg4))
        if o.status != "ok" or r3.status != "ok" or \
                bytes(r3.value or b"") != msg3 or r4.status != "ok" or \
                bytes(r4.value or b"") != msg4:
            rec["fails"].append("data exchange after KeyUpdate failed %r %r "
                                "%r" % (o, r3, r4))
        msg1 += msg3
        msg2 += msg4
    w = refrecord.witness(view0, info, pair.world.c2s.log,
                          pair.world.s2c.log, c._clientRandom,
                          c._serverRandom)
    if info.tls13:
        nku = sum(w["key_updates"].values())
        if nku != 2:
            rec["fails"].append("reference record layer saw %d KeyUpdate "
                                "messages, expected one per direction" % nku)
    for e in w["errors"]:
        rec["fails"].append("reference record layer (keyed from the name) "
                            "cannot open a record: %s %s" % e)
    app_c = b"".join(pt for (t, pt, il, rl) in w["c2s"] if t == 23)
    app_s = b"".join(pt for (t, pt, il, rl) in w["s2c"] if t == 23)
    if app_c != msg1 or app_s != msg2:
        rec["fails"].append("reference record layer recovered other "
                            "application bytes")
    # Finished is the first protected record of each direction (<=1.2)
    if not info.tls13:
        for d in ("c2s", "s2c"):
            if not w[d] or w[d][0][0] != 22 or w[d][0][1][:1] != b"\x14":
                rec["fails"].append("first protected record in %s is not a "
                                    "Finished" % d)
            else:
                vd = w[d][0][1][4:]
                want = 36 if v == (3, 0) else 12
                if len(vd) != want:
                    rec["fails"].append("verify_data length %d" % len(vd))
    rec["records"] = len(w["c2s"]) + len(w["s2c"])
    # record expansion implied by the name
    for d in ("c2s", "s2c"):
        for (t, pt, il, rl) in w[d]:
            if t != 23:
                continue
            if info.tls13:
                exp = il + (8 if info.mode == "CCM_8" else 16)
                okl = rl == exp
            elif info.mode in ("GCM", "CCM", "CCM_8"):
                okl = rl == len(pt) + 8 + (8 if info.mode == "CCM_8" else 16)
            elif info.mode == "POLY1305":
                okl = rl == len(pt) + 16
            elif info.mode == "STREAM":
                okl = rl == len(pt) + info.maclen
            else:
                bs = info.blocklen
                iv = bs if v >= (3, 2) else 0
                if c.encryptThenMAC:
                    padded = (len(pt) // bs + 1) * bs
                    okl = rl == iv + padded + info.maclen
                else:
                    padded = ((len(pt) + info.maclen) // bs + 1) * bs
                    okl = rl == iv + padded
            if not okl:
                rec["fails"].append("record length %d does not match the "
                                    "expansion the name implies for %d "
                                    "plaintext bytes" % (rl, len(pt)))
    return rec


# ---------------------------------------------------------------- multi-cert
MULTI_CREDS = [("rsa", "ecdsa"), ("ecdsa", "rsa"), ("rsa_nonca",
                                                    "ecdsa_nonca"),
               ("ecdsa_nonca", "rsa_nonca"), ("rsa", "ecdsa_nonca"),
               ("ecdsa_nonca", "rsa"), ("rsa", "ed25519"), ("ed25519", "rsa"),
               ("dsa", "ecdsa"), ("rsa_nonca", "dsa")]
MULTI_CLIENTS = {
    "default": {},
    "sha384-512": {"rsaSigHashes": ["sha384", "sha512"],
                   "ecdsaSigHashes": ["sha384", "sha512"]},
    "sha256": {"rsaSigHashes": ["sha256"], "ecdsaSigHashes": ["sha256"]},
    "ecdsa-first": {"keyExchangeNames": ["ecdhe_ecdsa", "ecdhe_rsa", "rsa",
                                         "dhe_rsa", "dhe_dsa"]},
    "rsa-only": {"keyExchangeNames": ["ecdhe_rsa", "rsa", "dhe_rsa"]},
    "ecdsa-only": {"keyExchangeNames": ["ecdhe_ecdsa"]},
    "pkcs1-only": {"rsaSchemes": ["pkcs1"]},
}
KEYTYPE_AUTH = {"rsa": "RSA", "rsa-pss": "RSA", "ecdsa": "ECDSA",
                "dsa": "DSS", "Ed25519": "ECDSA", "Ed448": "ECDSA"}


def multi_case(item):
    """A server holding two key pairs of different types (default pair plus
    one virtual host): whatever it picks, the certificate it sends and the
    signature it makes must be of the type the negotiated suite's name
    says."""
    from tlslite.handshakesettings import VirtualHost, Keypair
    pi, cname, v, seed = item
    a, b = MULTI_CREDS[pi]
    name = "%s+%s/%s/%s" % (a, b, cname, S.VNAME[v])
    SEAMS_name = "c20/multi-" + name
    from ..world import SEAMS, Pair, load_cred
    SEAMS.reset(seed, SEAMS_name)
    pair = Pair()
    cst = S.base_settings(minv=(3, 0), maxv=v)
    for k, val in MULTI_CLIENTS[cname].items():
        setattr(cst, k, val)
    sst = S.base_settings(minv=(3, 0), maxv=v)
    chain_a, key_a = load_cred(a)
    chain_b, key_b = load_cred(b)
    vh = VirtualHost()
    vh.keys = [Keypair(key_b, chain_b.x509List)]
    vh.hostnames = set([b"other.example"])
    sst.virtual_hosts = [vh]
    SEAMS.current = "C"
    cg = pair.c.handshakeClientCert(settings=cst, async_=True)
    SEAMS.current = "S"
    sg = pair.s.handshakeServerAsync(certChain=chain_a, privateKey=key_a,
                                     settings=sst)
    SEAMS.current = "main"
    try:
        out = pair.handshake(cg, sg, max_steps=60000)
    except ValueError:
        return name, ("invalid-settings",), []
    fails = []
    if not (out["C"].status == "ok" and out["S"].status == "ok"):
        # what the server put on the wire is judged all the same (the
        # library's own client now refuses a certificate of the wrong type)
        sm = plaintext_handshake(pair.world.s2c.log)
        shs = [bd for t, bd in sm if t == 2 and bytes(bd[2:34]) != HRR_RANDOM]
        certs = [bd for t, bd in sm if t == 11]
        if shs and certs:
            b = shs[-1]
            o = 2 + 32
            o += 1 + b[o]
            wsuite = int.from_bytes(b[o:o + 2], "big")
            winfo = S.ALL_INFOS.get(wsuite)
            if winfo is not None and not winfo.tls13:
                kt = cert_key_type(certs[0])
                if KEYTYPE_AUTH.get(kt) != winfo.auth:
                    fails.append("suite %s selected, server certificate key "
                                 "type is %s" % (winfo.name, kt))
        return name, ("failed", out["S"].sig()[:3]), fails
    sid = pair.c.session.cipherSuite
    info = S.ALL_INFOS[sid]
    sm = plaintext_handshake(pair.world.s2c.log)
    kt = None
    if not info.tls13:
        certs = [bd for t, bd in sm if t == 11]
        if certs:
            kt = cert_key_type(certs[0])
            if KEYTYPE_AUTH.get(kt) != info.auth:
                fails.append("suite %s negotiated, server certificate key "
                             "type is %s" % (info.name, kt))
        skes = [bd for t, bd in sm if t == 12]
        if skes and tuple(pair.c.version) >= (3, 3) and \
                info.auth in ("RSA", "ECDSA", "DSS"):
            kind, rest = ske_kind(skes[0], info, tuple(pair.c.version))
            if len(rest) >= 2:
                alg = rest[1]
                scheme = (rest[0] << 8) | rest[1]
                sig_auth = {1: "RSA", 2: "DSS", 3: "ECDSA"}.get(alg)
                if scheme in (0x0804, 0x0805, 0x0806, 0x0809, 0x080a,
                              0x080b):
                    sig_auth = "RSA"
                if scheme in (0x0807, 0x0808):
                    sig_auth = "ECDSA"
                if sig_auth != info.auth:
                    fails.append("suite %s negotiated, ServerKeyExchange "
                                 "signed with scheme %04x" % (info.name,
                                                              scheme))
    else:
        kt = pair.c.session.serverCertChain.x509List[0].certAlg \
            if pair.c.session.serverCertChain else None
    # the session's record of the server chain is the one on the wire
    return name, ("ok", info.name, kt), fails


# ------------------------------------------------ cross-version histories
def crossver_case(item):
    """A session made at version v1 is offered on a connection whose ends
    settle on v2 (session ID and ticket): whatever the server does with it,
    the handshake completes and the suite on the wire is one the negotiated
    version defines."""
    v1, v2, how, sid, seed = item
    name = "%s->%s/%s/%04x" % (S.VNAME[v1], S.VNAME[v2], how, sid)
    kw = dict(cred="rsa", cache=(how == "id"), tickets=(how == "ticket"))
    first = S.Scen("c20/cross-first", version=v1, suite=sid, **kw)
    p0, o0 = S.connect(first, seed=seed)
    if o0["C"].status != "ok" or o0["S"].status != "ok":
        return name, ("first-failed",), []
    sess, cache = p0.c.session, getattr(p0, "cache", None)
    p0.close("C")
    p0.read("S", None, 1)
    p0.close("S")
    # second connection: both ends allow v1..v2 (or v2..v1), same suite
    # plus whatever the defaults add at the other version
    lo, hi = min(v1, v2), max(v1, v2)
    second = S.Scen("c20/cross-second", minv=lo, maxv=v2, sminv=lo, smaxv=v2,
                    **kw)
    try:
        pair, out = S.connect(second, seed=seed + 1, session=sess,
                              cache=cache)
    except ValueError as e:
        return name, ("client-refuses-locally",), []
    fails = []
    if isinstance(out["C"].exc, ValueError):
        # the client itself declines to offer a session whose suite the
        # lowered version does not have
        return name, ("client-refuses-locally",), []
    # every ServerHello on the wire: the version it selects defines the
    # suite it names (whether or not the handshake then completes; clean
    # fallback from a declined offer is C13's subject)
    for t, b in plaintext_handshake(pair.world.s2c.log):
        if t != 2:
            continue
        legacy = (b[0], b[1])
        if bytes(b[2:34]) == HRR_RANDOM:
            continue
        o = 2 + 32
        o += 1 + b[o]
        wire_suite = int.from_bytes(b[o:o + 2], "big")
        o += 3
        sel = legacy
        if o + 2 <= len(b):
            end = o + 2 + int.from_bytes(b[o:o + 2], "big")
            o += 2
            while o + 4 <= end:
                et = int.from_bytes(b[o:o + 2], "big")
                el = int.from_bytes(b[o + 2:o + 4], "big")
                if et == 43 and el == 2:
                    sel = (b[o + 4], b[o + 5])
                o += 4 + el
        winfo = S.ALL_INFOS.get(wire_suite)
        if winfo is None or not ianasuite.defined_in(winfo, sel):
            fails.append("ServerHello selects %s with suite %04x, which "
                         "that version does not define" % (
                             S.VNAME.get(sel, sel), wire_suite))
    if out["C"].status != "ok" or out["S"].status != "ok":
        return name, ("failed", out["C"].sig()[:3]), fails
    ver = tuple(pair.c.version)
    suite = pair.c.session.cipherSuite
    info = S.ALL_INFOS.get(suite)
    if tuple(pair.s.version) != ver or pair.s.session.cipherSuite != suite:
        fails.append("ends disagree on version/suite")
    if info is None or not ianasuite.defined_in(info, ver):
        fails.append("suite %04x used at %s, which does not define it" % (
            suite, S.VNAME[ver]))
    return name, ("ok", bool(pair.c.resumed), S.VNAME[ver]), fails


# ---------------------------------------------------------- lying server
WRONG_CREDS = ["rsa", "ecdsa", "dsa", "ed25519", "rsapss"]
CRED_AUTH = {"rsa": "RSA", "rsapss": "RSA", "ecdsa": "ECDSA", "dsa": "DSS",
             "ed25519": "ECDSA"}


def wrongkey_case(item):
    """A server that negotiates the suite and then authenticates with a key
    of another type than the suite's name says (its own suite-for-certificate
    filter is switched off): the client must not complete under that suite.
    """
    sid, cred, v, seed = item
    from ..world import SEAMS
    from tlslite.constants import CipherSuite as CS
    info = S.ALL_INFOS[sid]
    name = "%s/%s/%s" % (info.name, cred, S.VNAME[v])
    orig = CS.filter_for_certificate
    CS.filter_for_certificate = staticmethod(
        lambda suites, cert: list(suites) if SEAMS.current == "S"
        else orig(suites, cert))
    try:
        sc = S.Scen("c20/wrongkey-" + name, version=v, suite=sid, cred=cred)
        try:
            pair, out = S.connect(sc, seed=seed)
        except ValueError:
            return name, ("invalid-settings",), []
    finally:
        CS.filter_for_certificate = orig
    sm = plaintext_handshake(pair.world.s2c.log)
    certs = [bd for t, bd in sm if t == 11]
    kt = cert_key_type(certs[0]) if certs else None
    fails = []
    if out["C"].status == "ok":
        fails.append("client completed %s although the server authenticated "
                     "with a %s key (%s)" % (info.name, kt, cred))
    return name, ("sent" if certs else "server-refused", out["C"].sig()[:3]), \
        fails


# ---------------------------------------------------------------- MITM
def rewrite_ch_suites(rec, sid):
    """Replace the cipher suite list of a ClientHello record by [sid, SCSV]
    """
    body = bytearray(rec[5:])
    if body[0] != 1:
        return None
    o = 4 + 2 + 32
    sl = body[o]
    o += 1 + sl
    cl = int.from_bytes(body[o:o + 2], "big")
    new = struct.pack(">H", 4) + struct.pack(">HH", sid, 0x00ff)
    body[o:o + 2 + cl] = new
    hl = len(body) - 4
    body[1:4] = hl.to_bytes(3, "big")
    return bytes(rec[:3]) + struct.pack(">H", len(body)) + bytes(body)


def rewrite_sh_suite(rec, sid):
    body = bytearray(rec[5:])
    if body[0] != 2:
        return None
    o = 4 + 2 + 32
    sl = body[o]
    o += 1 + sl
    body[o:o + 2] = struct.pack(">H", sid)
    return bytes(rec[:5]) + bytes(body)


def mitm_case(item):
    """(role, version, sid): substitute sid into the hello the victim sees.
    """
    role, v, sid, seed = item
    info = S.ALL_INFOS.get(sid)
    rec = {"role": role, "suite": "%04x" % sid, "version": S.VNAME[v],
           "fails": [], "selected": None}
    defined = info is not None and ianasuite.defined_in(info, v)
    cred = "rsa"
    flavour = "cert"
    if info is not None:
        cr = ianasuite.cred_for(info)
        if cr in ("ecdsa", "dsa"):
            cred = cr
        elif cr == "anon":
            flavour, cred = "anon", None
        elif cr == "srp":
            flavour = "srp" if info.auth == "SRP" else "srpcert"
    perm = {"cipherNames": ["chacha20-poly1305", "aes256gcm", "aes128gcm",
                            "aes256ccm", "aes128ccm", "aes256", "aes128",
                            "3des", "chacha20-poly1305_draft00",
                            "aes128ccm_8", "aes256ccm_8", "rc4", "null"],
            "macNames": ["sha", "sha256", "sha384", "aead", "md5"]}
    if role == "server":
        sc = S.Scen("c20mitm", version=v, flavour=flavour, cred=cred,
                    cset=dict(perm), sset=dict(perm))
        w = W.World()
        state = {"done": False}

        def mitm(pipe, idx, r):
            if not state["done"] and r[0] == 22:
                n = rewrite_ch_suites(r, sid)
                if n is not None:
                    state["done"] = True
                    return [n]
            return [r]
        w.c2s.mitm = mitm
        pair, out = S.connect(sc, world=w, seed=seed)
        sm = plaintext_handshake(w.s2c.log)
        sh = [b for t, b in sm if t == 2]
        if sh and sh[0][2:34] != bytes.fromhex(
                "cf21ad74e59a6111be1d8c021e65b891"
                "c2a211167abb8c5e079e09e2c8a8339c"):
            b = sh[0]
            sl = b[34]
            sel = int.from_bytes(b[35 + sl:37 + sl], "big")
            rec["selected"] = "%04x" % sel
            if sel == sid and not defined:
                rec["fails"].append("server selected %s in %s which does "
                                    "not define it" % (
                                        CipherSuite.ietfNames.get(sid, sid),
                                        S.VNAME[v]))
        return rec
    # client victim: offers a version range, server answers with version v
    # and (rewritten) suite sid
    sc = S.Scen("c20mitm-c", minv=(3, 0), maxv=(3, 4), sminv=v, smaxv=v,
                flavour=flavour, cred=cred, cset=dict(perm), sset=dict(perm))
    w = W.World()
    state = {"done": False}

    def mitm2(pipe, idx, r):
        if not state["done"] and r[0] == 22:
            n = rewrite_sh_suite(r, sid)
            if n is not None:
                state["done"] = True
                return [n]
        return [r]
    w.s2c.mitm = mitm2
    pair, out = S.connect(sc, world=w, seed=seed)
    # did the client go on (send ClientKeyExchange / Finished) with sid?
    cm = plaintext_handshake(w.c2s.log)
    went_on = any(t == 16 for t, _ in cm) or out["C"].status == "ok"
    if v == (3, 4):
        recs = W.split_records(w.c2s.log)
        went_on = any(t == 23 for t, _, _ in recs)
    rec["selected"] = "went_on" if went_on else "refused"
    o = out["C"]
    rec["c_out"] = (o.status,) + (tuple(W.exc_sig(o.exc)[:3])
                                  if o.status == "exc" else ())
    if went_on and not defined and state["done"]:
        rec["fails"].append("client continued the handshake with %s in %s "
                            "which does not define it" % (
                                CipherSuite.ietfNames.get(sid, sid),
                                S.VNAME[v]))
    if state["done"] and not defined and not rec["fails"] and not (
            rec["c_out"][:2] == ("exc", "TLSLocalAlert") and
            rec["c_out"][2] in (AlertDescription.illegal_parameter,
                                AlertDescription.handshake_failure)):
        # going on until something else breaks (keys that do not fit, a
        # Finished that does not verify) is not a refusal of the suite
        rec["fails"].append("client did not refuse the ServerHello naming %s "
                            "in %s, which does not define it: %r" % (
                                CipherSuite.ietfNames.get(sid, sid),
                                S.VNAME[v], rec["c_out"]))
    return rec


def run(res, tier, seed):
    res.coverage["rule"] = (
        "every suite id in CipherSuite.ietfNames that is a TLS suite x every "
        "protocol version (live handshake, tap, reference record layer "
        "keyed from the IANA name); every suite id x version substituted "
        "into ClientHello (server victim) and ServerHello (client victim) by "
        "a MITM; sessions of TLS 1.0-1.2 offered (ID, ticket) on connections "
        "that settle on every other version; "
        "every certificate-authenticated TLS <= 1.2 suite x every "
        "server credential of another key type, served by a server whose "
        "suite-for-certificate filter is off (client victim); distinct by "
        "(suite, version, role); non-trivial = the "
        "handshake reached ServerHello")
    items = [(v, sid, seed) for sid in sorted(S.ALL_INFOS)
             for v in S.VERSIONS]
    done = 0
    for rec in pmap(case, items):
        res.count()
        res.outcome(("hs", rec["outcome"], tuple(rec.get("smsgs", []))))
        if rec["outcome"] == "completed":
            done += 1
            if done % 40 == 1:
                res.sample(rec)
        for f in rec["fails"]:
            res.violation({"part": "handshake", "suite": rec["suite"],
                           "version": rec["version"], "what": f[:70]},
                          {"fail": f, "rec": rec},
                          {"part": "handshake", "suite": rec["suite"],
                           "version": rec["version"]})
    res.section("handshakes", attempts=len(items), completed=done)
    mitems = []
    sids = sorted(S.ALL_INFOS)
    for sid in sids:
        for v in S.VERSIONS:
            mitems.append(("server", v, sid, seed))
            if tier == "thorough" or not ianasuite.defined_in(
                    S.ALL_INFOS[sid], v):
                mitems.append(("client", v, sid, seed))
    n_sel = 0
    for rec in pmap(mitm_case, mitems):
        res.count()
        res.outcome(("mitm", rec["role"], rec["selected"] is not None,
                     rec["selected"] == rec["suite"]))
        if rec["selected"] == rec["suite"]:
            n_sel += 1
        for f in rec["fails"]:
            res.violation({"part": "mitm", "role": rec["role"],
                           "suite": rec["suite"], "version": rec["version"]},
                          {"fail": f},
                          {"part": "mitm", "role": rec["role"],
                           "suite": rec["suite"], "version": rec["version"]})
    res.sample({"mitm_case": mitems[0][:3]})
    res.section("mitm", cases=len(mitems), server_selected_substituted=n_sel)
    mu = [(pi, cn, v, seed) for pi in range(len(MULTI_CREDS))
          for cn in sorted(MULTI_CLIENTS) for v in ((3, 1), (3, 3), (3, 4))]
    nmu = 0
    for (name, sig, fails) in pmap(multi_case, mu):
        nmu += 1
        res.count()
        res.outcome(("multi",) + tuple(sig[:2]))
        for f in fails:
            res.violation({"part": "multi-credential", "what": f[:45]},
                          {"case": name, "fail": f, "sig": sig},
                          {"multi": name})
    res.section("multi_credential_server", cases=nmu,
                credential_pairs=MULTI_CREDS, clients=sorted(MULTI_CLIENTS))
    cv = []
    for v1 in ((3, 1), (3, 2), (3, 3)):
        for v2 in ((3, 1), (3, 2), (3, 3), (3, 4)):
            if v1 == v2:
                continue
            for how in ("id", "ticket"):
                for sid in (CS.TLS_RSA_WITH_AES_128_CBC_SHA,
                            CS.TLS_ECDHE_RSA_WITH_AES_128_CBC_SHA,
                            CS.TLS_ECDHE_RSA_WITH_AES_128_GCM_SHA256,
                            CS.TLS_ECDHE_RSA_WITH_CHACHA20_POLY1305_SHA256):
                    if not ianasuite.defined_in(S.ALL_INFOS[sid], v1):
                        continue
                    cv.append((v1, v2, how, sid, seed))
    ncv = 0
    for (name, sig, fails) in pmap(crossver_case, cv):
        ncv += 1
        res.count()
        res.outcome(("crossver",) + tuple(sig))
        for f in fails:
            res.violation({"part": "cross-version", "what": f[:45]},
                          {"case": name, "fail": f}, {"crossver": name})
    res.section("cross_version_resumption_offers", cases=ncv)
    wk = []
    for (v, sid) in S.suite_version_pairs():
        info = S.ALL_INFOS[sid]
        if info.tls13 or v >= (3, 4) or info.auth not in ("RSA", "ECDSA",
                                                          "DSS"):
            continue
        if tier == "quick" and v != max(
                vv for (vv, ss) in S.suite_version_pairs()
                if ss == sid and vv < (3, 4)):
            continue
        for cred in WRONG_CREDS:
            if CRED_AUTH[cred] != info.auth:
                wk.append((sid, cred, v, seed))
    nwk = nsent = 0
    for (name, sig, fails) in pmap(wrongkey_case, wk):
        nwk += 1
        nsent += sig[0] == "sent"
        res.count()
        res.outcome(("wrongkey",) + tuple(sig))
        for f in fails:
            res.violation({"part": "wrong-key-type", "what": f[:40]},
                          {"case": name, "fail": f}, {"wrongkey": name})
    res.section("server_key_of_another_type", cases=nwk,
                wrong_certificate_on_the_wire=nsent)
    res.coverage["distinct_nontrivial"] = done + n_sel + nmu + nwk + ncv
    res.assumptions += [
        "ECC suites under SSLv3 are left open (either outcome accepted)",
        "the draft-00 ChaCha20 suites have no IANA registration; their "
        "nonce construction is taken as 4-byte implicit IV || sequence "
        "number"]


def replay(case_, seed):
    name_to_id = dict((i.name, s) for s, i in S.ALL_INFOS.items())
    vmap = dict((n, v) for v, n in S.VNAME.items())
    if case_["part"] == "handshake":
        return case((vmap[case_["version"]], name_to_id[case_["suite"]],
                     seed))
    return mitm_case((case_["role"], vmap[case_["version"]],
                      int(case_["suite"], 16), seed))
