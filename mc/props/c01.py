"""C01 - application data is delivered exactly, in order.

Deciding method: for every negotiable (version, suite, EtM) a real loopback
handshake, then (a) flat exhaustive enumeration of payload lengths in both
directions, (b) explicit-state breadth-first search over the operation
alphabet {C.write(L), S.write(L), C.read(max,min), S.read(max,min)} from the
post-handshake snapshot (deep copies of the connected pair), with a FIFO
reference model checked on every transition and an independent record-layer
witness (mc.refrecord) opening every record seen on the wire.
"""
import copy

from .. import world as W
from .. import scen as S
from .. import ianasuite
from .. import refrecord
from ..core import pmap

LEVEL = "model_checking"


def stream(direction, start, n):
    salt = 0x35 if direction == "c2s" else 0xa9
    return bytes(((i * 131) ^ ((i >> 8) * 29) ^ salt) & 0xff
                 for i in range(start, start + n))


class Model(object):
    """FIFO reference: per direction bytes written / bytes read."""

    def __init__(self):
        self.sent = {"c2s": 0, "s2c": 0}
        self.rcvd = {"c2s": 0, "s2c": 0}

    def copy(self):
        m = Model()
        m.sent = dict(self.sent)
        m.rcvd = dict(self.rcvd)
        return m


DIR_OF_WRITER = {"C": "c2s", "S": "s2c"}
DIR_OF_READER = {"C": "s2c", "S": "c2s"}


def do_write(pair, model, who, n):
    d = DIR_OF_WRITER[who]
    data = stream(d, model.sent[d], n)
    o = pair.write(who, data)
    if o.status != "ok":
        return "write failed: %r %r" % (o, o.exc)
    model.sent[d] += n
    return None


def do_read(pair, model, who, mx, mn):
    d = DIR_OF_READER[who]
    o = pair.read(who, mx, mn)
    if o.status != "ok":
        return "read failed: %r %r" % (o, o.exc), None
    got = bytes(o.value or b"")
    exp = stream(d, model.rcvd[d], len(got))
    if got != exp:
        return "read returned wrong bytes at offset %d: got %s want %s" % (
            model.rcvd[d], got[:24].hex(), exp[:24].hex()), got
    if model.rcvd[d] + len(got) > model.sent[d]:
        return "read returned more than was written", got
    if mx is not None and len(got) > mx:
        return "read returned %d > max %d" % (len(got), mx), got
    if len(got) < mn:
        return "read returned %d < min %d" % (len(got), mn), got
    model.rcvd[d] += len(got)
    return None, got


def read_all(pair, model, who, budget=400):
    """Read until everything written towards `who` has arrived."""
    d = DIR_OF_READER[who]
    n = 0
    while model.rcvd[d] < model.sent[d]:
        err, got = do_read(pair, model, who, None, 1)
        if err:
            return err
        n += 1
        if n > budget:
            return "read_all did not terminate"
    return None


def limits_for(pair, who, version):
    """Limit on record plaintext sent by `who`: what the *peer* advertised,
    the protocol maximum, and the user's recordSize."""
    return None


def check_witness(pair, info, view0, crand, srand, model, limits,
                  only_app=True):
    """Open all records with the independent record layer and compare."""
    errs = []
    w = refrecord.witness(view0, info, pair.world.c2s.log,
                          pair.world.s2c.log, crand, srand)
    for e in w["errors"]:
        errs.append("witness: %s %s" % e)
    for d in ("c2s", "s2c"):
        app = b"".join(pt for (ct, pt, il, rl) in w[d] if ct == 23)
        exp = stream(d, 0, model.sent[d])
        if app != exp:
            errs.append("witness: application bytes on wire in %s differ from"
                        " bytes written (wire %d bytes, written %d)" % (
                            d, len(app), len(exp)))
        lim = limits[d]
        for (ct, pt, il, rl) in w[d]:
            if il > lim["inner"]:
                errs.append("record in %s carries %d plaintext bytes > limit"
                            " in force %d" % (d, il, lim["inner"]))
            if ct == 23 and len(pt) > lim["app"]:
                errs.append("application record in %s carries %d bytes > "
                            "recordSize/limit %d" % (d, len(pt), lim["app"]))
    return errs, w


def compute_limits(version, c_rsl, s_rsl, c_user, s_user):
    """Limit in force per direction computed from configuration only.
    c_rsl/s_rsl: record_size_limit advertised by client/server settings
    (None = extension unused).  Direction c2s is limited by what the server
    advertised."""
    out = {}
    for d, peer_adv, own_adv, user in (("c2s", s_rsl, c_rsl, c_user),
                                       ("s2c", c_rsl, s_rsl, s_user)):
        proto = 2 ** 14
        if peer_adv is not None and own_adv is not None:
            adv = min(peer_adv, 2 ** 14 + 1 if version >= (3, 4)
                      else 2 ** 14)
            if version >= (3, 4):
                inner = adv            # includes the content type byte
                app = adv - 1
            else:
                inner = adv
                app = adv
        else:
            inner = proto + (1 if version >= (3, 4) else 0)
            app = proto
        app = min(app, user if user is not None else proto)
        out[d] = {"inner": inner, "app": app}
    return out


def established(sc, seed, cset=None, sset=None):
    for k, v in (cset or {}).items():
        sc.cset[k] = v
    for k, v in (sset or {}).items():
        sc.sset[k] = v
    pair, out = S.connect(sc, seed=seed)
    if not (out["C"].status == "ok" and out["S"].status == "ok"):
        return None, out
    return pair, out


LENS_SMALL = [0, 1, 2, 15, 16, 17, 31, 32, 33, 255, 256, 257]
LENS_LARGE = [2 ** 14 - 1, 2 ** 14, 2 ** 14 + 1, 3 * 2 ** 14 + 5]


def flat_case(item):
    """One (version, suite, etm) pair: all lengths, both directions."""
    (v, sid, etm, lens, seed, opts) = item
    info = S.ALL_INFOS[sid]
    sc = S.scen_for_suite(v, sid, etm)
    opts = opts or {}
    if opts.get("resume") == "id":
        sc.cache = True
    elif opts.get("resume") == "ticket":
        sc.tickets = True
    pair, out = established(sc, seed, opts.get("cset"), opts.get("sset"))
    rec = {"name": sc.name, "opts": repr(sorted(opts.items())), "fails": [],
           "ops": 0, "records": 0, "neg": None}
    if pair is not None and opts.get("resume"):
        # the same exchange on a connection resumed from this one
        cache = getattr(pair, "cache", None)
        # (a byte each way first: TLS 1.3 tickets arrive after the handshake)
        pair.write("S", b"x")
        pair.read("C", None, 1)
        pair.write("C", b"y")
        pair.read("S", None, 1)
        sess = pair.c.session
        pair.close("C")
        pair.read("S", None, 1)
        pair.close("S")
        pair, out = S.connect(sc, seed=seed + 1, session=sess, cache=cache)
        if not (out["C"].status == "ok" and out["S"].status == "ok"):
            pair = None
        elif not pair.c.resumed:
            rec["neg"] = "not-resumed"
            rec["fails"].append({"err": "resumption did not take place"})
            return rec
    if pair is None:
        rec["neg"] = "handshake-failed:%r/%r" % (out["C"], out["S"])
        return rec
    if pair.c.session.cipherSuite != sid:
        rec["neg"] = "other-suite"
        return rec
    etm_eff = bool(pair.c.encryptThenMAC)
    rec["neg"] = "ok etm=%s" % etm_eff
    view0 = W.view(pair.c, exporter=False)
    view0["cl_app0"] = view0.get("cl_app")
    view0["sr_app0"] = view0.get("sr_app")
    crand, srand = pair.c._clientRandom, pair.c._serverRandom
    # HandshakeSettings.padding_cb never reaches the record layer (it is
    # stored on the socket wrapper), so the callback is installed where the
    # record layer reads it; the witness below must then see padded records
    padded = False
    for ep, key in ((pair.c, "cset"), (pair.s, "sset")):
        cb = (opts.get(key) or {}).get("padding_cb")
        if cb is not None and v >= (3, 4):
            ep._recordLayer.padding_cb = cb
            padded = True
    if opts.get("c_user") is not None:
        pair.c.recordSize = opts["c_user"]
    if opts.get("s_user") is not None:
        pair.s.recordSize = opts["s_user"]
    c_rsl = pair_rsl(sc.client_settings(), v)
    s_rsl = pair_rsl(sc.server_settings(), v)
    limits = compute_limits(v, c_rsl, s_rsl, opts.get("c_user"),
                            opts.get("s_user"))
    model = Model()
    for n in lens:
        for who, peer in (("C", "S"), ("S", "C")):
            err = do_write(pair, model, who, n)
            rec["ops"] += 1
            if err is None:
                err = read_all(pair, model, peer)
            if err:
                rec["fails"].append({"len": n, "writer": who, "err": err})
                return rec
    errs, w = check_witness(pair, info, view0, crand, srand, model, limits)
    rec["records"] = len(w["c2s"]) + len(w["s2c"])
    rec["maxrec"] = max([il for d in ("c2s", "s2c")
                         for (_, _, il, _) in w[d]] or [0])
    if padded:
        pads = [il - len(pt) - 1 for d in ("c2s", "s2c")
                for (_, pt, il, _) in w[d]]
        rec["padded_records"] = sum(1 for x in pads if x > 0)
        if not rec["padded_records"]:
            rec["fails"].append({"err": "padding callback installed but no "
                                 "record on the wire is padded (vacuous)"})
    for e in errs[:5]:
        rec["fails"].append({"err": e})
    return rec


def pair_rsl(st, version):
    r = st.record_size_limit
    if r is None or version == (3, 0):
        return None           # SSLv3 carries no extensions at all
    if version < (3, 4):
        return min(r, 2 ** 14)
    return r


# ---------------------------------------------------------------- BFS
def canon(pair, model):
    return (model.sent["c2s"] - model.rcvd["c2s"],
            model.sent["s2c"] - model.rcvd["s2c"],
            len(pair.c._readBuffer), len(pair.s._readBuffer))


def bfs_case(item):
    (v, sid, etm, depth, seed, user_limit) = item
    info = S.ALL_INFOS[sid]
    sc = S.scen_for_suite(v, sid, etm)
    pair, out = established(sc, seed)
    rec = {"name": sc.name, "states": 0, "transitions": 0, "fails": [],
           "leaves_witnessed": 0, "depth": depth}
    if pair is None or pair.c.session.cipherSuite != sid:
        rec["fails"].append({"err": "handshake failed %r" % (out,)})
        return rec
    view0 = W.view(pair.c, exporter=False)
    view0["cl_app0"] = view0.get("cl_app")
    view0["sr_app0"] = view0.get("sr_app")
    crand, srand = pair.c._clientRandom, pair.c._serverRandom
    pair.c.recordSize = user_limit
    pair.s.recordSize = user_limit
    c_rsl = pair_rsl(sc.client_settings(), v)
    s_rsl = pair_rsl(sc.server_settings(), v)
    limits = compute_limits(v, c_rsl, s_rsl, user_limit, user_limit)
    L = [0, 1, user_limit - 1, user_limit + 1, 2 * user_limit + 1]
    reads = [(None, 1), (1, 1), (7, 0), (user_limit + 3, 2)]
    ops = [("w", who, n) for who in ("C", "S") for n in L] + \
        [("r", who, mx, mn) for who in ("C", "S") for (mx, mn) in reads]
    init = (pair, Model(), [])
    seen = {canon(pair, init[1])}
    frontier = [init]
    rec["states"] = 1
    for lvl in range(depth):
        nxt = []
        for (p, m, hist) in frontier:
            for op in ops:
                if op[0] == "r":
                    d = DIR_OF_READER[op[1]]
                    avail = m.sent[d] - m.rcvd[d]
                    if avail < max(op[3], 1):
                        continue      # would block forever: not enabled
                p2 = copy.deepcopy(p)
                m2 = m.copy()
                if op[0] == "w":
                    err = do_write(p2, m2, op[1], op[2])
                else:
                    err, _ = do_read(p2, m2, op[1], op[2], op[3])
                rec["transitions"] += 1
                h2 = hist + [op]
                if err:
                    rec["fails"].append({"history": h2, "err": err})
                    if len(rec["fails"]) > 3:
                        return rec
                    continue
                k = canon(p2, m2)
                if lvl == depth - 1:
                    # leaf: drain and witness
                    e = read_all(p2, m2, "C") or read_all(p2, m2, "S")
                    if e:
                        rec["fails"].append({"history": h2, "err":
                                             "drain: " + e})
                        continue
                    if k not in seen:
                        errs, w = check_witness(p2, info, view0, crand,
                                                srand, m2, limits)
                        rec["leaves_witnessed"] += 1
                        for x in errs[:3]:
                            rec["fails"].append({"history": h2, "err": x})
                if k not in seen:
                    seen.add(k)
                    nxt.append((p2, m2, h2))
        frontier = nxt
        rec["states"] = len(seen)
    rec["sample_history"] = frontier[-1][2] if frontier else []
    return rec


# ---------------------------------------------------------------- driver
TAIL_TOTALS = [1, 100, 3000, 2 ** 14 + 7]
TAIL_KS = [1, 7, 2048, 2 ** 14]


def tail_case(item):
    """Everything written before an orderly close is delivered before the
    end-of-data indication, whatever (max, min) the reader uses - including
    min larger than what is left when close_notify arrives, and an abrupt
    close with ignoreAbruptClose."""
    (v, sid, etm, seed) = item
    info = S.ALL_INFOS[sid]
    name = "%s/%s/etm=%s" % (S.VNAME[v], info.name, etm)
    rec = {"name": name, "fails": [], "n": 0, "sigs": set()}
    sc0 = S.scen_for_suite(v, sid, etm)
    pair0, out = established(sc0, seed)
    if pair0 is None:
        rec["fails"].append({"err": "handshake failed %r" % (out,)})
        return rec
    pair0.drain()
    for writer in ("C", "S"):
        reader = "S" if writer == "C" else "C"
        d = DIR_OF_WRITER[writer]
        for total in TAIL_TOTALS:
            data = stream(d, 0, total)
            pair_w = pair0.clone()
            o = pair_w.write(writer, data)
            if o.status != "ok":
                rec["fails"].append({"err": "write failed %r" % (o,)})
                continue
            for ending in ("close_notify", "abrupt-ignored"):
                pair_e = pair_w.clone()
                if ending == "close_notify":
                    pair_e.close(writer)
                else:
                    pair_e.ep(reader).ignoreAbruptClose = True
                    (pair_e.world.csock if writer == "C" else
                     pair_e.world.ssock).close()
                for k in TAIL_KS + [total + 1, 2 * total]:
                    if total // k > 500:
                        continue    # (cost; small totals cover k=1, 7)
                    pair = pair_e.clone()
                    got = b""
                    status = None
                    for _ in range(total // min(k, total) + 8):
                        r = pair.read(reader, k, k)
                        if r.status != "ok":
                            status = r.sig()[:3]
                            break
                        if not r.value:
                            status = ("eof",)
                            break
                        got += bytes(r.value)
                    rec["n"] += 1
                    rec["sigs"].add((ending, status, got == data))
                    if got != data:
                        rec["fails"].append({
                            "err": "%s wrote %d bytes and closed (%s); "
                                   "reader with read(max=%d, min=%d) got %d "
                                   "bytes before %r" % (
                                       writer, total, ending, k, k, len(got),
                                       status),
                            "total": total, "k": k, "ending": ending})
                    elif status != ("eof",):
                        rec["fails"].append({
                            "err": "end of data reported as %r after %s" % (
                                status, ending),
                            "total": total, "k": k, "ending": ending})
    rec["sigs"] = sorted(rec["sigs"], key=repr)
    return rec


def all_triples():
    out = []
    for (v, sid) in S.suite_version_pairs():
        info = S.ALL_INFOS[sid]
        out.append((v, sid, True))
        if info.mode == "CBC" and v > (3, 0):
            out.append((v, sid, False))
    return out


def family_reps(triples):
    reps = {}
    for (v, sid, etm) in triples:
        f = S.family_of(S.ALL_INFOS[sid], v, etm)
        reps.setdefault(f, (v, sid, etm))
    return reps


def run(res, tier, seed):
    triples = all_triples()
    reps = family_reps(triples)
    res.coverage["rule"] = (
        "(a) every (version, suite, EtM) triple x every payload length in "
        "the boundary set x both directions, written then read to "
        "completion on one live connection; (b) BFS over write/read "
        "operation sequences from the post-handshake snapshot, states "
        "deduplicated on (bytes in flight per direction, read-buffer "
        "lengths); (c) record-size configuration sweep on one suite per "
        "record-protection family.  non-trivial: payload > 0 bytes or "
        "sequence length > 1")
    # (a) flat
    lens = LENS_SMALL if tier == "quick" else LENS_SMALL + [2 ** 14 - 1,
                                                            2 ** 14 + 1]
    items = [(v, sid, etm, lens, seed, None) for (v, sid, etm) in triples]
    # large lengths: one per family (quick) / every triple (thorough)
    big = LENS_LARGE
    if tier == "quick":
        items += [(v, sid, etm, big, seed, None)
                  for (v, sid, etm) in reps.values()]
    else:
        items += [(v, sid, etm, big, seed, None)
                  for (v, sid, etm) in triples]
    # (c) configuration sweep on family representatives
    cfgs = []
    rsls = [(None, None), (64, 64), (64, None), (65, 512), (512, 65),
            (2 ** 14, 2 ** 14 + 1), (2 ** 14 + 1, 64)]
    users = [(None, None), (1, 100), (100, 1), (2 ** 14, 2 ** 15),
             (2 ** 15, 17)]
    for (v, sid, etm) in reps.values():
        for (cr, sr) in rsls:
            for (cu, su) in (users if tier == "thorough" or (cr, sr) ==
                             (64, 64) else users[:1]):
                if (cr, sr) == (None, None) and (cu, su) == (None, None):
                    continue
                opts = {"cset": {}, "sset": {}, "c_user": cu, "s_user": su}
                opts["cset"]["record_size_limit"] = cr
                opts["sset"]["record_size_limit"] = sr
                ll = [0, 1, 63, 64, 65, 127, 129, 511, 513]
                if cu == 1 or su == 1:
                    ll = [0, 1, 2, 40]
                cfgs.append((v, sid, etm, ll, seed, opts))
        # the limits also hold on a resumed connection (session ID / ticket)
        for how in ("id", "ticket"):
            for (cr, sr) in ((64, 64), (65, 512), (512, 65)):
                opts = {"cset": {"record_size_limit": cr},
                        "sset": {"record_size_limit": sr},
                        "c_user": None, "s_user": None, "resume": how}
                if how == "id" and v >= (3, 4):
                    continue
                if how == "ticket" and v == (3, 0):
                    continue        # no extensions, no tickets
                cfgs.append((v, sid, etm, [0, 1, 63, 64, 65, 129, 513], seed,
                             opts))
        if v >= (3, 4):
            for name in ("const7", "tolimit"):
                opts = {"cset": {"padding_cb": PADS[name]},
                        "sset": {"padding_cb": PADS[name]},
                        "c_user": None, "s_user": None}
                cfgs.append((v, sid, etm, [0, 1, 17, 300, 2 ** 14 + 1], seed,
                             opts))
                opts = {"cset": {"padding_cb": PADS[name],
                                 "record_size_limit": 128},
                        "sset": {"padding_cb": PADS[name],
                                 "record_size_limit": 100},
                        "c_user": None, "s_user": None}
                cfgs.append((v, sid, etm, [0, 1, 17, 99, 100, 101, 300],
                             seed, opts))
    items += cfgs
    nfail = 0
    negs = {}
    total_records = 0
    for rec in pmap(flat_case, items, chunksize=2):
        res.count(max(rec["ops"], 1))
        total_records += rec.get("records", 0)
        negs[rec["neg"]] = negs.get(rec["neg"], 0) + 1
        res.outcome(("flat", rec["neg"], rec.get("maxrec")))
        if rec["neg"] and not rec["neg"].startswith("ok"):
            res.violation({"part": "flat", "name": rec["name"],
                           "kind": "not-negotiable"},
                          {"neg": rec["neg"], "opts": rec["opts"]},
                          {"part": "flat", "name": rec["name"]})
        for f in rec["fails"]:
            nfail += 1
            res.violation({"part": "flat", "name": rec["name"],
                           "opts": rec["opts"],
                           "err": f["err"][:60]}, f,
                          {"part": "flat", "name": rec["name"],
                           "opts": rec["opts"], "fail": f})
    res.sample({"flat_case": items[0][:4], "lens": lens})
    res.section("flat", connections=len(items), triples=len(triples),
                families=len(reps), config_cases=len(cfgs),
                records_witnessed=total_records, negotiated=negs)
    # (b) BFS
    depth = 3 if tier == "quick" else 4
    bitems = [(v, sid, etm, depth, seed, 24)
              for (v, sid, etm) in (reps.values() if tier == "quick"
                                    else reps.values())]
    if tier == "thorough":
        # every triple at depth 3 as well
        bitems += [(v, sid, etm, 3, seed, 24) for (v, sid, etm) in triples
                   if (v, sid, etm) not in set(reps.values())]
    st = tr = lw = 0
    for rec in pmap(bfs_case, bitems, chunksize=1):
        st += rec["states"]
        tr += rec["transitions"]
        lw += rec["leaves_witnessed"]
        res.count(rec["transitions"])
        res.outcome(("bfs", rec["states"]))
        for f in rec["fails"]:
            res.violation({"part": "bfs", "name": rec["name"],
                           "err": f["err"][:60]}, f,
                          {"part": "bfs", "name": rec["name"], "fail": f})
        if rec.get("sample_history"):
            res.sample({"bfs": rec["name"], "history":
                        rec["sample_history"]}, limit=6)
    res.coverage["states"] = st
    res.coverage["transitions"] = tr
    res.coverage["traces_validated_against_impl"] = tr
    res.section("bfs", connections=len(bitems), depth=depth, states=st,
                transitions=tr, leaves_witnessed=lw)
    # (c) tail before close
    titems = [(v, sid, etm, seed) for (v, sid, etm) in reps.values()]
    nt = 0
    for rec in pmap(tail_case, titems, chunksize=1):
        nt += rec["n"]
        res.count(rec["n"])
        for sg in rec["sigs"]:
            res.outcome(("tail",) + tuple(sg))
        for f in rec["fails"][:20]:
            res.violation({"part": "tail", "name": rec["name"],
                           "err": f["err"][:40], "ending": f.get("ending")},
                          f, {"part": "tail", "name": rec["name"],
                              "fail": f})
    res.section("tail_before_close", connections=len(titems), reads=nt,
                totals=TAIL_TOTALS, read_sizes=TAIL_KS + ["total+1",
                                                          "2*total"])
    res.coverage["distinct_nontrivial"] = len(items) + st + nt
    res.assumptions += [
        "payload bytes come from one counter stream per direction; lengths, "
        "orders and configurations are what is exhausted",
        "BFS state abstraction (bytes in flight, read-buffer lengths) drops "
        "absolute sequence numbers and stream offsets: record validity "
        "depends only on both ends agreeing, which every transition checks"]


def _pad_const7(length, ctype, maxpad):
    return min(7, max(0, maxpad))


def _pad_tolimit(length, ctype, maxpad):
    return max(0, maxpad)


PADS = {"const7": _pad_const7, "tolimit": _pad_tolimit}


def replay(case, seed):
    return {"note": "re-run ./check C01; case=%r" % (case,)}
