"""Deviation-bounded stateless explorer (CHESS shape for sequential code).

An execution is determined by a dict {decision point index: alternative};
every other point takes alternative 0.  explore() enumerates every
execution with at most `bound` deviations; deviations are ordered by point
index, so each set of deviations is visited exactly once.
"""
from .core import pmap


def expand(points, choices, start, allowed):
    """All single extra deviations after index `start`."""
    out = []
    for i in range(start, len(points)):
        if i in choices:
            continue
        nalts = points[i][3]
        for alt in range(1, nalts):
            if allowed is None or allowed(points[i], alt):
                c = dict(choices)
                c[i] = alt
                out.append((c, i + 1))
    return out


def explore_serial(run_fn, bound, allowed=None, base_choices=None, start=0,
                   limit=None):
    """Yield (choices, points, observation) for every execution within the
    bound, depth-first.  run_fn(choices) -> (points, observation)."""
    stack = [(dict(base_choices or {}), start, 0)]
    n = 0
    while stack:
        choices, st, used = stack.pop()
        points, obs = run_fn(choices)
        n += 1
        yield choices, points, obs
        if limit is not None and n >= limit:
            return
        if used >= bound:
            continue
        for (c, nxt) in reversed(expand(points, choices, st, allowed)):
            stack.append((c, nxt, used + 1))


class _Shard(object):
    def __init__(self, fn, arg, choices, start, bound, allowed):
        self.fn, self.arg = fn, arg
        self.choices, self.start = choices, start
        self.bound, self.allowed = bound, allowed


def _run_shard(sh):
    run_fn = sh.fn(sh.arg)
    out = []
    # the shard root itself counts as one deviation already used
    stack = [(sh.choices, sh.start, 1)]
    while stack:
        choices, st, used = stack.pop()
        points, obs = run_fn(choices)
        out.append((choices, [points[i] for i in sorted(choices)], obs))
        if used >= sh.bound:
            continue
        for (c, nxt) in reversed(expand(points, choices, st, sh.allowed)):
            stack.append((c, nxt, used + 1))
    return out


def explore_parallel(make_run_fn, arg, bound, allowed=None):
    """make_run_fn(arg) -> run_fn; must be a module-level callable so that
    shards can be shipped to worker processes.  Returns
    (baseline_points, baseline_obs, [(choices, deviating points, obs)])."""
    run_fn = make_run_fn(arg)
    points, base = run_fn({})
    if bound == 0:
        return points, base, []
    shards = [_Shard(make_run_fn, arg, c, nxt, bound, allowed)
              for (c, nxt) in expand(points, {}, 0, allowed)]
    results = []
    for part in pmap(_run_shard, shards):
        results.extend(part)
    return points, base, results
