"""Harness-side structural descriptors of handshake messages: given the
serialised message, locate every length prefix, scalar field and opaque
region.  Independent of tlslite's parsers (written from the RFC layouts)."""


class Field(object):
    __slots__ = ("off", "width", "kind", "name", "end")

    def __init__(self, off, width, kind, name, end=None):
        self.off = off          # offset in the message (incl. 4-byte header)
        self.width = width
        self.kind = kind        # 'len' | 'int' | 'opaque'
        self.name = name
        self.end = end          # for 'len': offset where the vector ends

    def __repr__(self):
        return "%s@%d+%d(%s)" % (self.kind, self.off, self.width, self.name)


class _P(object):
    def __init__(self, data, off, end, out, prefix=""):
        self.d, self.o, self.end, self.out, self.pfx = data, off, end, out, \
            prefix

    def left(self):
        return self.end - self.o

    def intf(self, w, name):
        if self.left() < w:
            raise ValueError("short")
        v = int.from_bytes(self.d[self.o:self.o + w], "big")
        self.out.append(Field(self.o, w, "int", self.pfx + name))
        self.o += w
        return v

    def opaque(self, n, name):
        if self.left() < n:
            raise ValueError("short")
        if n:
            self.out.append(Field(self.o, n, "opaque", self.pfx + name))
        self.o += n

    def vec(self, w, name):
        """Length-prefixed vector: returns a sub-parser over its body."""
        if self.left() < w:
            raise ValueError("short")
        ln = int.from_bytes(self.d[self.o:self.o + w], "big")
        if self.left() < w + ln:
            raise ValueError("short")
        self.out.append(Field(self.o, w, "len", self.pfx + name,
                              self.o + w + ln))
        sub = _P(self.d, self.o + w, self.o + w + ln, self.out,
                 self.pfx + name + ".")
        self.o += w + ln
        return sub

    def vec_opaque(self, w, name):
        sub = self.vec(w, name)
        sub.opaque(sub.left(), "bytes")


def _extensions(p, ctx):
    if p.left() == 0:
        return
    ex = p.vec(2, "extensions")
    n = 0
    while ex.left() > 0:
        t = ex.intf(2, "ext%d.type" % n)
        body = ex.vec(2, "ext%d(%d)" % (n, t))
        try:
            _ext_body(body, t, ctx)
        except ValueError:
            pass
        if body.left():
            body.opaque(body.left(), "rest")
        n += 1


def _ext_body(b, t, ctx):
    if b.left() == 0:
        return
    if t == 0 and ctx == "CH":            # server_name
        lst = b.vec(2, "list")
        while lst.left():
            lst.intf(1, "name_type")
            lst.vec_opaque(2, "name")
    elif t == 10:                          # supported_groups
        lst = b.vec(2, "groups")
        while lst.left() >= 2:
            lst.intf(2, "g")
    elif t == 11:
        b.vec_opaque(1, "formats")
    elif t == 13 or t == 50:
        lst = b.vec(2, "sigalgs")
        while lst.left() >= 2:
            lst.intf(2, "alg")
    elif t == 16:                          # ALPN
        lst = b.vec(2, "protos")
        while lst.left():
            lst.vec_opaque(1, "name")
    elif t == 43:                          # supported_versions
        if ctx == "CH":
            lst = b.vec(1, "versions")
            while lst.left() >= 2:
                lst.intf(2, "v")
        else:
            b.intf(2, "selected")
    elif t == 51:                          # key_share
        if ctx == "CH":
            lst = b.vec(2, "shares")
            while lst.left():
                lst.intf(2, "group")
                lst.vec_opaque(2, "key")
        elif ctx == "HRR":
            b.intf(2, "group")
        else:
            b.intf(2, "group")
            b.vec_opaque(2, "key")
    elif t == 45:
        lst = b.vec(1, "modes")
        while lst.left():
            lst.intf(1, "mode")
    elif t == 41:                          # pre_shared_key
        if ctx == "CH":
            ids = b.vec(2, "identities")
            while ids.left():
                ids.vec_opaque(2, "identity")
                ids.intf(4, "age")
            bd = b.vec(2, "binders")
            while bd.left():
                bd.vec_opaque(1, "binder")
        else:
            b.intf(2, "selected")
    elif t == 28:
        b.intf(2, "limit")
    elif t == 15:
        b.intf(1, "hb_mode")
    elif t == 27:
        lst = b.vec(1, "algs")
        while lst.left() >= 2:
            lst.intf(2, "alg")
    elif t == 35:
        b.opaque(b.left(), "ticket")
    elif t == 65281:
        b.vec_opaque(1, "reneg")
    elif t == 44:
        b.vec_opaque(2, "cookie")


def describe(msg, version=(3, 3), kex=None):
    """Fields of a serialised handshake message.  kex: 'rsa'|'dh'|'ecdh'|
    'srp' (for Server/ClientKeyExchange)."""
    out = []
    d = bytes(msg)
    if len(d) < 4:
        return out
    t = d[0]
    out.append(Field(0, 1, "int", "msg_type"))
    out.append(Field(1, 3, "len", "msg_length", 4 + int.from_bytes(d[1:4],
                                                                  "big")))
    p = _P(d, 4, len(d), out)
    tls13 = version >= (3, 4)
    try:
        if t == 1:
            p.intf(2, "client_version")
            p.opaque(32, "random")
            p.vec_opaque(1, "session_id")
            cs = p.vec(2, "cipher_suites")
            while cs.left() >= 2:
                cs.intf(2, "suite")
            p.vec_opaque(1, "compression")
            _extensions(p, "CH")
        elif t == 2:
            p.intf(2, "server_version")
            hrr = d[6:38] == bytes.fromhex(
                "cf21ad74e59a6111be1d8c021e65b891"
                "c2a211167abb8c5e079e09e2c8a8339c")
            p.opaque(32, "random")
            p.vec_opaque(1, "session_id")
            p.intf(2, "suite")
            p.intf(1, "compression")
            _extensions(p, "HRR" if hrr else "SH")
        elif t == 11:
            if tls13:
                p.vec_opaque(1, "context")
            lst = p.vec(3, "certificate_list")
            n = 0
            while lst.left():
                c = lst.vec(3, "cert%d" % n)
                c.opaque(min(c.left(), 8), "der_head")
                if c.left():
                    c.opaque(c.left(), "der_rest")
                if tls13:
                    lst.vec_opaque(2, "cert%d_ext" % n)
                n += 1
        elif t == 12:
            if kex == "ecdh":
                p.intf(1, "curve_type")
                p.intf(2, "named_curve")
                p.vec_opaque(1, "point")
            elif kex == "srp":
                p.vec_opaque(2, "N")
                p.vec_opaque(2, "g")
                p.vec_opaque(1, "salt")
                p.vec_opaque(2, "B")
            else:
                p.vec_opaque(2, "dh_p")
                p.vec_opaque(2, "dh_g")
                p.vec_opaque(2, "dh_Ys")
            if p.left():
                if version >= (3, 3):
                    p.intf(2, "sig_alg")
                p.vec_opaque(2, "signature")
        elif t == 13:
            if tls13:
                p.vec_opaque(1, "context")
                _extensions(p, "CR")
            else:
                ct = p.vec(1, "cert_types")
                while ct.left():
                    ct.intf(1, "t")
                if version >= (3, 3):
                    sa = p.vec(2, "sig_algs")
                    while sa.left() >= 2:
                        sa.intf(2, "alg")
                cas = p.vec(2, "cas")
                while cas.left():
                    cas.vec_opaque(2, "dn")
        elif t == 14:
            pass
        elif t == 15:
            if version >= (3, 3):
                p.intf(2, "sig_alg")
            p.vec_opaque(2, "signature")
        elif t == 16:
            if kex == "ecdh":
                p.vec_opaque(1, "point")
            elif kex == "rsa" and version == (3, 0):
                p.opaque(p.left(), "encrypted_pms")
            else:
                p.vec_opaque(2, "value")
        elif t == 20:
            p.opaque(p.left(), "verify_data")
        elif t == 8:
            _extensions(p, "EE")
        elif t == 4:
            p.intf(4, "lifetime")
            if tls13:
                p.intf(4, "age_add")
                p.vec_opaque(1, "nonce")
                p.vec_opaque(2, "ticket")
                _extensions(p, "NST")
            else:
                p.vec_opaque(2, "ticket")
        elif t == 24:
            p.intf(1, "request_update")
        elif t == 25:
            p.intf(2, "algorithm")
            p.intf(3, "uncompressed_length")
            p.vec_opaque(3, "compressed")
        elif t == 67:
            p.vec_opaque(1, "proto")
            p.vec_opaque(1, "padding")
    except ValueError:
        pass
    if p.o < p.end:
        out.append(Field(p.o, p.end - p.o, "opaque", "undescribed"))
    return out


def mutations(msg, fields, tier="quick"):
    """In-place mutations at every located field + resizing mutations of the
    whole message.  Yields (label, new_bytes)."""
    d = bytes(msg)
    seen = set()

    def emit(label, b):
        b = bytes(b)
        if b != d and b not in seen:
            seen.add(b)
            return [(label, b)]
        return []
    for f in fields:
        w = f.width
        if f.kind in ("len", "int"):
            cur = int.from_bytes(d[f.off:f.off + w], "big")
            mx = (1 << (8 * w)) - 1
            vals = {0, 1, cur - 1, cur + 1, mx}
            if f.kind == "int":
                vals |= {mx - 1, cur ^ 0x80, 0x7f if w == 1 else 0x7fff}
            else:
                vals |= {cur + 2, cur // 2}
            for v in sorted(vals):
                if 0 <= v <= mx and v != cur:
                    b = bytearray(d)
                    b[f.off:f.off + w] = v.to_bytes(w, "big")
                    for x in emit("%s=%d" % (f.name, v), b):
                        yield x
        else:
            pos = {f.off, f.off + w - 1}
            if tier == "thorough":
                pos |= set(range(f.off, f.off + w, max(1, w // 16)))
            for o in sorted(pos):
                for mask in (0x01, 0x80, 0xff):
                    b = bytearray(d)
                    b[o] ^= mask
                    for x in emit("%s[%d]^%02x" % (f.name, o - f.off, mask),
                                  b):
                        yield x
    # truncation at every field boundary, header length fixed or not
    bounds = sorted(set([f.off for f in fields] +
                        [f.off + f.width for f in fields]))
    if tier == "thorough":
        bounds = sorted(set(bounds) | set(range(4, len(d), max(1, len(d)
                                                              // 64))))
    for cut in bounds:
        if cut < 4 or cut >= len(d):
            continue
        b = bytearray(d[:cut])
        b[1:4] = (cut - 4).to_bytes(3, "big")
        for x in emit("truncate@%d/fixed" % cut, b):
            yield x
        for x in emit("truncate@%d/unfixed" % cut, d[:cut]):
            yield x
    b = bytearray(d + b"\x00")
    b[1:4] = (len(d) - 3).to_bytes(3, "big")
    for x in emit("trailing-byte/fixed", b):
        yield x
    # trailing byte inside each length-delimited structure
    for f in fields:
        if f.kind == "len" and f.name != "msg_length" and f.end is not None:
            b = bytearray(d)
            b[f.end:f.end] = b"\x00"
            # grow this vector and every enclosing one
            for g in fields:
                if g.kind == "len" and g.end is not None and \
                        g.off < f.end <= g.end and g.off <= f.off:
                    cur = int.from_bytes(d[g.off:g.off + g.width], "big")
                    mx = (1 << (8 * g.width)) - 1
                    if cur + 1 <= mx:
                        b[g.off:g.off + g.width] = (cur + 1).to_bytes(
                            g.width, "big")
            for x in emit("stray-byte-in:%s" % f.name, b):
                yield x
