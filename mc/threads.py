"""Controlled-thread explorer: real threading.Thread bodies, one semaphore
baton per thread, sys.settrace line events in the target files as yield
points, scheduler-aware locks substituted for the objects' own locks,
depth-first enumeration of schedules with a preemption bound.
"""
import sys
import threading


class SchedLock(object):
    """Replacement for threading.Lock driven by the scheduler."""

    def __init__(self, sched, name="lock"):
        self.sched = sched
        self.name = name
        self.owner = None

    def acquire(self, blocking=True, timeout=-1):
        s = self.sched
        w = s.current_worker()
        if w is None:           # main thread outside an execution
            self.owner = "main"
            return True
        s.yield_point(w, ("acquire", self.name))
        while self.owner is not None:
            w.blocked_on = self
            s.yield_point(w, ("blocked", self.name))
        w.blocked_on = None
        self.owner = w
        return True

    def release(self):
        s = self.sched
        w = s.current_worker()
        self.owner = None
        if w is not None:
            s.yield_point(w, ("release", self.name))

    def locked(self):
        return self.owner is not None

    def __enter__(self):
        self.acquire()
        return self

    def __exit__(self, *a):
        self.release()


class Worker(object):
    def __init__(self, idx, fn):
        self.idx = idx
        self.fn = fn
        self.go = threading.Semaphore(0)
        self.done = False
        self.blocked_on = None
        self.result = None
        self.exc = None
        self.thread = None
        self.steps = 0


class Deadlock(Exception):
    pass


class _Abort(BaseException):
    pass


class Sched(object):
    """One execution under a given choice list."""

    def __init__(self, bodies, trace_files, choices=(), invariant=None,
                 max_steps=5000):
        self.workers = [Worker(i, fn) for i, fn in enumerate(bodies)]
        self.trace_files = tuple(trace_files)
        self.back = threading.Semaphore(0)
        self.choices = list(choices)
        self.invariant = invariant
        self.points = []        # (enabled idx list in canonical order,
        #                          running_still_enabled)
        self.taken = []
        self.by_ident = {}
        self.max_steps = max_steps
        self.events = []        # (worker, what) per yield
        self.inv_fail = None
        self.deadlock = False
        self.abort = False
        self.clock = 0          # logical time for call/return stamps

    # -- called from worker threads
    def current_worker(self):
        return self.by_ident.get(threading.get_ident())

    def yield_point(self, w, what):
        w.steps += 1
        self.back.release()
        w.go.acquire()
        if self.abort:
            raise _Abort()

    def _tracer(self, w):
        files = self.trace_files

        def local(frame, event, arg):
            if event == "line":
                self.yield_point(w, ("line", frame.f_lineno))
            return local

        def glob(frame, event, arg):
            if event == "call" and frame.f_code.co_filename.endswith(files):
                return local
            return None
        return glob

    def _body(self, w):
        self.by_ident[threading.get_ident()] = w
        w.go.acquire()
        sys.settrace(self._tracer(w))
        try:
            w.result = w.fn(self)
        except _Abort:
            pass
        except BaseException as e:  # noqa
            w.exc = e
        finally:
            sys.settrace(None)
            w.done = True
            self.back.release()

    # -- main
    def run(self):
        for w in self.workers:
            w.thread = threading.Thread(target=self._body, args=(w,))
            w.thread.daemon = True
            w.thread.start()
        running = None
        steps = 0
        while True:
            live = [w for w in self.workers if not w.done]
            if not live:
                break
            enabled = [w for w in live if w.blocked_on is None or
                       w.blocked_on.owner is None]
            if not enabled:
                self.deadlock = True
                break
            # canonical order: running thread first if still enabled
            order = sorted(enabled, key=lambda w: w.idx)
            rse = running is not None and running in order
            if rse:
                order.remove(running)
                order.insert(0, running)
            if len(order) > 1:
                i = len(self.points)
                self.points.append(([w.idx for w in order], rse))
                c = self.choices[i] if i < len(self.choices) else 0
                if c >= len(order):
                    raise RuntimeError("replay divergence at point %d" % i)
                self.taken.append(c)
                nxt = order[c]
            else:
                nxt = order[0]
            running = nxt
            nxt.go.release()
            self.back.acquire()
            steps += 1
            if self.invariant is not None and self.inv_fail is None:
                r = self.invariant(self)
                if r:
                    self.inv_fail = r
            if steps > self.max_steps:
                self.deadlock = True
                break
        if self.deadlock:
            # unwind the stuck threads so they do not pile up
            self.abort = True
            for w in self.workers:
                if not w.done:
                    w.go.release()
            for w in self.workers:
                w.thread.join(1)
        for w in self.workers:
            if w.done:
                w.thread.join(1)
        return self

    def preemptions_before(self, i):
        n = 0
        for j in range(i):
            if self.points[j][1] and self.taken[j] != 0:
                n += 1
        return n


def explore(make_bodies, trace_files, bound, invariant=None, on_exec=None,
            max_execs=None):
    """Depth-first over schedules with at most `bound` preemptions.
    make_bodies() -> (bodies, context); on_exec(sched, context)."""
    stack = [[]]
    n = 0
    while stack:
        prefix = stack.pop()
        bodies, ctx = make_bodies()
        s = Sched(bodies, trace_files, prefix, invariant=(
            (lambda sc, c=ctx: invariant(sc, c)) if invariant else None))
        s.run()
        n += 1
        if on_exec:
            on_exec(s, ctx)
        if max_execs is not None and n >= max_execs:
            return n, False
        for i in range(len(prefix), len(s.points)):
            order, rse = s.points[i]
            cost = s.preemptions_before(i)
            for alt in range(1, len(order)):
                c = cost + (1 if rse else 0)
                if c > bound:
                    continue
                stack.append(s.taken[:i] + [alt])
    return n, True
