"""Independent record-layer sealer/opener, configured from the IANA suite
name alone (mc.ianasuite) and keyed from session secrets through
mc.refcrypto.  Wire-level witness for C01/C02/C16/C20 and forger of
peer-level record malformations."""
import struct

from . import refcrypto as R
from . import ianasuite


class RefBad(Exception):
    pass


class _RC4State(object):
    def __init__(self, key):
        key = bytes(key)
        s = list(range(256))
        j = 0
        for i in range(256):
            j = (j + s[i] + key[i % len(key)]) & 0xff
            s[i], s[j] = s[j], s[i]
        self.s, self.i, self.j = s, 0, 0

    def copy(self):
        n = _RC4State.__new__(_RC4State)
        n.s, n.i, n.j = list(self.s), self.i, self.j
        return n

    def crypt(self, data):
        s, i, j = self.s, self.i, self.j
        out = bytearray()
        for b in bytes(data):
            i = (i + 1) & 0xff
            j = (j + s[i]) & 0xff
            s[i], s[j] = s[j], s[i]
            out.append(b ^ s[(s[i] + s[j]) & 0xff])
        self.i, self.j = i, j
        return bytes(out)


class Dir(object):
    """Protection state for one direction."""

    def __init__(self):
        self.seq = 0
        self.mac_key = b""
        self.key = b""
        self.iv = b""          # CBC chaining IV (<=1.0) or AEAD fixed nonce
        self.rc4 = None
        self.cipher = None


def _mk_cipher(info, key):
    if info.cipher == "AES":
        return R.AES(key)
    if info.cipher == "3DES":
        return R.TripleDES(key)
    return None


def key_lengths(info, tls13=False):
    """(mac, key, iv) lengths of the key block, from the name."""
    klen = info.keylen // 8
    if info.mode in ("GCM", "CCM", "CCM_8"):
        return 0, klen, 12 if tls13 else 4
    if info.mode == "POLY1305":
        if info.name.endswith("_draft_00"):
            return 0, klen, 4
        return 0, klen, 12
    if info.mode == "CBC":
        return info.maclen, klen, info.blocklen
    return info.maclen, klen, 0       # stream / null


class RefConn(object):
    """Both directions of one connection epoch."""

    def __init__(self, info, version, etm=False):
        self.info = info
        self.version = tuple(version)
        self.tls13 = self.version >= (3, 4)
        self.aead = info.mode in ("GCM", "CCM", "CCM_8", "POLY1305")
        self.etm = bool(etm) and info.mode == "CBC" and not self.aead
        self.d = {"c2s": Dir(), "s2c": Dir()}
        self.prf = info.prf if (self.tls13 or self.version == (3, 3)) \
            else None

    # ---------------------------------------------------------- keying
    @classmethod
    def from_master(cls, info, version, etm, master, client_random,
                    server_random):
        self = cls(info, version, etm)
        ml, kl, il = key_lengths(info)
        n = 2 * (ml + kl + il)
        seed = bytes(server_random) + bytes(client_random)
        if self.version == (3, 0):
            kb = R.prf_ssl3(master, seed, n)
        elif self.version in ((3, 1), (3, 2)):
            kb = R.prf_tls10(master, b"key expansion", seed, n)
        else:
            kb = R.prf_tls12(master, b"key expansion", seed, n, info.prf)
        o = 0
        parts = []
        for ln in (ml, ml, kl, kl, il, il):
            parts.append(kb[o:o + ln])
            o += ln
        for name, mk, k, iv in (("c2s", parts[0], parts[2], parts[4]),
                                ("s2c", parts[1], parts[3], parts[5])):
            d = self.d[name]
            d.mac_key, d.key, d.iv = mk, k, iv
            d.cipher = _mk_cipher(info, k)
            if info.cipher == "RC4":
                d.rc4 = _RC4State(k)
        return self

    @classmethod
    def from_traffic_secrets(cls, info, cl_secret, sr_secret):
        self = cls(info, (3, 4), False)
        for name, sec in (("c2s", cl_secret), ("s2c", sr_secret)):
            self.rekey(name, sec)
        return self

    def rekey(self, name, secret):
        info = self.info
        d = self.d[name]
        d.secret = bytes(secret)
        d.key = R.hkdf_expand_label(secret, b"key", b"", info.keylen // 8,
                                    info.prf)
        d.iv = R.hkdf_expand_label(secret, b"iv", b"", 12, info.prf)
        d.seq = 0
        d.cipher = _mk_cipher(info, d.key)

    def key_update(self, name):
        d = self.d[name]
        hl = 48 if self.info.prf == "sha384" else 32
        self.rekey(name, R.hkdf_expand_label(d.secret, b"traffic upd", b"",
                                             hl, self.info.prf))

    # ---------------------------------------------------------- helpers
    def _mac(self, d, seq, ctype, data):
        seqb = struct.pack(">Q", seq)
        h = self.info.mac.lower()
        h = {"sha": "sha1"}.get(h, h)
        if self.version == (3, 0):
            return R.ssl3_mac(d.mac_key, h, seqb, ctype, data)
        return R.tls_mac(d.mac_key, h, seqb, ctype, self.version, data)

    def _aead(self, d, seal, nonce, data, aad):
        m = self.info.mode
        if m == "GCM":
            f = R.gcm_seal if seal else R.gcm_open
            return f(d.key, nonce, data, aad)
        if m in ("CCM", "CCM_8"):
            f = R.ccm_seal if seal else R.ccm_open
            return f(d.key, nonce, data, aad, 8 if m == "CCM_8" else 16)
        f = R.chacha20poly1305_seal if seal else R.chacha20poly1305_open
        return f(d.key, nonce, data, aad)

    def taglen(self):
        return 8 if self.info.mode == "CCM_8" else 16

    # ---------------------------------------------------------- open
    def open(self, name, rtype, rversion, body, commit=True):
        """Open one record body.  Returns (content type, plaintext,
        inner plaintext length incl. TLS1.3 type byte and padding)."""
        d = self.d[name]
        body = bytes(body)
        info = self.info
        seq = d.seq
        if self.tls13:
            if rtype != 23:
                raise RefBad("outer type %d" % rtype)
            nonce = R.xor(d.iv, bytes(4) + struct.pack(">Q", seq))
            aad = bytes([rtype, rversion[0], rversion[1]]) + \
                struct.pack(">H", len(body))
            pt = self._aead(d, False, nonce, body, aad)
            if pt is None:
                raise RefBad("aead tag")
            inner_len = len(pt)
            stripped = pt.rstrip(b"\x00")
            if not stripped:
                raise RefBad("no content type")
            if commit:
                d.seq += 1
            return stripped[-1], stripped[:-1], inner_len
        if self.aead:
            if info.mode == "POLY1305":
                if len(d.iv) == 12:
                    nonce = R.xor(d.iv, bytes(4) + struct.pack(">Q", seq))
                else:
                    nonce = d.iv + struct.pack(">Q", seq)
                ct = body
            else:
                if len(body) < 8:
                    raise RefBad("short explicit nonce")
                nonce = d.iv + body[:8]
                ct = body[8:]
            if len(ct) < self.taglen():
                raise RefBad("short tag")
            aad = struct.pack(">Q", seq) + bytes(
                [rtype, self.version[0], self.version[1]]) + \
                struct.pack(">H", len(ct) - self.taglen())
            pt = self._aead(d, False, nonce, ct, aad)
            if pt is None:
                raise RefBad("aead tag")
            if commit:
                d.seq += 1
            return rtype, pt, len(pt)
        # MAC-based
        ml = info.maclen
        if info.mode == "CBC":
            bs = info.blocklen
            if self.etm:
                if len(body) < ml:
                    raise RefBad("short")
                ct, mac = body[:-ml], body[-ml:]
                if self._mac(d, seq, rtype, ct) != mac:
                    raise RefBad("etm mac")
                if len(ct) % bs or not ct:
                    raise RefBad("block")
                if self.version >= (3, 2):
                    iv, ct2 = ct[:bs], ct[bs:]
                else:
                    iv, ct2 = d.iv, ct
                pt = R.cbc_decrypt(d.cipher, iv, ct2)
                if not pt:
                    raise RefBad("empty")
                p = pt[-1]
                if p + 1 > len(pt):
                    raise RefBad("pad len")
                if self.version > (3, 0) and pt[-(p + 1):] != \
                        bytes([p]) * (p + 1):
                    raise RefBad("pad bytes")
                data = pt[:-(p + 1)]
                if commit:
                    d.seq += 1
                    d.iv = ct[-bs:]
                return rtype, data, len(data)
            if len(body) % bs or not body:
                raise RefBad("block")
            if self.version >= (3, 2):
                iv, ct2 = body[:bs], body[bs:]
            else:
                iv, ct2 = d.iv, body
            pt = R.cbc_decrypt(d.cipher, iv, ct2)
            if not pt:
                raise RefBad("empty")
            p = pt[-1]
            if p + 1 + ml > len(pt):
                raise RefBad("pad len")
            if self.version > (3, 0):
                if pt[-(p + 1):] != bytes([p]) * (p + 1):
                    raise RefBad("pad bytes")
            elif p >= bs:
                raise RefBad("ssl3 pad too long")
            data = pt[:-(p + 1 + ml)]
            mac = pt[-(p + 1 + ml):-(p + 1)]
            if self._mac(d, seq, rtype, data) != mac:
                raise RefBad("mac")
            if commit:
                d.seq += 1
                d.iv = body[-bs:]
            return rtype, data, len(data)
        # stream / null
        if info.cipher == "RC4":
            st = d.rc4.copy()
            pt = st.crypt(body)
        else:
            st = None
            pt = body
        if len(pt) < ml:
            raise RefBad("short")
        data, mac = pt[:len(pt) - ml], pt[len(pt) - ml:]
        if self._mac(d, seq, rtype, data) != mac:
            raise RefBad("mac")
        if commit:
            d.seq += 1
            if st is not None:
                d.rc4 = st
        return rtype, data, len(data)

    # ---------------------------------------------------------- seal
    def seal(self, name, ctype, plaintext, explicit_iv=None, pad_len=None,
             outer_type=None, outer_version=None, tls13_pad=0,
             inner_raw=None, bad_mac=False, commit=True, pad_bytes=None):
        """Protect one record as the sender of direction `name` would;
        returns the complete record (header + body).  The optional arguments
        build peer-level malformations that are correctly keyed."""
        d = self.d[name]
        info = self.info
        seq = d.seq
        plaintext = bytes(plaintext)
        if self.tls13:
            inner = inner_raw if inner_raw is not None else \
                plaintext + bytes([ctype]) + bytes(tls13_pad)
            ot = 23 if outer_type is None else outer_type
            ov = (3, 3) if outer_version is None else outer_version
            nonce = R.xor(d.iv, bytes(4) + struct.pack(">Q", seq))
            ln = len(inner) + self.taglen()
            aad = bytes([ot, ov[0], ov[1]]) + struct.pack(">H", ln)
            body = self._aead(d, True, nonce, inner, aad)
            if bad_mac:
                body = body[:-1] + bytes([body[-1] ^ 1])
            if commit:
                d.seq += 1
            return bytes([ot, ov[0], ov[1]]) + struct.pack(">H", len(body)) \
                + body
        ov = self.version if outer_version is None else outer_version
        ot = ctype if outer_type is None else outer_type
        if self.aead:
            aad = struct.pack(">Q", seq) + bytes(
                [ctype, self.version[0], self.version[1]]) + \
                struct.pack(">H", len(plaintext))
            if info.mode == "POLY1305":
                if len(d.iv) == 12:
                    nonce = R.xor(d.iv, bytes(4) + struct.pack(">Q", seq))
                else:
                    nonce = d.iv + struct.pack(">Q", seq)
                body = self._aead(d, True, nonce, plaintext, aad)
            else:
                exp = struct.pack(">Q", seq) if explicit_iv is None \
                    else explicit_iv
                body = exp + self._aead(d, True, d.iv + exp, plaintext, aad)
            if bad_mac:
                body = body[:-1] + bytes([body[-1] ^ 1])
            if commit:
                d.seq += 1
        elif info.mode == "CBC":
            bs = info.blocklen

            def pad(x):
                p = (bs - 1 - len(x) % bs) if pad_len is None else pad_len
                if pad_bytes is not None:
                    return x + pad_bytes + bytes([p])
                return x + bytes([p]) * (p + 1)
            if self.version >= (3, 2):
                iv = explicit_iv if explicit_iv is not None else \
                    bytes((seq * 7 + i) & 0xff for i in range(bs))
            else:
                iv = d.iv
            if self.etm:
                ct = R.cbc_encrypt(d.cipher, iv, pad(plaintext))
                if self.version >= (3, 2):
                    ct = iv + ct
                mac = self._mac(d, seq, ctype, ct)
                if bad_mac:
                    mac = mac[:-1] + bytes([mac[-1] ^ 1])
                body = ct + mac
                last = ct[-bs:]
            else:
                mac = self._mac(d, seq, ctype, plaintext)
                if bad_mac:
                    mac = mac[:-1] + bytes([mac[-1] ^ 1])
                ct = R.cbc_encrypt(d.cipher, iv, pad(plaintext + mac))
                body = (iv + ct) if self.version >= (3, 2) else ct
                last = ct[-bs:]
            if commit:
                d.seq += 1
                d.iv = last
        else:
            mac = self._mac(d, seq, ctype, plaintext)
            if bad_mac:
                mac = mac[:-1] + bytes([mac[-1] ^ 1])
            pt = plaintext + mac
            if info.cipher == "RC4":
                st = d.rc4.copy()
                body = st.crypt(pt)
                if commit:
                    d.rc4 = st
            else:
                body = pt
            if commit:
                d.seq += 1
        return bytes([ot, ov[0], ov[1]]) + struct.pack(">H", len(body)) + body


# ---------------------------------------------------------------- witness
def witness(conn_view, info, c2s_log, s2c_log, client_random=None,
            server_random=None, extra_updates=None):
    """Open every protected record on both taps.

    conn_view: dict with version, etm, ms | cl_app/sr_app (hex)
    Returns {"c2s": [(type, plaintext, inner_len, record_len)], "s2c": ...,
    "errors": [...]}
    """
    from .world import split_records
    version = tuple(conn_view["version"])
    out = {"c2s": [], "s2c": [], "errors": []}
    if version >= (3, 4):
        rc = RefConn.from_traffic_secrets(
            info, bytes.fromhex(conn_view["cl_app0"]),
            bytes.fromhex(conn_view["sr_app0"]))
        out["key_updates"] = {"c2s": 0, "s2c": 0}
        for name, log in (("c2s", c2s_log), ("s2c", s2c_log)):
            synced = False
            # handshake messages are reassembled before they are looked at:
            # with a small record_size_limit a NewSessionTicket spans several
            # records and a continuation fragment may begin with octet 0x18
            hs = b""
            for (t, v, body) in split_records(log):
                if t is None:
                    out["errors"].append((name, "partial trailing record"))
                    continue
                if t != 23:
                    continue
                try:
                    ct, pt, il = rc.open(name, t, v, body)
                except RefBad as e:
                    if synced:
                        out["errors"].append((name, "open failed: %s" % e))
                    continue
                synced = True
                out[name].append((ct, pt, il, len(body)))
                if ct == 22:
                    hs += pt
                    while len(hs) >= 4 and \
                            len(hs) >= 4 + int.from_bytes(hs[1:4], "big"):
                        mt = hs[0]
                        hs = hs[4 + int.from_bytes(hs[1:4], "big"):]
                        if mt == 0x18 and not hs:        # KeyUpdate
                            out["key_updates"][name] += 1
                            rc.key_update(name)
        return out
    rc = RefConn.from_master(info, version, conn_view["etm"],
                             bytes.fromhex(conn_view["ms"]), client_random,
                             server_random)
    for name, log in (("c2s", c2s_log), ("s2c", s2c_log)):
        active = False
        for (t, v, body) in split_records(log):
            if t is None:
                out["errors"].append((name, "partial trailing record"))
                continue
            if not active:
                if t == 20:
                    active = True
                continue
            try:
                ct, pt, il = rc.open(name, t, v, body)
            except RefBad as e:
                out["errors"].append((name, "open failed: %s" % e))
                continue
            out[name].append((ct, pt, il, len(body)))
    return out
