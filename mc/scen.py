"""Scenario construction: settings, credentials and handshake generators."""
from . import world as W
from . import ianasuite
from .world import (TLSConnection, HandshakeSettings, SessionCache, Pair,
                    World, Task, run_tasks, load_cred, srp_db, SEAMS)
from tlslite.constants import CipherSuite
from tlslite.handshakesettings import TLS13_PERMITTED_GROUPS

VERSIONS = [(3, 0), (3, 1), (3, 2), (3, 3), (3, 4)]
VNAME = {(3, 0): "SSLv3", (3, 1): "TLS1.0", (3, 2): "TLS1.1",
         (3, 3): "TLS1.2", (3, 4): "TLS1.3"}

ALL_INFOS = {}
for _sid, _name in CipherSuite.ietfNames.items():
    _i = ianasuite.parse(_name)
    if _i is not None:
        ALL_INFOS[_sid] = _i


def base_settings(version=None, minv=None, maxv=None):
    s = HandshakeSettings()
    if version is not None:
        minv = maxv = version
    if minv is not None:
        s.minVersion = minv
    if maxv is not None:
        s.maxVersion = maxv
    if s.minVersion > (3, 3):
        # a TLS 1.3-only policy may not list the legacy brainpool names
        s.eccCurves = [c for c in s.eccCurves if c in TLS13_PERMITTED_GROUPS]
    s.versions = [v for v in [(3, 4), (3, 3), (3, 2), (3, 1), (3, 0)]
                  if s.minVersion <= v <= s.maxVersion]
    return s


def restrict_to_suite(s, info):
    """Restrict a settings object to one suite, from its IANA reading."""
    s.cipherNames = [info.setting_cipher()]
    s.macNames = [info.setting_mac()]
    k = info.setting_kex()
    if k is not None:
        s.keyExchangeNames = [k]
    return s


class Scen(object):
    """A handshake scenario.  All fields are plain data so a scenario can
    be shipped to a worker process and written into a replay file."""

    def __init__(self, name, version=(3, 3), suite=None, flavour="cert",
                 cred="rsa", client_cred=None, req_cert=False, etm=True,
                 cset=None, sset=None, ckw=None, skw=None, cache=False,
                 tickets=False, minv=None, maxv=None, sminv=None, smaxv=None):
        self.name = name
        self.version = version
        self.suite = suite          # suite id or None
        self.flavour = flavour      # cert | srp | srpcert | anon | psk
        self.cred = cred
        self.client_cred = client_cred
        self.req_cert = req_cert
        self.etm = etm
        self.cset = cset or {}
        self.sset = sset or {}
        self.ckw = ckw or {}
        self.skw = skw or {}
        self.cache = cache
        self.tickets = tickets
        self.minv, self.maxv = minv, maxv
        self.sminv, self.smaxv = sminv, smaxv

    def as_dict(self):
        d = dict(self.__dict__)
        return d

    # ------------------------------------------------------------------
    def client_settings(self):
        if self.minv or self.maxv:
            s = base_settings(minv=self.minv or (3, 0),
                              maxv=self.maxv or (3, 4))
        else:
            s = base_settings(self.version)
        if self.suite is not None:
            restrict_to_suite(s, ALL_INFOS[self.suite])
        s.useEncryptThenMAC = self.etm
        if self.flavour == "psk":
            s.pskConfigs = [(b"verif-psk", b"\x5a" * 32, "sha256")]
        for k, v in self.cset.items():
            setattr(s, k, v)
        return s

    def server_settings(self):
        if self.sminv or self.smaxv:
            s = base_settings(minv=self.sminv or (3, 0),
                              maxv=self.smaxv or (3, 4))
        elif self.minv or self.maxv:
            s = base_settings(minv=self.minv or (3, 0),
                              maxv=self.maxv or (3, 4))
        else:
            s = base_settings(self.version)
        if self.suite is not None:
            restrict_to_suite(s, ALL_INFOS[self.suite])
        s.useEncryptThenMAC = self.etm
        if self.flavour == "psk":
            s.pskConfigs = [(b"verif-psk", b"\x5a" * 32, "sha256")]
        if self.tickets:
            s.ticketKeys = [bytearray(b"\x11" * 32)]
        else:
            s.ticket_count = 0
        for k, v in self.sset.items():
            setattr(s, k, v)
        return s

    def client_gen(self, conn, session=None, settings=None):
        st = settings or self.client_settings()
        kw = dict(self.ckw)
        if self.flavour in ("srp", "srpcert"):
            kw.pop("alpn", None)
            kw.pop("nextProtos", None)
            return conn.handshakeClientSRP(bytearray(b"test"),
                                           bytearray(b"password"),
                                           session=session, settings=st,
                                           async_=True, **kw)
        if self.flavour == "anon":
            kw.pop("alpn", None)
            kw.pop("nextProtos", None)
            return conn.handshakeClientAnonymous(session=session,
                                                 settings=st, async_=True,
                                                 **kw)
        chain = key = None
        if self.client_cred:
            chain, key = load_cred(self.client_cred)
        return conn.handshakeClientCert(chain, key, session=session,
                                        settings=st, async_=True, **kw)

    def server_gen(self, conn, cache=None, settings=None):
        st = settings or self.server_settings()
        kw = dict(self.skw)
        if self.flavour == "srp":
            return conn.handshakeServerAsync(verifierDB=srp_db(),
                                             settings=st,
                                             sessionCache=cache, **kw)
        if self.flavour == "srpcert":
            chain, key = load_cred(self.cred)
            return conn.handshakeServerAsync(verifierDB=srp_db(),
                                             certChain=chain, privateKey=key,
                                             settings=st, sessionCache=cache,
                                             **kw)
        if self.flavour == "anon":
            return conn.handshakeServerAsync(anon=True, settings=st,
                                             sessionCache=cache, **kw)
        if self.flavour == "psk" and self.cred is None:
            return conn.handshakeServerAsync(settings=st,
                                             sessionCache=cache, **kw)
        chain, key = load_cred(self.cred)
        return conn.handshakeServerAsync(certChain=chain, privateKey=key,
                                         reqCert=self.req_cert, settings=st,
                                         sessionCache=cache, **kw)


def connect(scen, world=None, seed=0, session=None, cache=None,
            csettings=None, ssettings=None, reset=True, pair=None, **runkw):
    """Run the scenario's handshake; returns (pair, outcomes)."""
    if reset:
        SEAMS.reset(seed, scen.name)
    if pair is None:
        pair = Pair(world)
    if cache is None and scen.cache:
        cache = SessionCache()
    pair.cache = cache
    SEAMS.current = "C"
    cg = scen.client_gen(pair.c, session=session, settings=csettings)
    SEAMS.current = "S"
    sg = scen.server_gen(pair.s, cache=cache, settings=ssettings)
    SEAMS.current = "main"
    out = pair.handshake(cg, sg, **runkw)
    return pair, out


# ---------------------------------------------------------------- catalogue
def suite_version_pairs():
    """All (version, suite id) pairs the registry defines AND the library
    claims to implement (has a settings name for every component)."""
    out = []
    for sid in sorted(ALL_INFOS):
        info = ALL_INFOS[sid]
        if info.setting_cipher() is None or info.setting_mac() is None:
            continue
        if not info.tls13 and info.setting_kex() is None:
            continue
        for v in VERSIONS:
            if ianasuite.defined_in(info, v) and library_offers(v, sid):
                out.append((v, sid))
    return out


def library_offers(version, sid):
    """Domain of 'negotiable': does a client restricted (by IANA reading)
    to this suite put it into its ClientHello for that version?"""
    st = restrict_to_suite(base_settings(version), ALL_INFOS[sid])
    try:
        st = st.validate()
    except ValueError:
        return False
    return bool(CipherSuite._filterSuites([sid], st, version))


def scen_for_suite(version, sid, etm=True, **kw):
    info = ALL_INFOS[sid]
    cred = ianasuite.cred_for(info)
    flavour = "cert"
    if info.kex == "SRP":
        flavour = "srp" if info.auth == "SRP" else "srpcert"
        cred = "rsa"
    elif info.auth == "anon":
        flavour = "anon"
        cred = None
    name = "%s/%s%s" % (VNAME[version], info.name, "" if etm else "/noetm")
    return Scen(name, version=version, suite=sid, flavour=flavour, cred=cred,
                etm=etm, **kw)


def family_of(info, version, etm):
    """Record-protection family of a (suite, version, etm)."""
    if info.tls13:
        return "tls13-" + info.setting_cipher()
    if info.mode in ("GCM", "CCM", "CCM_8", "POLY1305"):
        return "aead-" + info.setting_cipher()
    if info.mode == "STREAM":
        return "stream-%s-%s" % (info.cipher, info.mac) + \
            ("-ssl3" if version == (3, 0) else "")
    # CBC
    if version <= (3, 1):
        fam = "cbc-implicitiv"
    else:
        fam = "cbc-explicitiv"
    if version == (3, 0):
        fam += "-ssl3"
    if etm and version > (3, 0):
        fam += "-etm"
    return "%s-%s-%s" % (fam, info.setting_cipher(), info.mac)


# A compact list of handshake flavours used by the state-machine, transport
# and fault checks.
def flavours(tier="quick"):
    CS = CipherSuite
    L = []

    def add(name, **kw):
        L.append(Scen(name, **kw))

    for v in [(3, 0), (3, 1), (3, 2), (3, 3)]:
        vn = VNAME[v]
        add(vn + "-RSA", version=v, suite=CS.TLS_RSA_WITH_AES_128_CBC_SHA)
        add(vn + "-DHE_RSA", version=v,
            suite=CS.TLS_DHE_RSA_WITH_AES_128_CBC_SHA)
        add(vn + "-ECDHE_RSA", version=v,
            suite=CS.TLS_ECDHE_RSA_WITH_AES_128_CBC_SHA)
        if tier == "thorough" or v in ((3, 1), (3, 3)):
            add(vn + "-ECDHE_ECDSA", version=v, cred="ecdsa",
                suite=CS.TLS_ECDHE_ECDSA_WITH_AES_128_CBC_SHA)
            add(vn + "-RSA-clientauth", version=v, req_cert=True,
                client_cred="c_rsa", suite=CS.TLS_RSA_WITH_AES_128_CBC_SHA)
            add(vn + "-ECDHE_RSA-reqcert-nocert", version=v, req_cert=True,
                suite=CS.TLS_ECDHE_RSA_WITH_AES_128_CBC_SHA)
        if v >= (3, 1):
            add(vn + "-SRP", version=v, flavour="srp",
                suite=CS.TLS_SRP_SHA_WITH_AES_128_CBC_SHA)
            if tier == "thorough" or v == (3, 3):
                add(vn + "-SRP_RSA", version=v, flavour="srpcert",
                    suite=CS.TLS_SRP_SHA_RSA_WITH_AES_128_CBC_SHA)
        add(vn + "-DH_anon", version=v, flavour="anon", cred=None,
            suite=CS.TLS_DH_ANON_WITH_AES_128_CBC_SHA)
        if tier == "thorough" or v == (3, 3):
            add(vn + "-ECDH_anon", version=v, flavour="anon", cred=None,
                suite=CS.TLS_ECDH_ANON_WITH_AES_128_CBC_SHA)
            add(vn + "-DHE_DSA", version=v, cred="dsa",
                suite=CS.TLS_DHE_DSS_WITH_AES_128_CBC_SHA)
    add("TLS1.2-ECDHE_RSA-GCM", version=(3, 3),
        suite=CS.TLS_ECDHE_RSA_WITH_AES_128_GCM_SHA256)
    add("TLS1.2-ECDHE_RSA-tickets", version=(3, 3), tickets=True,
        suite=CS.TLS_ECDHE_RSA_WITH_AES_128_GCM_SHA256)
    add("TLS1.2-ECDHE_ECDSA-clientauth-ecdsa", version=(3, 3), cred="ecdsa",
        req_cert=True, client_cred="c_ecdsa",
        suite=CS.TLS_ECDHE_ECDSA_WITH_AES_128_GCM_SHA256)
    add("TLS1.2-Ed25519", version=(3, 3), cred="ed25519",
        suite=CS.TLS_ECDHE_ECDSA_WITH_AES_128_GCM_SHA256)
    # TLS 1.3
    add("TLS1.3-RSA", version=(3, 4), suite=CS.TLS_AES_128_GCM_SHA256)
    add("TLS1.3-ECDSA", version=(3, 4), cred="ecdsa",
        suite=CS.TLS_AES_128_GCM_SHA256)
    add("TLS1.3-Ed25519-chacha", version=(3, 4), cred="ed25519",
        suite=CS.TLS_CHACHA20_POLY1305_SHA256)
    add("TLS1.3-RSA-clientauth", version=(3, 4), req_cert=True,
        client_cred="c_rsa", suite=CS.TLS_AES_128_GCM_SHA256)
    add("TLS1.3-RSA-reqcert-nocert", version=(3, 4), req_cert=True,
        suite=CS.TLS_AES_128_GCM_SHA256)
    add("TLS1.3-HRR", version=(3, 4), suite=CS.TLS_AES_128_GCM_SHA256,
        cset={"keyShares": []})
    add("TLS1.3-tickets", version=(3, 4), tickets=True,
        suite=CS.TLS_AES_256_GCM_SHA384)
    add("TLS1.3-PSK", version=(3, 4), flavour="psk",
        suite=CS.TLS_AES_128_GCM_SHA256)
    # the client offers a PSK the server does not have: certificate
    # authentication although pre_shared_key was in the ClientHello
    add("TLS1.3-PSK-declined", version=(3, 4),
        suite=CS.TLS_AES_128_GCM_SHA256,
        cset={"pskConfigs": [(b"not-known-to-the-server", b"\x33" * 32,
                              "sha256")]})
    # flights fragmented into many small records (both directions)
    add("TLS1.3-RSA-clientauth-rsl64", version=(3, 4), req_cert=True,
        client_cred="c_rsa", suite=CS.TLS_AES_128_GCM_SHA256,
        cset={"record_size_limit": 64}, sset={"record_size_limit": 64})
    add("TLS1.2-ECDHE_RSA-rsl64", version=(3, 3),
        suite=CS.TLS_ECDHE_RSA_WITH_AES_128_GCM_SHA256,
        cset={"record_size_limit": 64}, sset={"record_size_limit": 64})
    add("TLS1.3-FFDHE", version=(3, 4), suite=CS.TLS_AES_128_GCM_SHA256,
        cset={"keyShares": ["ffdhe2048"], "eccCurves": [],
              "dhGroups": ["ffdhe2048"]})
    return L
