"""The closed deterministic world every check runs tlslite-ng in.

* os.urandom  -> per-endpoint SHA-256 counter DRBG (selected by the endpoint
                 currently being stepped)
* time.time   -> virtual clock owned by the harness
* transport   -> in-memory byte pipes whose every recv/send is a decision point
* scheduler   -> round-robin stepping of the library's own generators with a
                 stall rule and a step budget
"""
import os
import sys
import time
import errno
import socket
import hashlib
import copy
import struct
import threading

REPO = os.environ.get("VERIF_REPO", "/repo")
if REPO not in sys.path:
    sys.path.insert(0, REPO)
sys.dont_write_bytecode = True

_real_urandom = os.urandom
_real_time = time.time
perf = time.perf_counter


class DRBG(object):
    """SHA-256 counter generator; one stream per (seed, label)."""

    def __init__(self, seed, label):
        self.key = hashlib.sha256(
            ("%s|%s" % (seed, label)).encode()).digest()
        self.ctr = 0
        self.pool = b""

    def read(self, n):
        while len(self.pool) < n:
            self.pool += hashlib.sha256(
                self.key + struct.pack(">Q", self.ctr)).digest()
            self.ctr += 1
        out, self.pool = self.pool[:n], self.pool[n:]
        return out


class Seams(object):
    """Process-wide determinism seams (installed once, state swapped per
    execution)."""

    def __init__(self):
        self.seed = 0
        self.scenario = ""
        self.streams = {}
        self.current = "main"
        self.now = 1700000000.0
        self.installed = False
        self.urandom_calls = 0

    def install(self):
        if self.installed:
            return
        os.urandom = self._urandom
        time.time = self._time
        self.installed = True

    def reset(self, seed, scenario="", now=1700000000.0):
        self.seed = seed
        self.scenario = scenario
        self.streams = {}
        self.current = "main"
        self.now = now
        self.urandom_calls = 0

    def _urandom(self, n):
        self.urandom_calls += 1
        s = self.streams.get(self.current)
        if s is None:
            s = DRBG(self.seed, "%s|%s" % (self.scenario, self.current))
            self.streams[self.current] = s
        return s.read(n)

    def _time(self):
        return self.now

    def snapshot(self):
        return (self.seed, self.scenario, copy.deepcopy(self.streams),
                self.current, self.now)

    def restore(self, snap):
        (self.seed, self.scenario, streams, self.current, self.now) = snap
        self.streams = copy.deepcopy(streams)


SEAMS = Seams()
SEAMS.install()

# tlslite is imported only after the seams exist
from tlslite.api import (TLSConnection, HandshakeSettings, X509, X509CertChain,  # noqa: E402
                         parsePEMKey, SessionCache, VerifierDB, Checker)
from tlslite import errors as tls_errors  # noqa: E402
from tlslite.constants import ContentType, AlertDescription, AlertLevel  # noqa: E402

# ---------------------------------------------------------------- deepcopy
import _hashlib  # noqa: E402
import hmac as _hmac_mod  # noqa: E402


def _register_copiers():
    d = copy._deepcopy_dispatch
    seen = set()
    for name in ("md5", "sha1", "sha224", "sha256", "sha384", "sha512"):
        try:
            t = type(hashlib.new(name))
        except Exception:
            continue
        if t not in seen:
            seen.add(t)
            d[t] = lambda x, memo: x.copy()
    try:
        t = type(_hashlib.hmac_new(b"k", digestmod="sha256"))
        d[t] = lambda x, memo: x.copy()
    except Exception:
        pass
    lock_t = type(threading.Lock())
    d[lock_t] = lambda x, memo: threading.Lock()
    rlock_t = type(threading.RLock())
    d[rlock_t] = lambda x, memo: threading.RLock()


_register_copiers()


# ---------------------------------------------------------------- transport
class Script(object):
    """Answers for decision points.  choices: {point_index: alternative};
    everything else takes alternative 0 (the benign default)."""

    def __init__(self, choices=None, regime=None):
        self.choices = dict(choices or {})
        self.regime = regime          # optional callable(point) -> alt
        self.points = []              # (kind, who, info, n_alternatives)
        self.taken = []

    def decide(self, kind, who, info, nalts):
        idx = len(self.points)
        self.points.append((kind, who, info, nalts))
        alt = self.choices.get(idx)
        if alt is None:
            alt = self.regime((idx, kind, who, info, nalts)) \
                if self.regime else 0
        if alt >= nalts:
            raise ReplayDivergence(
                "choice %d out of range at point %d %r" % (alt, idx,
                                                           self.points[-1]))
        self.taken.append(alt)
        return alt


class ReplayDivergence(Exception):
    pass


class Pipe(object):
    """One direction of the wire."""

    def __init__(self, name):
        self.name = name
        self.buf = bytearray()      # bytes visible to the receiver
        self.raw = bytearray()      # bytes written, not yet framed (mitm)
        self.eof = False            # writer closed
        self.reset = False          # deliver ECONNRESET to reader
        self.log = bytearray()      # everything the sender wrote
        self.delivered = bytearray()  # everything made visible to receiver
        self.mitm = None            # callable(pipe, index, record)->[records]
        self.rec_index = 0

    def write(self, data):
        self.log += data
        if self.mitm is None:
            self.buf += data
            self.delivered += data
            return
        self.raw += data
        while True:
            rec = take_record(self.raw)
            if rec is None:
                break
            out = self.mitm(self, self.rec_index, rec)
            self.rec_index += 1
            for r in out:
                self.buf += r
                self.delivered += r

    def inject(self, data):
        self.buf += data
        self.delivered += data


def take_record(raw):
    """Pop one SSL3-style record off a bytearray or return None."""
    if len(raw) < 5:
        return None
    ln = (raw[3] << 8) | raw[4]
    if len(raw) < 5 + ln:
        return None
    rec = bytes(raw[:5 + ln])
    del raw[:5 + ln]
    return rec


def split_records(data):
    """Parse a byte string into (type, version, body) records; trailing
    partial record is returned as a last element with type None."""
    out = []
    i = 0
    data = bytes(data)
    while i + 5 <= len(data):
        ln = (data[i + 3] << 8) | data[i + 4]
        if i + 5 + ln > len(data):
            break
        out.append((data[i], (data[i + 1], data[i + 2]),
                    data[i + 5:i + 5 + ln]))
        i += 5 + ln
    if i < len(data):
        out.append((None, None, data[i:]))
    return out


RECV_ALTS = ("all", "one", "two", "half", "block", "eof", "reset")
SEND_ALTS = ("all", "one", "half", "block", "epipe", "reset")


class MemSock(object):
    """In-memory non-blocking socket end."""

    def __init__(self, world, who, rx, tx):
        self.world = world
        self.who = who
        self.rx = rx
        self.tx = tx
        self.closed = False
        self.dead = False
        self.io_calls = 0

    # -- receive
    def recv(self, n):
        w = self.world
        self.io_calls += 1
        if self.closed:
            raise socket.error(errno.EBADF, "closed")
        avail = len(self.rx.buf)
        nalts = w.recv_alts
        alt = w.script.decide("recv", self.who, (n, avail), nalts) \
            if nalts > 1 else 0
        kind = RECV_ALTS[alt]
        if kind in ("eof", "reset"):
            w.activity += 1
            self.rx.buf = bytearray()
            self.rx.eof = True
            if kind == "reset":
                # a reset kills both directions of the connection
                self.rx.reset = True
                self.tx.eof = True
                self.dead = True
                raise socket.error(errno.ECONNRESET, "reset by peer")
            return b""
        if kind == "block":
            if avail:
                # a would-block although data exists: spurious wake-up, the
                # next call sees the data again
                w.activity += 1
            raise socket.error(errno.EWOULDBLOCK, "would block")
        if avail == 0:
            if self.rx.reset:
                raise socket.error(errno.ECONNRESET, "reset by peer")
            if self.rx.eof:
                return b""
            raise socket.error(errno.EWOULDBLOCK, "would block")
        k = min(n, avail)
        if kind == "one":
            k = 1
        elif kind == "two":
            k = min(2, k)
        elif kind == "half":
            k = max(1, k // 2)
        out = bytes(self.rx.buf[:k])
        del self.rx.buf[:k]
        w.activity += 1
        return out

    # -- send
    def _send(self, data, sendall):
        w = self.world
        self.io_calls += 1
        if self.closed:
            raise socket.error(errno.EBADF, "closed")
        data = bytes(data)
        nalts = w.send_alts
        alt = w.script.decide("sendall" if sendall else "send", self.who,
                              len(data), nalts) if nalts > 1 else 0
        kind = SEND_ALTS[alt]
        if (self.tx.eof or self.dead) and kind not in ("reset",):
            kind = "epipe"
        if getattr(w, "epipe_after_peer_close", False) and \
                kind not in ("reset",):
            # opt-in: the peer has closed its socket, writing to it fails
            peer = w.ssock if self is getattr(w, "csock", None) else \
                getattr(w, "csock", None)
            if peer is not None and peer.closed:
                kind = "epipe"
        if kind in ("epipe", "reset"):
            # the connection is gone in both directions: what was already
            # received stays readable, then EOF; the peer sees EOF too
            w.activity += 1
            self.dead = True
            self.tx.eof = True
            self.rx.eof = True
            if kind == "epipe":
                raise socket.error(errno.EPIPE, "broken pipe")
            raise socket.error(errno.ECONNRESET, "reset by peer")
        if kind == "block":
            w.activity += 1
            raise socket.error(errno.EWOULDBLOCK, "would block")
        k = len(data)
        if kind == "one":
            k = min(1, k)
        elif kind == "half":
            k = max(1, k // 2) if k else 0
        self.tx.write(data[:k])
        w.activity += 1
        if sendall and k < len(data):
            # CPython semantics of sendall on a non-blocking socket
            raise socket.error(errno.EWOULDBLOCK, "would block in sendall")
        return k

    def send(self, data):
        return self._send(data, False)

    def sendall(self, data):
        self._send(data, True)

    def close(self):
        if not self.closed:
            self.closed = True
            self.tx.eof = True
            self.world.activity += 1

    def shutdown(self, how):
        self.tx.eof = True

    def getsockname(self):
        return ("mem", 0)

    def getpeername(self):
        return ("mem", 1)

    def settimeout(self, v):
        pass

    def gettimeout(self):
        return None

    def setsockopt(self, *a):
        pass

    def fileno(self):
        return -1


class World(object):
    """Two MemSock ends and the knobs the explorers turn."""

    def __init__(self, script=None, recv_alts=1, send_alts=1):
        self.script = script or Script()
        self.recv_alts = recv_alts
        self.send_alts = send_alts
        self.activity = 0
        self.c2s = Pipe("c2s")
        self.s2c = Pipe("s2c")
        self.csock = MemSock(self, "C", self.s2c, self.c2s)
        self.ssock = MemSock(self, "S", self.c2s, self.s2c)


class Outcome(object):
    __slots__ = ("status", "exc", "value", "steps")

    def __init__(self, status, exc=None, value=None, steps=0):
        self.status = status      # 'ok' | 'exc' | 'stall' | 'budget'
        self.exc = exc
        self.value = value
        self.steps = steps

    def sig(self):
        """Hashable signature of the outcome."""
        if self.status == "exc":
            return ("exc",) + exc_sig(self.exc)
        if self.status == "ok":
            v = self.value
            if isinstance(v, (bytes, bytearray)):
                return ("ok", bytes(v))
            return ("ok",)
        return (self.status,)

    def __repr__(self):
        return "Outcome%r" % (self.sig(),)


def exc_sig(e):
    name = type(e).__name__
    if isinstance(e, tls_errors.TLSAlert):
        d = getattr(e, "description", None)
        lvl = getattr(e, "level", None)
        return (name, d, lvl)
    if isinstance(e, (socket.error, OSError)) and e.args and \
            isinstance(e.args[0], int):
        return (name, errno.errorcode.get(e.args[0], e.args[0]))
    return (name,)


class Task(object):
    def __init__(self, who, gen):
        self.who = who
        self.gen = gen
        self.outcome = None
        self.steps = 0
        self.last = None


class StepHang(BaseException):
    """One resume of a library generator used more CPU than a whole
    handshake ever needs: it loops without yielding."""


STEP_LIMIT = float(os.environ.get("VERIF_STEP_TIMEOUT", "20"))


def _on_vtalrm(sig, frame):
    raise StepHang()


def _arm_step_watchdog():
    import signal
    import threading
    if threading.current_thread() is not threading.main_thread():
        return None
    if signal.getsignal(signal.SIGVTALRM) is not _on_vtalrm:
        signal.signal(signal.SIGVTALRM, _on_vtalrm)
    return signal


def run_tasks(world, tasks, max_steps=200000, stall_rounds=3, order=None):
    """Round-robin the generators until all finish, stall or blow the
    budget.  Returns {who: Outcome}."""
    stall = 0
    total = 0
    sigmod = _arm_step_watchdog()
    while True:
        live = [t for t in tasks if t.outcome is None]
        if not live:
            break
        progressed = False
        seq = live if order is None else order(live)
        for t in seq:
            if t.outcome is not None:
                continue
            before = world.activity
            SEAMS.current = t.who
            meter = getattr(world, "meter", None)
            if meter is not None and meter.who != t.who:
                meter = None
            try:
                if meter is not None:
                    meter.start()
                if sigmod is not None:
                    sigmod.setitimer(sigmod.ITIMER_VIRTUAL, STEP_LIMIT)
                try:
                    t.last = next(t.gen)
                finally:
                    if sigmod is not None:
                        sigmod.setitimer(sigmod.ITIMER_VIRTUAL, 0)
                    if meter is not None:
                        meter.stop()
                t.steps += 1
            except StepHang:
                # same verdict as an exhausted step budget: the endpoint
                # spins instead of failing or progressing
                t.outcome = Outcome("budget", steps=t.steps)
                progressed = True
                try:
                    t.gen.close()
                except BaseException:
                    pass
            except StopIteration as si:
                t.outcome = Outcome("ok", value=si.value if si.value
                                    is not None else t.last, steps=t.steps)
                progressed = True
            except ReplayDivergence:
                raise
            except BaseException as e:  # noqa
                if isinstance(e, (KeyboardInterrupt, SystemExit,
                                  MemoryError)):
                    raise
                t.outcome = Outcome("exc", exc=e, steps=t.steps)
                progressed = True
            finally:
                SEAMS.current = "main"
            if world.activity != before:
                progressed = True
            total += 1
        if progressed:
            stall = 0
        else:
            stall += 1
            if stall >= stall_rounds:
                for t in tasks:
                    if t.outcome is None:
                        t.outcome = Outcome("stall", steps=t.steps)
                        try:
                            t.gen.close()
                        except BaseException:
                            pass
                break
        if total > max_steps:
            for t in tasks:
                if t.outcome is None:
                    t.outcome = Outcome("budget", steps=t.steps)
                    try:
                        t.gen.close()
                    except BaseException:
                        pass
            break
    return dict((t.who, t.outcome) for t in tasks)


def run_gen(world, who, gen, max_steps=200000):
    """Run a single generator to completion (peer idle)."""
    return run_tasks(world, [Task(who, gen)], max_steps=max_steps)[who]


def gen_of_value(genfunc, *a, **kw):
    """Wrap a library generator whose *last yielded* value is the result
    (readAsync) so that the Task outcome carries it."""
    def g():
        last = None
        for r in genfunc(*a, **kw):
            if r in (0, 1) and not isinstance(r, (bytes, bytearray)):
                yield r
            else:
                last = r
        return last
    return g()


# ---------------------------------------------------------------- creds
TESTS = os.path.join(REPO, "tests")
_cred_cache = {}

CRED_FILES = {
    "rsa": ("serverX509Cert.pem", "serverX509Key.pem"),
    "rsapss": ("serverRSAPSSCert.pem", "serverRSAPSSKey.pem"),
    "rsapss_sig": ("serverRSAPSSSigCert.pem", "serverRSAPSSSigKey.pem"),
    "ecdsa": ("serverECCert.pem", "serverECKey.pem"),
    "ecdsa384": ("serverP384ECCert.pem", "serverP384ECKey.pem"),
    "ecdsa521": ("serverP521ECCert.pem", "serverP521ECKey.pem"),
    "bp256": ("serverBrainpoolP256r1ECCert.pem",
              "serverBrainpoolP256r1ECKey.pem"),
    "bp384": ("serverBrainpoolP384r1ECCert.pem",
              "serverBrainpoolP384r1ECKey.pem"),
    "bp512": ("serverBrainpoolP512r1ECCert.pem",
              "serverBrainpoolP512r1ECKey.pem"),
    "ed25519": ("serverEd25519Cert.pem", "serverEd25519Key.pem"),
    "ed448": ("serverEd448Cert.pem", "serverEd448Key.pem"),
    "dsa": ("serverDSACert.pem", "serverDSAKey.pem"),
    "c_rsa": ("clientX509Cert.pem", "clientX509Key.pem"),
    "c_ecdsa": ("clientECCert.pem", "clientECKey.pem"),
    "c_ed25519": ("clientEd25519Cert.pem", "clientEd25519Key.pem"),
    "c_dsa": ("clientDSACert.pem", "clientDSAKey.pem"),
    "rsa_nonca": ("serverRSANonCACert.pem", "serverRSANonCAKey.pem"),
    "ecdsa_nonca": ("serverECDSANonCACert.pem", "serverECDSANonCAKey.pem"),
}


def load_cred(name, fresh=False):
    """(X509CertChain, private key) for a fixture name."""
    if not fresh and name in _cred_cache:
        return _cred_cache[name]
    certf, keyf = CRED_FILES[name]
    with open(os.path.join(TESTS, certf)) as f:
        pem = f.read()
    chain = X509CertChain()
    chain.parsePemList(pem)
    with open(os.path.join(TESTS, keyf)) as f:
        key = parsePEMKey(f.read(), private=True,
                          implementations=["python"])
    if not fresh:
        _cred_cache[name] = (chain, key)
    return chain, key


def srp_db():
    if "srpdb" in _cred_cache:
        return _cred_cache["srpdb"]
    save = SEAMS.current
    SEAMS.current = "srpdb"
    db = VerifierDB()
    db.create()
    db[b"test"] = VerifierDB.makeVerifier(b"test", b"password", 1536)
    SEAMS.current = save
    _cred_cache["srpdb"] = db
    return db


# ---------------------------------------------------------------- views
def hexs(b):
    if b is None:
        return None
    return bytes(b).hex()


def chain_fp(chain):
    if chain is None:
        return None
    try:
        return tuple(hashlib.sha256(bytes(c.bytes)).hexdigest()[:16]
                     for c in chain.x509List)
    except Exception:
        return repr(chain)


def view(conn, exporter=True):
    """What an endpoint believes about a completed handshake."""
    s = conn.session
    v = {}
    v["version"] = tuple(conn.version)
    v["suite"] = s.cipherSuite if s else None
    v["etm"] = bool(conn.encryptThenMAC)
    if s:
        v["ems"] = bool(s.extendedMasterSecret)
        v["ms"] = hexs(s.masterSecret)
        v["cl_app"] = hexs(s.cl_app_secret)
        v["sr_app"] = hexs(s.sr_app_secret)
        v["exporter"] = hexs(s.exporterMasterSecret)
        v["appProto"] = hexs(s.appProto) if s.appProto else None
        v["serverName"] = s.serverName or None
        v["serverChain"] = chain_fp(s.serverCertChain)
        v["clientChain"] = chain_fp(s.clientCertChain)
        v["srpUsername"] = s.srpUsername or None
    if exporter and not conn.closed and s:
        try:
            v["ekm"] = hexs(conn.keyingMaterialExporter(
                bytearray(b"EXPERIMENTAL-verif"), 24))
        except Exception as e:  # noqa
            v["ekm"] = "ERR:" + type(e).__name__
    return v


SHARED_VIEW_KEYS = ("version", "suite", "etm", "ems", "ms", "cl_app",
                    "sr_app", "exporter", "appProto", "serverName",
                    "serverChain", "clientChain", "ekm")


def views_equal(vc, vs, keys=SHARED_VIEW_KEYS):
    diff = []
    for k in keys:
        if vc.get(k) != vs.get(k):
            diff.append((k, vc.get(k), vs.get(k)))
    return diff


# ---------------------------------------------------------------- pair
class Pair(object):
    """A client and a server TLSConnection over one World."""

    def __init__(self, world=None):
        self.world = world or World()
        self.c = TLSConnection(self.world.csock)
        self.s = TLSConnection(self.world.ssock)

    def handshake(self, cgen, sgen, **kw):
        return run_tasks(self.world, [Task("C", cgen), Task("S", sgen)], **kw)

    def clone(self):
        return copy.deepcopy(self)

    # convenience operations over an established pair ------------------
    def ep(self, who):
        return self.c if who == "C" else self.s

    def write(self, who, data):
        return run_gen(self.world, who, self.ep(who).writeAsync(data))

    def read(self, who, max=None, min=1):
        return run_gen(self.world, who,
                       gen_of_value(self.ep(who).readAsync, max, min))

    def close(self, who):
        return run_gen(self.world, who, self.ep(who).closeAsync())

    def drain(self, rounds=50):
        """Alternate zero-min reads until both would block; returns bytes
        read per side and any exceptions."""
        got = {"C": b"", "S": b""}
        excs = {}
        for _ in range(rounds):
            moved = False
            for who in ("C", "S"):
                ep = self.ep(who)
                if ep.closed or who in excs:
                    continue
                pipe = ep.sock.socket.rx if hasattr(ep.sock, "socket") \
                    else None
                if pipe is not None and not pipe.buf and \
                        not ep._readBuffer:
                    continue
                o = self.read(who, None, 0)
                if o.status == "ok":
                    if o.value:
                        got[who] += bytes(o.value)
                    moved = True
                elif o.status == "exc":
                    excs[who] = o.exc
                    moved = True
            if not moved:
                break
        return got, excs


class Meter(object):
    """Counts Python function calls (and optionally peak allocation) while
    one endpoint is being stepped."""

    def __init__(self, who, memory=False):
        self.who = who
        self.calls = 0
        self.memory = memory
        self.peak = 0
        self._base = None

    def _prof(self, frame, event, arg):
        if event == "call":
            self.calls += 1

    def start(self):
        if self.memory:
            import tracemalloc
            if not tracemalloc.is_tracing():
                tracemalloc.start()
            if self._base is None:
                self._base = tracemalloc.get_traced_memory()[0]
            tracemalloc.reset_peak()
        sys.setprofile(self._prof)

    def stop(self):
        sys.setprofile(None)
        if self.memory:
            import tracemalloc
            cur, peak = tracemalloc.get_traced_memory()
            self.peak = max(self.peak, peak - self._base)


def raising_site(exc):
    """(function, line) of the innermost tlslite frame of an exception."""
    tb = exc.__traceback__
    site = None
    while tb is not None:
        fn = tb.tb_frame.f_code.co_filename
        if "/tlslite/" in fn:
            site = (fn.split("/tlslite/")[-1],
                    tb.tb_frame.f_code.co_name)
        tb = tb.tb_next
    return site
