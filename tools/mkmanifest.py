#!/venv/bin/python
"""Regenerate MANIFEST.json from the table below (keeps it valid at all
times; run after adding a check)."""
import json, os, sys
HERE = os.path.dirname(os.path.dirname(os.path.abspath(__file__)))
sys.path.insert(0, HERE)

CHECKS = {}
# enumerated families added after the level texts were written (driven by the
# seeded changes, DESIGN.md 5.2 / 8); every one is exhaustive inside its menu
ADDED = {
 "C01": "N bytes before close x read(max=k,min=k); TLS 1.3 padding callbacks installed on the record layer (padded records witnessed); flat cases on connections resumed by ID / ticket under record limits.",
 "C02": "unprotected records of nine kinds at every position and after KeyUpdate; long-padding wrong-MAC CBC forgeries; every TLS 1.0-1.2 family (incl. NULL / RC4 / CCM_8) again after a ClientHello that offered TLS 1.3 early data; every TLS 1.3 suite again after a HelloRetryRequest.",
 "C03": "key-size values excluding the fixtures; PSK mode policy; resumed connections (full views); flavours with unrequested client credentials, anonymous DH with disjoint groups, DHE policy, mixed-case server names.",
 "C04": "downgrade sentinel tables (client and server, also resumed); ticket scenarios; key-exchange group in the view with HRR-forcing scenarios; fallback retries that offer a held session.",
 "C05": "ticket identity; degenerate SRP values; universal-forgery signature constants; delegated credentials (14 shapes x leaf x key); SRP name without SRP exchange; proof sites with the hash forced; identical proofs across handshakes.",
 "C06": "passive tap with a consumed-prefix oracle; 16 insert kinds, also outside the transcript; fragments across key changes; messages after completion; warning alerts in place of messages; adjacent double skips; a message split around ChangeCipherSpec; PSK-declined flavour.",
 "C07": "HelloRetryRequest interop (group x hello shape x resumption).",
 "C08": "records after the handshake; DER-tree certificate mutations with OID replacement; bombs with declared length 0; bodiless extensions x legacy versions; huge DH primes; PHA requests; alert-on-the-wire oracle and keep-socket pass; delegated credentials; key-exchange lies under a good signature; several hello extensions changed together; damaged resumed connections with the session cache inspected; CertificateVerify relabelled with schemes of other key types; certificates on curves without a signature scheme; TLS 1.3 Certificate cases with compression off, unexecuted cases counted.",
 "C09": "TLS 1.3 record keys over KeyUpdate generations; live TLS 1.3 key schedule and live TLS <= 1.2 master secret (EMS, client auth) against captured transcripts.",
 "C10": "PSS padding strings; DSA (r,s) grid; digest shapes vs the openssl CLI; warm-key faults; odd RSA moduli; encoding of the FFDH secret per version; RSA signature with its leading zero octet dropped.",
 "C11": "raw ciphertext classes on the wire.",
 "C12": "long bodies around the scan windows.",
 "C13": "19 offer variants (other suite / ALPN / server name, copies, renamed server name); both-ends view comparison on every connection; wrapped-cache initial state; ticket + client-auth mechanism; offers from a client without a certificate; thorough depth 4 on three mechanisms, 3 on the others.",
 "C14": "small-record flavours; sender record sizes; coalescing; AsyncStateMachine under four regimes and with full-record messages; consumers that drop the generator at the first result.",
 "C15": "2^24-byte bodies; parse-write-assign-write histories of every extension class; ticket payloads with chains of 0-3 certificates; failed corpus handshakes are violations; SSLv2-format ClientHello.",
 "C16": "PHA proof corruptions; heartbeat without negotiation; heartbeat request + data + orderly close of the socket; heartbeat messages at the record size (requester- and responder-limited).",
 "C17": "multi-record reads; dead-transport oracle; peer abort plus fault; alerts while closing; two connections sharing a session; program variants with KeyUpdate, heartbeat request and post-handshake authentication request; transport inspected after alerts during the handshake.",
 "C18": "clock-skew thread bodies with a recorded-age oracle; VerifierDB on disk (dbm.dumb in the schedule); thorough: bound 3 on the quick set, 2 on the wider sets.",
 "C19": "two changes on one side for every credential; 133 bytes each way on every demanded connection; client certificates over record_size_limit pairs; out-of-domain versions / dc_sig_algs; versions in the connection menus with a model of version negotiation and the downgrade sentinel; second base point (both sides limited to TLS 1.2); DSA servers; ECDSA client certificates over the signature dimensions; external PSK identity lists.",
 "C20": "KeyUpdate in the witnessed traffic; multi-credential servers; a lying server with a key of another type than the suite names; sessions offered across versions with every ServerHello checked.",
}
def chk(pid, cat, text, note, technique, ref):
    if pid in ADDED:
        text = text + " Added later (DESIGN.md 5.2): " + ADDED[pid]
    CHECKS[pid] = dict(cat=cat, text=text, note=note, technique=technique, ref=ref)

from tools.manifest_table import fill
fill(chk)

props = [json.loads(l) for l in open(os.path.join(HERE, "properties.jsonl"))]
checks = []
na = []
for p in props:
    pid = p["id"]
    c = CHECKS.get(pid)
    if c is None:
        na.append({"property_id": pid, "reason": "no check registered yet in this revision of /verif (planned in DESIGN.md section 3); not claimed"})
        continue
    checks.append({
        "property_id": pid,
        "quick_cmd": "./check %s --tier quick" % pid,
        "thorough_cmd": "./check %s --tier thorough" % pid,
        "evidence_file": "/verif/evidence/%s.json" % pid,
        "replay_cmd_template": "./check %s --replay {path}" % pid,
        "engine": "mc",
        "level_claimed": {"category": c["cat"], "text": c["text"], "design_ref": c["ref"]},
        "level_note": c["note"],
        "technique": c["technique"],
    })
m = {
 "version": 1,
 "setup_cmd": "cd /verif && /venv/bin/python -B -c 'import sys; sys.path.insert(0, \"/verif\"); import mc.world, mc.scen, mc.core; print(\"mc ok\")'",
 "hooks": {"guard": "TLSLITE_NG_VERIF", "enable": "none needed: every seam (os.urandom, time.time, sockets, locks, instance attributes) is substituted from outside the library at run time; checks import tlslite from /repo's working tree via sys.path",
           "baseline_off_cmd": "cd /repo && /venv/bin/python -m pytest -ra -q -p no:cacheprovider --timeout=900 --continue-on-collection-errors",
           "source_commits": [], "add_only": True},
 "engines": [{"name": "mc", "path": "/verif/mc", "serves_properties": sorted(CHECKS),
              "kind_free_text": "hand-written bounded exhaustive explorers over the real tlslite-ng code in a closed deterministic world (in-memory transport with scripted I/O answers, DRBG for os.urandom, virtual clock, round-robin generator scheduler with stall rule): product enumerator, deviation-bounded stateless explorer, explicit-state graph search over deep-copied connection pairs, controlled-thread explorer"}],
 "checks": checks,
 "not_applicable": na,
 "notes": "Python interpreter /venv/bin/python; all checks run offline; VERIF_SEED seeds only key material/nonces handed out by the closed world, never case selection. Known findings: /verif/known_findings.json.",
}
json.dump(m, open(os.path.join(HERE, "MANIFEST.json"), "w"), indent=1)
import subprocess
subprocess.check_call(["python3-vt", "-c", "import json,jsonschema; jsonschema.validate(json.load(open('%s/MANIFEST.json')), json.load(open('/root/.vp/MANIFEST.schema.json')))" % HERE])
print("MANIFEST ok:", len(checks), "checks,", len(na), "not claimed")
