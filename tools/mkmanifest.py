#!/venv/bin/python
"""Regenerate MANIFEST.json from the table below (keeps it valid at all
times; run after adding a check)."""
import json, os, sys
HERE = os.path.dirname(os.path.dirname(os.path.abspath(__file__)))
sys.path.insert(0, HERE)

CHECKS = {}
def chk(pid, cat, text, note, technique, ref):
    CHECKS[pid] = dict(cat=cat, text=text, note=note, technique=technique, ref=ref)

from tools.manifest_table import fill
fill(chk)

props = [json.loads(l) for l in open(os.path.join(HERE, "properties.jsonl"))]
checks = []
na = []
for p in props:
    pid = p["id"]
    c = CHECKS.get(pid)
    if c is None:
        na.append({"property_id": pid, "reason": "no check registered yet in this revision of /verif (planned in DESIGN.md section 3); not claimed"})
        continue
    checks.append({
        "property_id": pid,
        "quick_cmd": "./check %s --tier quick" % pid,
        "thorough_cmd": "./check %s --tier thorough" % pid,
        "evidence_file": "/verif/evidence/%s.json" % pid,
        "replay_cmd_template": "./check %s --replay {path}" % pid,
        "engine": "mc",
        "level_claimed": {"category": c["cat"], "text": c["text"], "design_ref": c["ref"]},
        "level_note": c["note"],
        "technique": c["technique"],
    })
m = {
 "version": 1,
 "setup_cmd": "cd /verif && /venv/bin/python -B -c 'import sys; sys.path.insert(0, \"/verif\"); import mc.world, mc.scen, mc.core; print(\"mc ok\")'",
 "hooks": {"guard": "TLSLITE_NG_VERIF", "enable": "none needed: every seam (os.urandom, time.time, sockets, locks, instance attributes) is substituted from outside the library at run time; checks import tlslite from /repo's working tree via sys.path",
           "baseline_off_cmd": "cd /repo && /venv/bin/python -m pytest -ra -q -p no:cacheprovider --timeout=900 --continue-on-collection-errors",
           "source_commits": [], "add_only": True},
 "engines": [{"name": "mc", "path": "/verif/mc", "serves_properties": sorted(CHECKS),
              "kind_free_text": "hand-written bounded exhaustive explorers over the real tlslite-ng code in a closed deterministic world (in-memory transport with scripted I/O answers, DRBG for os.urandom, virtual clock, round-robin generator scheduler with stall rule): product enumerator, deviation-bounded stateless explorer, explicit-state graph search over deep-copied connection pairs, controlled-thread explorer"}],
 "checks": checks,
 "not_applicable": na,
 "notes": "Python interpreter /venv/bin/python; all checks run offline; VERIF_SEED seeds only key material/nonces handed out by the closed world, never case selection. Known findings: /verif/known_findings.json.",
}
json.dump(m, open(os.path.join(HERE, "MANIFEST.json"), "w"), indent=1)
import subprocess
subprocess.check_call(["python3-vt", "-c", "import json,jsonschema; jsonschema.validate(json.load(open('%s/MANIFEST.json')), json.load(open('/root/.vp/MANIFEST.schema.json')))" % HERE])
print("MANIFEST ok:", len(checks), "checks,", len(na), "not claimed")
