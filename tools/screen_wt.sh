#!/bin/sh
# tools/screen_wt.sh <seed id>... : screening only.  Each seeded change is applied in a scratch
# worktree of /repo's HEAD (never in /repo), the quick check of its property is run against that
# tree (VERIF_REPO) with evidence redirected to /tmp, and the worktree is removed.
cd /verif || exit 3
mkdir -p /tmp/scr/ev
# run the checks from a private copy of the machinery, so that /verif can be edited meanwhile
snap=/tmp/scr/snap.$$
rm -rf "$snap"; mkdir -p "$snap"
rsync -a --exclude .git --exclude replays --exclude evidence --exclude seeded --exclude __pycache__ /verif/ "$snap"/
trap 'rm -rf "$snap"' EXIT
for s in "$@"; do
  prop=$(python3 -c "import json;print(json.load(open('seeded/$s/meta.json'))['breaks_property'])")
  # (a change may fall to the check of another property: e.g. a thread race seeded for C11 is C18's)
  also=$(python3 -c "import json;print(json.load(open('seeded/$s/meta.json')).get('also_screen_with',''))")
  wt=/tmp/scr/$s
  git -C /repo worktree remove --force "$wt" >/dev/null 2>&1
  git -C /repo worktree add --detach "$wt" HEAD >/dev/null 2>&1 || { echo "SEED $s worktree-failed"; continue; }
  if ! git -C "$wt" apply /verif/seeded/$s/patch.diff 2>/dev/null; then
    echo "SEED $s patch-does-not-apply"; git -C /repo worktree remove --force "$wt"; continue
  fi
  out=$(VERIF_REPO=$wt VERIF_EVIDENCE_DIR=/tmp/scr/ev "$snap"/check $prop --tier quick 2>&1 | grep -E "^(OK|FAIL)" | tail -1)
  case "$out" in FAIL*) ;; *) [ -n "$also" ] && out=$(VERIF_REPO=$wt VERIF_EVIDENCE_DIR=/tmp/scr/ev "$snap"/check $also --tier quick 2>&1 | grep -E "^(OK|FAIL)" | tail -1);; esac
  git -C /repo worktree remove --force "$wt"
  case "$out" in FAIL*) echo "SEED $s caught  [$out]";; *) echo "SEED $s MISSED  [$out]";; esac
done
