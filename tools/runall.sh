#!/bin/sh
# tools/runall.sh [tier] : run every registered check, print one line each
cd "$(dirname "$0")/.." || exit 3
tier=${1:-quick}
rc=0
for id in C01 C02 C03 C04 C05 C06 C07 C08 C09 C10 C11 C12 C13 C14 C15 C16 C17 C18 C19 C20; do
  out=$(./check $id --tier $tier 2>&1)
  code=$?
  echo "$out" | grep -E "^(OK|FAIL|VIOLATION|CHECK-VACUOUS|Traceback)" | head -3
  [ $code -ne 0 ] && { rc=1; echo "  -> exit $code for $id"; }
done
exit $rc
