#!/bin/sh
# tools/runsome.sh <tier> <ids...> : like runall.sh for a subset
cd "$(dirname "$0")/.." || exit 3
tier=$1; shift
rc=0
for id in "$@"; do
  out=$(./check $id --tier $tier 2>&1)
  code=$?
  echo "$out" | grep -E "^(OK|FAIL|VIOLATION|CHECK-VACUOUS|Traceback)" | head -3
  [ $code -ne 0 ] && { rc=1; echo "  -> exit $code for $id"; echo "$out" | grep -A1 "key=" | head -12 | cut -c1-600; }
done
exit $rc
