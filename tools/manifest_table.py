def fill(chk):
    chk("C19", "exploration",
        "Every HandshakeSettings object within <=2 (quick) / <=3 (thorough) menu changes of the defaults is validated and checked for purity (deep snapshot and list-object identity), idempotence, ValueError on out-of-domain values and installability of every listed algorithm; every pair of validated settings with <=1 change per side x credential type is run as a live handshake and must complete whenever an independently computed sufficient condition holds. Complete enumeration of a finite configuration lattice: the right level for a property quantified over configurations.",
        "Menus are finite; out-of-domain menus hold right-typed, wrong-valued entries only; success is demanded only under the conservative predicate must_connect() in mc/props/c19.py (IANA-name reading of both settings).",
        "exhaustive product enumeration of the settings lattice (bounded number of changed dimensions) + live loopback handshakes against an independent negotiation predicate",
        "DESIGN.md 3/C19")
