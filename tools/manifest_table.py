def fill(chk):
    chk("C19", "exploration",
        "Every HandshakeSettings object within <=2 (quick) / <=3 (thorough) menu changes of the defaults is validated and checked for purity (deep snapshot and list-object identity), idempotence, ValueError on out-of-domain values and installability of every listed algorithm; every pair of validated settings with <=1 change per side x credential type is run as a live handshake and must complete whenever an independently computed sufficient condition holds. Complete enumeration of a finite configuration lattice: the right level for a property quantified over configurations.",
        "Menus are finite; out-of-domain menus hold right-typed, wrong-valued entries only; success is demanded only under the conservative predicate must_connect() in mc/props/c19.py (IANA-name reading of both settings).",
        "exhaustive product enumeration of the settings lattice (bounded number of changed dimensions) + live loopback handshakes against an independent negotiation predicate",
        "DESIGN.md 3/C19")

    chk("C01", "model_checking",
        "For every negotiable (version, suite, EtM) triple (198 pairs + EtM-off variants) a live loopback connection carries every payload length of a boundary set in both directions; from the post-handshake snapshot a breadth-first search explores every sequence of write/read operations up to depth 3 (quick) / 4 (thorough) on deep copies of the connected pair, with a FIFO reference model checked on every transition; every record on the in-memory wire is opened by an independent record layer keyed from the session secrets and the IANA name, and its plaintext length is compared with the limit in force (peer's record_size_limit, 2^14, recordSize, TLS 1.3 padding). Exhaustive within the stated alphabets and depth.",
        "Payload values come from one counter stream per direction; state abstraction (bytes in flight, read-buffer lengths) drops absolute sequence numbers; refcrypto/refrecord are trusted after their start-up self-test against published vectors.",
        "explicit-state BFS over operation sequences on the real connection pair + FIFO reference model + independent record-layer witness",
        "DESIGN.md 3/C01")
    chk("C12", "exploration",
        "ct_check_cbc_mac_and_pad is evaluated on every (version, MAC, block size, body length, claimed padding length 0..255) of a boundary length set (quick) / all lengths 0..329 (thorough) with bodies built well-formed wherever the protocol allows, and on every single-byte corruption of selected well-formed bodies, against an 8-line direct specification; the same shapes are sealed by an independent record layer and pushed through RecordLayer.recvRecord() for every CBC suite x version.",
        "MAC keys/sequence numbers are fixed per seed; SSLv3 padding of exactly one block is left open; reference MACs come from hashlib/hmac.",
        "exhaustive input-shape enumeration against a direct executable specification",
        "DESIGN.md 3/C12")
    chk("C20", "exploration",
        "Every TLS suite identifier the library names (114) x every protocol version is attempted as a live handshake with settings derived from the IANA name; completed handshakes are checked against the name: ServerKeyExchange kind and signedness, certificate key type, ClientKeyExchange shape, accessor names, record expansion, and every protected record must open under a record layer configured from the name alone (cipher, key length, nonce construction, MAC/tag length, PRF hash). A MITM substitutes every suite id into ClientHello and ServerHello for every version to show it is never selected/accepted where the registry does not define it.",
        "ianasuite.py parses names only; draft-00 ChaCha suites have no registry entry; ECC under SSLv3 left open.",
        "exhaustive product enumeration (suite x version x role) with wire tap and independent record-layer witness",
        "DESIGN.md 3/C20")

    chk("C14", "model_checking",
        "Stateless exploration of the real endpoints under a scripted socket: every recv/send of both endpoints is a decision point; every execution of (handshake + data exchange + close) with <=1 deviation (quick, all flavours) / <=2 (thorough, four flavours) from the default answers is run to completion and must give the bit-identical observation of the unconstrained run (results, bytes, secrets, flags). Zero-deviation regimes (1- and 2-byte reads, would-block before every call, 1-byte sends, halves) under two stepping orders, the blocking API in either role, and MITM re-framing of plaintext handshake records (split at offsets, 1-byte fragments, 7-byte chunks) are run for every flavour.",
        "Socket model as in mc/world.py MemSock (non-blocking; sendall raises after a partial write); record re-framing limited to plaintext handshake records; AsyncStateMachine not driven.",
        "deviation-bounded stateless exploration (CHESS-style, deviation = non-default socket answer) of the implementation under a controlled transport/scheduler",
        "DESIGN.md 3/C14")
    chk("C17", "fault_enumeration",
        "One transport fault (EOF/ECONNRESET at a recv, EPIPE/ECONNRESET at a send) injected at every I/O call index of either endpoint of each scenario x closeSocket x ignoreAbruptClose, every execution run to completion and both endpoints held to the containment rules (allowed exception types, closed, handshake never reported complete, session not resumable, delivered bytes a prefix, no spinning/stall against a closed socket); orderly-close post-conditions including an actual resumption; every placement of five alert kinds relative to data after the handshake and before plaintext handshake records.",
        "Fault model: reset/epipe kill both directions, EOF is a half-close; one fault per execution (bound 1).",
        "exhaustive single-fault placement over all I/O call indices with a deviation-bounded explorer",
        "DESIGN.md 3/C17")

    chk("C02", "fault_enumeration",
        "From the post-handshake snapshot of every (version, suite, EtM) triple, in both directions, a queue of protected application records is subjected to every fault of a finite alphabet, one per execution on a deep copy: XOR masks at every header and body byte, truncation/extension with corrected header, stream truncation, replay, drop, swap, reflection from the opposite direction, earlier-epoch records, a record sealed before a KeyUpdate, and correctly keyed forgeries from the independent record layer (TLS 1.3 inner type / padding / outer header, overlong plaintext, CBC padding, outer type/version). The receiver reads to the end; only the untouched prefix may be delivered, the faulty record must raise a fatal local alert of the integrity/decoding family, close the connection and socket, put an alert on the wire and leave the session non-resumable.",
        "One fault per execution (bound 1); SSLv3 CBC changes confined to the unauthenticated padding block are accepted by protocol design and only required to deliver the sender's plaintext; quick uses masks {0x01,0x80}, thorough all eight bits and all truncation lengths.",
        "exhaustive single-fault enumeration over record sequences on deep-copied live connections, forgeries sealed by an independent record layer",
        "DESIGN.md 3/C02")

    chk("C03", "exploration",
        "Every pair (client settings, server settings) with <=1 changed dimension per side from 34 in-domain menu values, crossed with 15 handshake flavours (RSA, RSA-PSS, ECDSA P-256/384/521, Ed25519, Ed448, DSA, SRP, SRP+cert, anonymous, PSK with and without certificate, client auth, ALPN, SNI, NPN) is run as a live loopback handshake (full cross on the mutual-auth flavour in quick, everywhere in thorough). On completion the two endpoint views (version, suite, secrets, exporter output, EMS/EtM, ALPN/NPN, server name, both chains) must be equal and every negotiated parameter must lie inside each side's own validated settings as read through the independent IANA-name parser; when one side fails the other must not obtain application data and some alert must have been exchanged.",
        "Finite menus; serverSigAlg/ecdhCurve/dhGroupSize only checked where the library sets them; fixture key sizes are constants.",
        "exhaustive product enumeration of settings pairs x flavours with live handshakes and an independent policy-membership oracle",
        "DESIGN.md 3/C03")

    chk("C09", "exploration",
        "Every pure-Python primitive and KDF the library ships is evaluated over an exhausted shape space - AES block (3 key sizes), AES/3DES-CBC over 0..4 (6) blocks with every composition into 1-3 calls for both directions, RC4/AES-CTR over every length 0..40 (70) with every 2-way (3-way) split and carrying counters, all seven AEADs over the plaintext x AAD length grid plus the CCM AAD length-encoding boundaries, ChaCha20 block counters, Poly1305 0..49 bytes, HMAC key-length x message-length grid with copy() mid-stream, SSLv3 MAC, SSLv3/TLS1.0/TLS1.2 PRFs over secret/label/seed/output length ranges, HKDF-Expand-Label/Derive-Secret, calc_key for every version/label/PRF hash, exporters of live connections - and compared with an independent reference; AEAD open() must return None for every single-bit change of ciphertext, tag, nonce and AAD and every truncation.",
        "Values come from a 5-pattern alphabet per shape; mc/refcrypto.py (hashlib/hmac only) is trusted after its self-test against published vectors and the openssl CLI cross-check run at the start of every check.",
        "exhaustive input-shape enumeration against an independent reference implementation",
        "DESIGN.md 3/C09")

    chk("C18", "model_checking",
        "Controlled-thread exploration of the real objects: real threads under a baton scheduler with yield points at every source line of sessioncache.py / python_rsakey.py / basedb.py / verifierdb.py and at every acquire/release of the (substituted) lock; every schedule with <=2 (quick) / <=3 (thorough) preemptions of every thread-body combination from a small alphabet (colliding keys, clock thread crossing maxAge, invalidation thread, RSA blinding initialisation racing with use) is executed; histories must be linearizable w.r.t. the object run sequentially (cache) / a plain dict (VerifierDB), RSA results must equal m^d mod n, invariants (size bound, blinder*unblinder^e = 1 while the lock is free) hold at every yield point, and no schedule deadlocks. Sequentially, every SessionCache history up to depth 4 (quick) / 6 (thorough) over 11 operations and maxEntries 1..4 is compared with a dictionary-with-timestamps model (must-hit / must-miss).",
        "Line-granular preemption (no intra-line interleavings, no race detector for CPython); stress sampling not done; 512-bit RSA key generated from the DRBG.",
        "stateless model checking of real threads with a preemption bound (CHESS-style) + explicit-state enumeration of sequential histories against a reference model",
        "DESIGN.md 3/C18")
