#!/bin/sh
# validate every evidence file against the schema
python3-vt - <<'PY'
import json, glob, jsonschema
sch = json.load(open('/root/.vp/EVIDENCE.schema.json'))
for f in sorted(glob.glob('/verif/evidence/*.json')):
    jsonschema.validate(json.load(open(f)), sch)
    print("ok", f)
PY
