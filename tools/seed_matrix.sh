#!/bin/sh
# tools/seed_matrix.sh [ids...] : apply every kept seeded change to /repo in turn, run the quick
# check of its property, revert; prints "SEED <id> caught|MISSED".  /repo must be clean.
cd /verif || exit 3
ids=${*:-$(ls seeded | grep '^C')}
for s in $ids; do
  prop=$(python3 -c "import json;print(json.load(open('seeded/$s/meta.json'))['breaks_property'])")
  # (a change may fall to the check of another property: e.g. a thread race seeded for C11 is C18's)
  also=$(python3 -c "import json;print(json.load(open('seeded/$s/meta.json')).get('also_screen_with',''))")
  git -C /repo diff --quiet || { echo "/repo has uncommitted changes"; exit 3; }
  git -C /repo apply /verif/seeded/$s/patch.diff || { echo "SEED $s patch-does-not-apply"; continue; }
  out=$(./check $prop --tier quick 2>&1 | grep -E "^(OK|FAIL)" | tail -1)
  case "$out" in FAIL*) ;; *) [ -n "$also" ] && out=$(./check $also --tier quick 2>&1 | grep -E "^(OK|FAIL)" | tail -1);; esac
  git -C /repo checkout -- .
  case "$out" in FAIL*) echo "SEED $s caught  [$out]";; *) echo "SEED $s MISSED  [$out]";; esac
done
