#!/bin/sh
# tools/try_wt.sh <worktree with the change applied> <check id>... : run quick checks against a scratch tree (screening only)
wt=$1; shift
cd /verif || exit 3
for id in "$@"; do
  VERIF_REPO=$wt ./check $id --tier quick 2>&1 | grep -E "^(OK|FAIL|VIOLATION|CHECK-VACUOUS|  key=)" | head -5 | cut -c1-260
done
