#!/bin/sh
# tools/confirm_seed.sh <seed dir with patch.diff+demo.py> <name> [pytest workers]
# Confirms a seeded change in a fresh scratch worktree of /repo's HEAD (never in /repo):
#   demo passes without the change, fails with it, and the pinned test suite passes with it.
# Prints one line "CONFIRM <name> clean=<rc> mutated=<rc> tests=<summary>" and removes the worktree.
src=$1; name=$2; nw=${3:-4}
wt=/tmp/conf/$name
mkdir -p /tmp/conf
git -C /repo worktree remove --force "$wt" >/dev/null 2>&1
git -C /repo worktree add --detach "$wt" HEAD >/dev/null 2>&1 || { echo "CONFIRM $name worktree-failed"; exit 3; }
mkdir -p "$wt/_seed"; cp -r "$src"/. "$wt/_seed/"
cd "$wt" || exit 3
PYTHONPATH=$wt timeout 600 /venv/bin/python -B _seed/demo.py >/tmp/conf/$name.clean.log 2>&1; rc_clean=$?
if ! git apply _seed/patch.diff 2>/tmp/conf/$name.apply.log; then
  echo "CONFIRM $name patch-does-not-apply"; cd /; git -C /repo worktree remove --force "$wt"; exit 3
fi
PYTHONPATH=$wt timeout 600 /venv/bin/python -B _seed/demo.py >/tmp/conf/$name.mut.log 2>&1; rc_mut=$?
tests=$(PYTHONPATH=$wt /venv/bin/python -B -m pytest -q -p no:cacheprovider --timeout=900 -n $nw 2>&1 | tail -1)
cd /
git -C /repo worktree remove --force "$wt"
echo "CONFIRM $name clean=$rc_clean mutated=$rc_mut tests=$tests"
