#!/bin/sh
# tools/try_seed.sh <patch.diff> <check id>... : apply a seeded change to /repo, run the quick checks, always revert
patch=$1; shift
cd /verif || exit 3
git -C /repo diff --quiet || { echo "/repo has uncommitted changes"; exit 3; }
git -C /repo apply "$patch" || { echo "patch does not apply"; exit 3; }
for id in "$@"; do
  ./check $id --tier quick 2>&1 | grep -E "^(OK|FAIL|VIOLATION|CHECK-VACUOUS)" | head -4
done
git -C /repo checkout -- .
git -C /repo diff --quiet && echo "(reverted)"
